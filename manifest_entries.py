check('C12', 'proof',
      'All operators of kyupy.logic (array and bit-parallel form, arity 1-4, out= wrappers) are proved from their current source text against the value-level algebra of the property for all operand values, lanes and row aliasings; Boolean restriction and De Morgan are lemmas over the spec. An exhaustive enumeration on the real functions runs alongside as encoding cross-check.',
      'numpy element-wise/view semantics assumed (one representative element stands for all indices); operands hold 3-bit codes; spec.algebra is the oracle; pyvc + z3 trusted',
      'contract-based deductive verification: ast->z3 VC generation from the real source, sidecar contracts, z3 discharge', 'DESIGN.md 5-C12')

check('C01', 'other',
      'Proved (unbounded): LUT constants = truth tables of their names, kind_prefixes family selection, the 2-valued evaluation loop in both copies = fold of the per-op spec step for any op list and memory map, composition invariant over the op list under memory-map hypotheses, translation of one node (rows appended per node incl. primitive selection), s_to_c / c_to_s / s_ppo_to_ppi. Bounded: whole-netlist translation (topological order, stems), cycle and the end-to-end result on a stated circuit space against a gate-by-gate oracle.',
      'topological order of the node sequence, stems, memory-map hypotheses partly (A2, disjointness proved in C08) and the end-to-end composition are bounded evidence; numpy gather/scatter and element-wise semantics assumed',
      'contract-based deductive verification (ast->z3 VCs with loop invariant over the op list) + bounded runtime-contract stand-in', 'DESIGN.md 5-C01')
check('C02', 'other',
      'Proved (unbounded): 4-/8-valued evaluation loops against the callee contracts of the bit-parallel operators (C12), per-primitive X-soundness and 8v/2v lemmas over the spec. Bounded: real LogicSim(m=4,8) vs netlist oracle.',
      'lifting of the per-primitive lemmas to circuits is a paper induction; translation and composition are bounded evidence only',
      'contract-based deductive verification (modular calls, loop invariant) + finite lemmas in z3 + bounded stand-in', 'DESIGN.md 5-C02')
check('C08', 'other',
      'Proved (unbounded): Heap.__init__/alloc/free re-establish HeapInv with the abstract-view postconditions (all histories by induction); the allocation phase of SimOps.__init__ against the Heap contract with ghost reference counting: operands live when read, live slots disjoint, freed only when unreferenced and unpinned, pinned slots never freed, regions inside c_len, exact aliasing, no double free; the slot layout; the stems table per fork (first upstream line not driven by a fork with input). Bounded: same invariant on all histories up to a stated length on the real Heap; MapValid and the requires of the phase contracts on real SimOps instances.',
      'translation phase (ops, stems) bounded; its guarantees are the requires of the phase contracts and are evaluated on real instances; bisect/insort library contracts assumed',
      'contract-based: representation invariant + abstract-view postconditions (pyvc) with exhaustive-history bounded stand-in', 'DESIGN.md 5-C08')
check('C16', 'other',
      'Proved (unbounded): call-site obligations of inject_cb in all three loops with a ghost call log (exactly once per evaluated line, Line identity, writable view of the fresh row, downstream ops read what the callback wrote). Bounded: behavioural equivalence with an overridden line vs netlist oracle.',
      'requires of the loop contract; callback writes only through its view; netlist-level meaning bounded only',
      'contract-based deductive verification with ghost call log + bounded stand-in', 'DESIGN.md 5-C16')
check('C17', 'other',
      'Proved (unbounded, two functions, relative to topological_order): Circuit.topological_line_order yields exactly the connected output lines of the nodes in the order topological_order() gives them, pin order within a node, never None; Circuit.topological_order_with_level reports for every node its longest combinational distance from a source (0 for state elements and input-less nodes, else 1 + maximum over its drivers) (generators executed symbolically, yields as a ghost sequence). Bounded: runtime contracts of the worklist traversals (topological_order, reversed order, fan-in, levels) and name lookups on a stated circuit/naming space (exhaustive small family + seeded).',
      'topological_order() enters the proved parts as a node sequence (for the levels: with the guarantees of its bounded contract as requires; numpy max by an assumed contract); the worklist generators themselves are bounded only; oracle = spec-side graph search',
      'contract-based deductive verification (ast->z3 VCs, generator yields as ghost sequence) of two traversals + bounded runtime-contract stand-in for the worklist traversals', 'DESIGN.md 5-C17')
check('C03', 'other',
      'Proved (unbounded, all LUTs / operand waveforms / capacities >= 4 / delays >= 0 / dataset modes): _wave_eval output is well formed, its final value (parity) and its initial value are the LUT of the operand final / initial values also on the overflow path, frame and lane clauses, termination; capture and assign kernels; WaveSim.s_to_c encoding; composition over op list x lanes x levels (level_eval_cpu, WaveSim.c_prop) under memory-map hypotheses. Bounded: the hypotheses, translation and the end-to-end result on real runs against the netlist oracle, incl. instance re-use.',
      'extended-real model of float32 time stamps, integers mathematical, sd = 0; memory-map hypotheses A1-A4w partly proved (C08) otherwise bounded; GPU path composed per thread only',
      'contract-based deductive verification (ast->z3 VCs, quantified loop invariant with term-collection instantiation) + bounded stand-in', 'DESIGN.md 5-C03')
check('C04', 'other',
      'Proved (unbounded, per operation): one-op static-timing step (every finite output entry of _wave_eval inside the window spanned by operand entries + line delays) and strict monotonicity of the stored time stamps under polarity-independent delays. Bounded: netlist-level STA window, rigid shift, power-of-two scaling (down to 2^-24), monotonicity on real runs (dyadic grid).',
      'stage-1/2 invariants of _wave_eval assumed in this configuration (proved in C03); the induction to the netlist-level window is carried by the composition contract of level_eval_cpu / WaveSim.c_prop under the memory-map hypotheses and the window recurrence; relational shift/scale clauses are bounded only',
      'contract-based deductive verification (stage 3 of _wave_eval, cvc5/z3 portfolio) + bounded stand-in with a static-timing oracle', 'DESIGN.md 5-C04')
check('C05', 'other',
      'Proved: per-primitive lemmas L-act and L-8v2v over the spec (finite, z3); they rely on Q2/Q5 of _wave_eval (C03) and the 8-valued loop contract (C02). Bounded: (LogicSim(m=8), WaveSim) pairs on real runs.',
      'circuit-level lifting and the no-transition clause are bounded evidence / paper induction',
      'finite lemmas in z3 over the spec + bounded stand-in', 'DESIGN.md 5-C05')
check('C06', 'other',
      'Proved: lane-locality of every kernel access, dataset selection prelude, capture CPU == GPU fold, assign kernel encoding, cdiv. Bounded: bit-identity across options / classes / lanes / sims=k / dataset modes on real runs.',
      'relational option-independence clauses are bounded only; mock GPU only',
      'contract-based deductive verification of the kernels + bounded stand-in for the relational clauses', 'DESIGN.md 5-C06')
check('C07', 'other',
      'Proved: per-thread read/write frames of _wave_eval (only operand/own regions read, only own region of own lane written), cdiv. Bounded: SchedValid + per-level disjointness on real SimOps, permuted ops per level and shuffled GPU threads compared bit by bit.',
      'commutation lemma on paper; levelisation loop bounded only; mock GPU only',
      'contract-based frames (pyvc) + bounded stand-in for schedules', 'DESIGN.md 5-C07')
check('C13', 'other',
      'Proved: wave_capture_cpu and wave_capture_gpu against folds over the waveform (init, EAT, LST, final, value just before T, overflow marker), Q4 rise/fall counts and Q6 overflow propagation of _wave_eval, accumulation recurrence of level_eval_cpu / wave_eval_gpu with exactly-once evaluation, WaveSim.c_to_s (every port row gets the capture of its own slot). Bounded: capacity-independence when the indicator is clear (incl. an overflow-propagation family), abuf totals, a_ctrl plumbing.',
      'sd = 0; extended-real time model; capacity relation bounded only',
      'contract-based deductive verification with ghost fold functions + bounded stand-in', 'DESIGN.md 5-C13')
check('C09', 'other',
      'Proved (unbounded, from any well-formed state): Node.__init__, Node.remove, Line.__init__ (explicit free pins / first free pins), Line.remove and the container primitives re-establish the well-formedness clauses W0-W6 and change exactly what they state (object-heap model). Bounded: wf class invariant after every step of edit histories over the public API (exhaustive small + seeded long) and after the rewiring transformations.',
      'well-formed use per the property; rewiring transformations (eliminate_1to1_forks, substitute, copy, pickle) bounded only; next()/enumerate() of GrowingList.free_index by their Python semantics',
      'contract-based deductive verification on an object heap (representation invariant as pre/postcondition, loop invariant for the re-numbering) + runtime class invariant as bounded stand-in', 'DESIGN.md 5-C09')
check('C10', 'other',
      'Proved (unbounded, one step): eliminating one 1:1 fork (loop body of eliminate_1to1_forks with Node.remove / Line.remove inlined) keeps the graph well-formed and splices the input line to the reader and pin of the output line, nothing else changes. Bounded over circuits and pin subsets, complete over input valuations (z3): every library cell and synthetic implementation shape resolves without exception, keeps wf, names/order of ports and state elements, and the observed function; copy/pickle/eliminate and compositions on the shared circuit space.',
      'spec evaluator incl. hierarchical instance semantics is the oracle; substitute / resolve / copy / pickle bounded only',
      'contract-based deductive verification of the fork-elimination step on an object heap + bounded runtime contracts with z3 equivalence per instance', 'DESIGN.md 5-C10')
check('C19', 'other',
      'Proved (unbounded, one phase): the pin-numbering loop of TechLib.__init__ lists every port of the implementation circuit exactly once, with its direction and its position among the ports of that direction (inputs and outputs numbered 0..n-1 in declaration order), for any sequence of ports. Finite configuration space enumerated completely: postcondition of TechLib.__init__ on the five library texts (names expand, pin tables, implementation ports) and datasheet function of every family cell on all input combinations (truth tables by the real LogicSim).',
      'spec.datasheet is the oracle for the cell functions; that part is a runtime-evaluated contract, exhaustive, not a symbolic proof; text splitting, bench.parse and brace expansion are outside the VC generator',
      'contract-based deductive verification (ast->z3 VCs) of the pin-numbering loop (quantified invariant, ghost counts) + exhaustive evaluation of the postcondition over a finite configuration space', 'DESIGN.md 5-C19')
check('C11', 'other',
      'Proved (unbounded, one step): BenchTransformer.assignment adds exactly the described cell, its output fork and one input line per driver in order, keeping the circuit well-formed (constructors inlined on the object heap). Bounded round-trip contract with spec-side Verilog/bench printers: port order, function for all valuations (enumerated), branch forks only insert forks, bench == Verilog; over generated netlists of all five libraries and many renderings.',
      'the LALR grammars, the Verilog transformer and the pin tables are outside the VC generator; meaning of the parsed circuit judged by the spec evaluator',
      'contract-based deductive verification of the bench construction step + bounded runtime round-trip contract (ghost netlist), complete over valuations', 'DESIGN.md 5-C11')
check('C14', 'other',
      'Proved (two functions): the CELL grouping loop of SdfTransformer.start keeps every entry of every block under its instance name in file order, for any sequence of blocks (repeated / unnamed instances included); sdf.sanitize returns [name, name, rise, fall] with a single value list applied to both output polarities. Bounded round-trip contract with a spec-side SDF printer: every IOPATH / INTERCONNECT entry at its [dataset, line, input polarity, output polarity], everything else zero; three CELL grouping styles x both branchforks.',
      'LALR parser, SdfTransformer.cell and the numpy annotation code (iopaths / interconnects) are outside the VC generator and bounded only',
      'contract-based deductive verification (ast->z3 VCs) of CELL grouping (quantified loop invariant, ghost counts) and entry normalisation + bounded runtime round-trip contract (ghost entries) for placement and zeros', 'DESIGN.md 5-C14')
check('C18', 'other',
      'Bounded round-trip contract with a spec-side STIL printer for tests(), responses(), tests_loc(); mv_transition under pyvc contract where discharged.',
      'bounded over circuits/chains/pattern sets', 'bounded runtime round-trip contract (+ pyvc for mv_transition)', 'DESIGN.md 5-C18')
check('C20', 'other',
      'Proved (unbounded, two functions): DefWire.wire_points lists exactly the locations of a wire in order with every wildcard replaced by the coordinate in force; DefWire.vias (point lists without via arrays) lists every via once, per type in file order, at the location in force with its orientation or N. Bounded round-trip contract with a spec-side DEF printer: all sections, wildcard resolution, via arrays, per-layer listings for special and regular nets.',
      'parser, via-array expansion and per-net aggregation outside the VC generator (bounded)', 'contract-based deductive verification of the wildcard resolution for wire points and vias (loop invariants with ghost recurrences) + bounded runtime round-trip contract (ghost design)', 'DESIGN.md 5-C20')
check('C15', 'other',
      'Proved (unbounded in the extents): unpackbits, packbits (uint8), mv_to_bp, bp_to_mv element-wise on a functional array model and the round trip bp_to_mv(mv_to_bp(x)) = x & 7; popcount table. Bounded: interpret / mvarray / mv_str / bparray and other dtypes vs an independent bit-by-bit oracle over shapes <= 3 axes / extents <= 10 (+16, 17), strings, aliases, 9 dtypes.',
      'numpy packbits/unpackbits/swapaxes/pad/slicing by assumed contracts; string handling bounded', 'contract-based deductive verification on a functional array model + bounded runtime contracts', 'DESIGN.md 5-C15')
