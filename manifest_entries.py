check('C12', 'proof',
      'All operators of kyupy.logic (array and bit-parallel form, arity 1-4, out= wrappers) are proved from their current source text against the value-level algebra of the property for all operand values, lanes and row aliasings; Boolean restriction and De Morgan are lemmas over the spec. An exhaustive enumeration on the real functions runs alongside as encoding cross-check.',
      'numpy element-wise/view semantics assumed (one representative element stands for all indices); operands hold 3-bit codes; spec.algebra is the oracle; pyvc + z3 trusted',
      'contract-based deductive verification: ast->z3 VC generation from the real source, sidecar contracts, z3 discharge', 'DESIGN.md 5-C12')
