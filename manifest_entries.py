check('C12', 'proof',
      'All operators of kyupy.logic (array and bit-parallel form, arity 1-4, out= wrappers) are proved from their current source text against the value-level algebra of the property for all operand values, lanes and row aliasings; Boolean restriction and De Morgan are lemmas over the spec. An exhaustive enumeration on the real functions runs alongside as encoding cross-check.',
      'numpy element-wise/view semantics assumed (one representative element stands for all indices); operands hold 3-bit codes; spec.algebra is the oracle; pyvc + z3 trusted',
      'contract-based deductive verification: ast->z3 VC generation from the real source, sidecar contracts, z3 discharge', 'DESIGN.md 5-C12')

check('C01', 'other',
      'Proved (unbounded): LUT constants = truth tables of their names, kind_prefixes family selection, and the 2-valued evaluation loop in both copies computes the fold of the per-op spec step for any op list and memory map. Bounded: translation/assign/capture/cycle and netlist-level composition on a stated circuit space against a gate-by-gate oracle.',
      'requires of the loop contract, SimOps translation, numpy advanced indexing and the composition to netlist level are bounded evidence only; numpy element-wise semantics assumed',
      'contract-based deductive verification (ast->z3 VCs with loop invariant over the op list) + bounded runtime-contract stand-in', 'DESIGN.md 5-C01')
check('C02', 'other',
      'Proved (unbounded): 4-/8-valued evaluation loops against the callee contracts of the bit-parallel operators (C12), per-primitive X-soundness and 8v/2v lemmas over the spec. Bounded: real LogicSim(m=4,8) vs netlist oracle.',
      'lifting of the per-primitive lemmas to circuits is a paper induction; translation and composition are bounded evidence only',
      'contract-based deductive verification (modular calls, loop invariant) + finite lemmas in z3 + bounded stand-in', 'DESIGN.md 5-C02')
check('C08', 'other',
      'Bounded today: HeapInv + abstract view on all alloc/free histories up to a stated length on the real Heap; MapValid (token simulation of liveness, aliases, capacities, c_len) on real SimOps instances. Heap.alloc/free under pyvc contract: see evidence (counted only when discharged).',
      'bounded evidence for the memory map; library contracts of bisect/insort assumed',
      'contract-based: representation invariant + abstract-view postconditions (pyvc) with exhaustive-history bounded stand-in', 'DESIGN.md 5-C08')
check('C16', 'other',
      'Proved (unbounded): call-site obligations of inject_cb in all three loops with a ghost call log (exactly once per evaluated line, Line identity, writable view of the fresh row, downstream ops read what the callback wrote). Bounded: behavioural equivalence with an overridden line vs netlist oracle.',
      'requires of the loop contract; callback writes only through its view; netlist-level meaning bounded only',
      'contract-based deductive verification with ghost call log + bounded stand-in', 'DESIGN.md 5-C16')
check('C17', 'exploration',
      'Runtime contracts of the traversal generators and name lookups on a stated bounded circuit/naming space (exhaustive small family + seeded).',
      'bounded only (generators over an object graph are outside the VC generator); oracle = spec-side graph search',
      'bounded runtime-contract stand-in (no deductive part within reach)', 'DESIGN.md 5-C17')
