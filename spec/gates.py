"""Gate families by *name* (independent of kyupy.sim's constants): every simulation primitive as a composition of
NOT/AND/OR/XOR over its pins i0..i3, generic in the value algebra (2-, 4-, 8-valued; concrete or symbolic).

From the property statements: C01 'evaluating the netlist gate by gate', C02 'gate-by-gate composition of the documented
multi-valued operators'.  Pin roles follow the comments of the primitive list: AO21 = (i0&i1)|i2, AO22 = (i0&i1)|(i2&i3),
OA21 = (i0|i1)&i2, OA22 = (i0|i1)&(i2|i3), AO211 = (i0&i1)|i2|i3, OA211 = (i0|i1)&i2&i3, MUX21 = i1 if i2 else i0.
BUF1 is a wire (identity, also for X/-)."""
from . import algebra as A


class Alg:
    def __init__(self, m):
        o = A.OPS[m]
        self.m = m
        self.not_, self.and_, self.or_, self.xor_ = o['not'], o['and'], o['or'], o['xor']


def _nary(name, n):
    def f(g, i):
        return getattr(g, name)(*i[:n])
    return f


def _neg(f):
    return lambda g, i: g.not_(f(g, i))


PRIMS = {'BUF1': lambda g, i: i[0], 'INV1': lambda g, i: g.not_(i[0])}
for _n in (2, 3, 4):
    PRIMS[f'AND{_n}'] = _nary('and_', _n)
    PRIMS[f'OR{_n}'] = _nary('or_', _n)
    PRIMS[f'XOR{_n}'] = _nary('xor_', _n)
    PRIMS[f'NAND{_n}'] = _neg(PRIMS[f'AND{_n}'])
    PRIMS[f'NOR{_n}'] = _neg(PRIMS[f'OR{_n}'])
    PRIMS[f'XNOR{_n}'] = _neg(PRIMS[f'XOR{_n}'])
PRIMS['AO21'] = lambda g, i: g.or_(g.and_(i[0], i[1]), i[2])
PRIMS['AO22'] = lambda g, i: g.or_(g.and_(i[0], i[1]), g.and_(i[2], i[3]))
PRIMS['OA21'] = lambda g, i: g.and_(g.or_(i[0], i[1]), i[2])
PRIMS['OA22'] = lambda g, i: g.and_(g.or_(i[0], i[1]), g.or_(i[2], i[3]))
PRIMS['AO211'] = lambda g, i: g.or_(g.and_(i[0], i[1]), i[2], i[3])
PRIMS['OA211'] = lambda g, i: g.and_(g.or_(i[0], i[1]), i[2], i[3])
for _n in ('AO21', 'AO22', 'OA21', 'OA22', 'AO211', 'OA211'):
    PRIMS[_n[:2] + 'I' + _n[2:]] = _neg(PRIMS[_n])
PRIMS['MUX21'] = lambda g, i: g.or_(g.and_(i[0], g.not_(i[2])), g.and_(i[1], i[2]))

assert len(PRIMS) == 33

ALG = {m: Alg(m) for m in (2, 4, 8)}


def apply(name, m, ins):
    """value of primitive ``name`` in m-valued logic on the operand values ``ins`` (4 values; unused ones ignored)"""
    return PRIMS[name](ALG[m], list(ins))


def truth_table16(name):
    """the 16-bit table of a primitive: bit (i0 + 2*i1 + 4*i2 + 8*i3) = value"""
    t = 0
    for x in range(16):
        ins = [(bool(x & 1),), (bool(x & 2),), (bool(x & 4),), (bool(x & 8),)]
        if bool(apply(name, 2, ins)[0]):
            t |= 1 << x
    return t


# gate kind (netlist level) -> primitive family, from the names: used by spec.evaln, not by the code under test
FAMILIES = {
    'nand': 'NAND', 'nor': 'NOR', 'and': 'AND', 'or': 'OR', 'isolor': 'OR2', 'xor': 'XOR', 'xnor': 'XNOR',
    'not': 'INV1', 'inv': 'INV1', 'ibuf': 'INV1', '__const1__': 'INV1', 'tieh': 'INV1',
    'buf': 'BUF1', 'nbuf': 'BUF1', 'delln': 'BUF1', '__const0__': 'BUF1', 'tiel': 'BUF1',
    'ao211': 'AO211', 'oa211': 'OA211', 'aoi211': 'AOI211', 'oai211': 'OAI211',
    'ao22': 'AO22', 'aoi22': 'AOI22', 'ao21': 'AO21', 'aoi21': 'AOI21',
    'oa22': 'OA22', 'oai22': 'OAI22', 'oa21': 'OA21', 'oai21': 'OAI21', 'mux21': 'MUX21'}
