"""Netlist-level oracle: gate-by-gate evaluation of a kyupy Circuit graph in 2-, 4- or 8-valued logic.

Written from the property statements (C01, C02, C10, C11, C16), *not* from sim.py / logic_sim.py:
  * ports and state elements are ordered: io_nodes, then flip-flops ('dff' in kind), then latches ('latch' in kind);
  * an interface node drives the assigned value on all of its outputs, except that the second output of a flip-flop is
    inverted; a port that is a fork with an input line is an output only (it passes its input on to its readers);
  * a fork copies its input to every output; an unconnected input pin reads as constant 0;
  * a gate computes the function its kind names (spec.gates), arity from the digit in the kind if there is one, else
    from its number of input pins;
  * every output / state-element input captures the value of the line on its pin 0.
Values are tuples of booleans (1, 2 or 3 components for m = 2, 4, 8), concrete or pyvc-symbolic.
"""
import re

from . import gates, algebra as A


def is_dff(n): return 'dff' in n.kind.lower()
def is_latch(n): return 'latch' in n.kind.lower()


def s_nodes(circuit):
    return list(circuit.io_nodes) + [n for n in circuit.nodes if is_dff(n)] + [n for n in circuit.nodes if is_latch(n)]


def zero(m):
    return {2: (False,), 4: (False, False), 8: (False, False, False)}[m]


def family_of(kind):
    k = kind.lower()
    best = None
    for p in gates.FAMILIES:
        if k.startswith(p) and (best is None or len(p) > len(best)):
            best = p
    return best


ARITY_BY_HIGHEST_PIN = False   # alternative reading, only used to *classify* a mismatch as the known arity finding


def primitive_of(node):
    """-> (primitive name, declared arity) by the node's kind *name*"""
    fam_key = family_of(node.kind)
    if fam_key is None:
        return None, None
    fam = gates.FAMILIES[fam_key]
    if fam in gates.PRIMS:
        return fam, None
    rest = node.kind.lower()[len(fam_key):]
    mm = re.match(r'(\d)', rest)
    arity = int(mm.group(1)) if mm else len(node.ins)
    if ARITY_BY_HIGHEST_PIN:
        conn = [j for j in range(len(node.ins)) if node.ins[j] is not None]
        arity = (max(conn) + 1) if conn else 2
    arity = max(2, min(4, arity))
    return f'{fam}{arity}', arity


class Eval:
    def __init__(self, circuit, assign, m, override=None, passthrough_outputs=False):
        """assign: dict s_index -> value (missing: zero); override: dict line_index -> value (C16 injection);
        passthrough_outputs: ports that have an input line are pure observation points (used for cell implementation
        circuits, where an output port read internally is a wire, not a stimulus position)"""
        self.c, self.m, self.assign, self.override = circuit, m, assign, override or {}
        self.snodes = s_nodes(circuit)
        self.sidx = {id(n): i for i, n in enumerate(self.snodes)}
        # a port that is a fork with an input line is an output only (Circuit.io_nodes: "nodes without any lines in their ins
        # list are primary inputs, all other nodes in the io_nodes list are regarded as primary outputs"): it passes its input on
        nio_ = len(circuit.io_nodes)
        self.sidx = {k: i for k, i in self.sidx.items()
                     if i >= nio_ or not (self.snodes[i].kind == '__fork__' and len(self.snodes[i].ins) > 0 and self.snodes[i].ins[0] is not None)}
        if passthrough_outputs:
            nio = len(circuit.io_nodes)
            self.sidx = {k: i for k, i in self.sidx.items()
                         if i >= nio or not (len(self.snodes[i].ins) > 0 and self.snodes[i].ins[0] is not None)}
        self.memo = {}

    def line(self, l):
        if l is None:
            return zero(self.m)
        k = l.index
        if k in self.memo:
            return self.memo[k]
        self.memo[k] = None     # cycle guard
        v = self.driver_value(l.driver, l.driver_pin)
        if k in self.override:
            v = self.override[k]
        self.memo[k] = v
        return v

    def driver_value(self, n, pin):
        if id(n) in self.sidx:
            v = self.assign.get(self.sidx[id(n)], zero(self.m))
            if is_dff(n) and pin == 1:
                return A.OPS[self.m]['not'](v)
            return v
        if n.kind == '__fork__':
            return self.line(n.ins[0] if len(n.ins) > 0 else None)
        prim, _ = primitive_of(n)
        if prim is None:
            raise ValueError(f'unsupported kind {n.kind}')
        ins = [self.line(n.ins[j] if j < len(n.ins) else None) for j in range(4)]
        if any(v is None for v in ins):
            raise ValueError('combinational loop')
        return gates.apply(prim, self.m, ins)

    def captured(self):
        """dict s_index -> captured value for every port/state element with a connected pin-0 input"""
        out = {}
        for i, n in enumerate(self.snodes):
            if len(n.ins) > 0 and n.ins[0] is not None:
                out[i] = self.line(n.ins[0])
        return out


def evalN(circuit, assign, m, override=None):
    return Eval(circuit, assign, m, override).captured()


def input_positions(circuit):
    """s indices that act as (pseudo) inputs: interface nodes with at least one output pin"""
    return [i for i, n in enumerate(s_nodes(circuit)) if len(n.outs) > 0]


def state_positions(circuit):
    sn = s_nodes(circuit)
    return [i for i, n in enumerate(sn) if i >= len(circuit.io_nodes)]
