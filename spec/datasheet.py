"""Datasheet Boolean functions of standard-cell families, by cell *name* and *pin names* (vendor conventions), written from
the property statement C19 -- the oracle for the built-in libraries.  Only purely combinational families named in the
property are covered: AND/OR/NAND/NOR/XOR/XNOR of an arity, buffers and inverters, AO/OA/AOI/OAI pin groupings,
multiplexers, half/full adders (sum on S/SO, carry on CO/C1).

family(name, inputs, outputs) -> dict output_pin -> function(env: pin -> bool) -> bool, or None if the name is not in a family.
"""
import re
from functools import reduce


def _and(v): return all(v)
def _or(v): return any(v)
def _xor(v): return reduce(lambda a, b: a != b, v, False)


def strip_drive(name):
    """remove drive-strength / threshold suffixes: X1, _X2, X0_RVT, X2_LVT ..."""
    n = re.sub(r'_(RVT|LVT|HVT)$', '', name)
    n = re.sub(r'_?X\d+$', '', n)
    return n


def groups_by_letter(inputs):
    """NANGATE / GSC180 style: pins named <letter><digit?>; a letter is one group (A, B1, B2, C1, C2 -> [A],[B1,B2],[C1,C2])"""
    g = {}
    for p in inputs:
        g.setdefault(p[0], []).append(p)
    return [g[k] for k in sorted(g)]


def groups_by_digits(inputs, digits):
    """SAED style: consecutive pins form groups of the sizes given by the digits of the name (AO221: 2,2,1)"""
    out, i = [], 0
    for d in digits:
        out.append(inputs[i:i + d])
        i += d
    return out if i == len(inputs) else None


def family(name, inputs, outputs):
    base = strip_drive(name)
    m = re.fullmatch(r'(NAND|NOR|AND|OR|XNOR|XOR)(\d)', base)
    if m and len(outputs) == 1:
        f, k = m.group(1), int(m.group(2))
        if len(inputs) != k:
            return {'__error__': f'{name}: family {f}{k} but {len(inputs)} input pins'}
        core = {'AND': _and, 'NAND': _and, 'OR': _or, 'NOR': _or, 'XOR': _xor, 'XNOR': _xor}[f]
        neg = f in ('NAND', 'NOR', 'XNOR')
        return {outputs[0]: (lambda env, core=core, neg=neg: core([env[p] for p in inputs]) != neg)}
    # tie cells: constant drivers without inputs
    if re.fullmatch(r'LOGIC1|TIEH(I)?', base) and len(inputs) == 0 and len(outputs) == 1:
        return {outputs[0]: lambda env: True}
    if re.fullmatch(r'LOGIC0|TIEL(O)?', base) and len(inputs) == 0 and len(outputs) == 1:
        return {outputs[0]: lambda env: False}
    if re.fullmatch(r'(CLK|N|AO)?BUF(F)?|DELLN\d', base) and len(inputs) == 1 and len(outputs) == 1:
        return {outputs[0]: lambda env: env[inputs[0]]}
    if re.fullmatch(r'(AO)?INV|IBUFF', base) and len(inputs) == 1 and len(outputs) == 1:
        return {outputs[0]: lambda env: not env[inputs[0]]}
    m = re.fullmatch(r'(AO|OA)(I?)(\d+)', base)
    if m and len(outputs) == 1:
        kind, inv, digits = m.group(1), bool(m.group(2)), [int(d) for d in m.group(3)]
        if sum(digits) != len(inputs):
            return {'__error__': f'{name}: grouping {digits} but {len(inputs)} input pins'}
        if all(re.fullmatch(r'(A|IN)\d', p) for p in inputs):
            grp = groups_by_digits(inputs, digits)               # SAED: A1..A5 / IN1..IN5 in order
        else:
            grp = groups_by_letter(inputs)                         # NANGATE / GSC180: letters name the groups
            if sorted(len(g) for g in grp) != sorted(digits):
                return {'__error__': f'{name}: pin groups {grp} do not match {digits}'}
        inner, outer = (_and, _or) if kind == 'AO' else (_or, _and)
        return {outputs[0]: (lambda env, grp=grp, inner=inner, outer=outer, inv=inv: outer([inner([env[p] for p in g]) for g in grp]) != inv)}
    if re.fullmatch(r'MX2|MUX2|MUX21', base) and len(inputs) == 3 and len(outputs) == 1:
        a, b, s = inputs
        return {outputs[0]: lambda env: env[b] if env[s] else env[a]}
    if re.fullmatch(r'MUX41', base) and len(inputs) == 6 and len(outputs) == 1:
        d, (s0, s1) = inputs[:4], inputs[4:]
        return {outputs[0]: lambda env: env[d[(1 if env[s0] else 0) + (2 if env[s1] else 0)]]}
    if re.fullmatch(r'ADDH|HA|HADD', base) and len(inputs) == 2 and len(outputs) == 2:
        s = [o for o in outputs if o in ('S', 'SO')]
        c = [o for o in outputs if o in ('CO', 'C1')]
        if len(s) == 1 and len(c) == 1:
            return {s[0]: lambda env: _xor([env[p] for p in inputs]), c[0]: lambda env: _and([env[p] for p in inputs])}
    if re.fullmatch(r'ADDF|FA|FADD', base) and len(inputs) == 3 and len(outputs) == 2:
        s = [o for o in outputs if o in ('S', 'SO')]
        c = [o for o in outputs if o in ('CO', 'C1')]
        if len(s) == 1 and len(c) == 1:
            return {s[0]: lambda env: _xor([env[p] for p in inputs]),
                    c[0]: lambda env: sum(1 for p in inputs if env[p]) >= 2}
    if re.fullmatch(r'DEC24', base) and len(inputs) == 2 and len(outputs) == 4:
        # 2-to-4 decoder: output k is 1 iff the address (inputs[0] = least significant bit) equals k
        return {o: (lambda env, k=k: ((1 if env[inputs[0]] else 0) + (2 if env[inputs[1]] else 0)) == k) for k, o in enumerate(outputs)}
    return None
