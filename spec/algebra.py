"""Value-level specification of kyupy's multi-valued logic, written from the property statements (C02, C12) and the
documented encoding (logic.py module docstring): bit0 final value, bit1 initial value, bit2 activity; without
activity 01 = unknown (X) and 10 = unassigned (-).

  * a controlling constant dominates (plain 0 for AND, plain 1 for OR),
  * otherwise an unknown/unassigned operand makes the result unknown,
  * otherwise final and initial values are combined component-wise and activity is the union of operand activity.

A value is a triple (f, i, a) of booleans -- concrete bools or pyvc SBool -- so the same text serves as the z3-side
postcondition and as the concrete oracle of the bounded checks.  Nothing here is derived from the code under test.
"""
from pyvc.logic import And, Or, Not, ite, iff


def xor2(a, b):
    return Or(And(a, Not(b)), And(Not(a), b))


def is_unknown8(v):
    f, i, a = v
    return And(Not(a), xor2(f, i))


def is_zero8(v):
    f, i, a = v
    return And(Not(f), Not(i), Not(a))


def is_one8(v):
    f, i, a = v
    return And(f, i, Not(a))


X8 = (True, False, False)
ZERO8 = (False, False, False)
ONE8 = (True, True, False)


def _sel(c, x, y):
    return tuple(ite(c, p, q) for p, q in zip(x, y))


def _fold(op, vs):
    r = vs[0]
    for v in vs[1:]:
        r = op(r, v)
    return r


def not8(v):
    f, i, a = v
    return _sel(is_unknown8(v), X8, (Not(f), Not(i), a))


def and8(*vs):
    comp = (And(*[v[0] for v in vs]), And(*[v[1] for v in vs]), Or(*[v[2] for v in vs]))
    return _sel(Or(*[is_zero8(v) for v in vs]), ZERO8, _sel(Or(*[is_unknown8(v) for v in vs]), X8, comp))


def or8(*vs):
    comp = (Or(*[v[0] for v in vs]), Or(*[v[1] for v in vs]), Or(*[v[2] for v in vs]))
    return _sel(Or(*[is_one8(v) for v in vs]), ONE8, _sel(Or(*[is_unknown8(v) for v in vs]), X8, comp))


def xor8(*vs):
    comp = (_fold(xor2, [v[0] for v in vs]), _fold(xor2, [v[1] for v in vs]), Or(*[v[2] for v in vs]))
    return _sel(Or(*[is_unknown8(v) for v in vs]), X8, comp)


def buf8(v):
    return _sel(is_unknown8(v), X8, v)


# 4-valued: (f, i) only; 01 = X, 10 = -
def to8(v4):
    return (v4[0], v4[1], False)


def not4(v): return not8(to8(v))[:2]
def and4(*vs): return and8(*[to8(v) for v in vs])[:2]
def or4(*vs): return or8(*[to8(v) for v in vs])[:2]
def xor4(*vs): return xor8(*[to8(v) for v in vs])[:2]
def buf4(v): return buf8(to8(v))[:2]


def eqv(x, y):
    """component-wise equality of two values"""
    return And(*[iff(p, q) for p, q in zip(x, y)])


# 2-valued
def not2(v): return (Not(v[0]),)
def and2(*vs): return (And(*[v[0] for v in vs]),)
def or2(*vs): return (Or(*[v[0] for v in vs]),)
def xor2v(*vs): return (_fold(xor2, [v[0] for v in vs]),)


def code_of(v):
    """concrete: triple/pair of bools -> integer code 0..7"""
    f = bool(v[0])
    i = bool(v[1]) if len(v) > 1 else f
    a = bool(v[2]) if len(v) > 2 else False
    return int(f) | (int(i) << 1) | (int(a) << 2)


def val_of(code, m=8):
    return (bool(code & 1), bool(code & 2), bool(code & 4)) if m == 8 else (bool(code & 1), bool(code & 2))


OPS = {8: {'not': not8, 'and': and8, 'or': or8, 'xor': xor8, 'buf': buf8},
       4: {'not': not4, 'and': and4, 'or': or4, 'xor': xor4, 'buf': buf4},
       2: {'not': not2, 'and': and2, 'or': or2, 'xor': xor2v, 'buf': lambda v: v}}
