"""check <Cnn> [--tier quick|thorough] [--replay FILE]"""
import argparse
import importlib
import json
import os
import sys
import time
import traceback

ROOT = os.path.dirname(os.path.dirname(os.path.abspath(__file__)))
sys.path.insert(0, ROOT)


def main():
    ap = argparse.ArgumentParser()
    ap.add_argument('pid')
    ap.add_argument('--tier', default=os.environ.get('VERIF_TIER', 'quick'), choices=['quick', 'thorough'])
    ap.add_argument('--replay')
    a = ap.parse_args()
    seed = int(os.environ.get('VERIF_SEED', '1'))
    from vk import common
    if a.replay:
        with open(a.replay) as f:
            r = json.load(f)
        print(f'replaying {r["key"]} ({r["what"]})')
        if not r.get('runner'):
            print('no concrete input recorded for this obligation (no-failing-input-found); verifier output:')
            print(json.dumps(r.get('verifier_output'), indent=1))
            return 0
        res = common.run_runner(r['runner'], r['args'])
        print(json.dumps(common.jsonable(res), indent=1))
        if res.get('reproduced'):
            print(f'VIOLATION property={r["property"]} replay={os.path.abspath(a.replay)}')
            return 1
        print('not reproduced on the current tree')
        return 0
    t0 = time.time()
    try:
        mod = importlib.import_module(f'props.{a.pid}')
        res = mod.run(a.tier, seed)
        return common.finish(res, a.tier, seed, t0, f'./check {a.pid} --tier {a.tier}')
    except Exception:  # noqa
        traceback.print_exc()
        print(f'CHECKER-DEFECT property={a.pid} crash in the checker itself (not a violation)')
        return 3


if __name__ == '__main__':
    sys.exit(main())
