"""Shared plumbing of the property checks: results, violations, replay files, known findings, evidence, exit codes.

Exit codes: 0 held (known findings printed) / 1 VIOLATION / 2 undecided (never a VIOLATION line) / 3 checker defect.
"""
import hashlib
import importlib
import json
import os
import re
import sys
import time
import traceback

ROOT = os.path.dirname(os.path.dirname(os.path.abspath(__file__)))
# a scratch run against a copy of the repository (KYUPY_REPO, developer self-test) must not touch the real evidence
_OUT = os.environ.get('VERIF_OUT') if os.environ.get('KYUPY_REPO') else None
EVIDENCE = os.path.join(_OUT or ROOT, 'evidence')
REPLAYS = os.path.join(_OUT or ROOT, 'replays')
FINDINGS = os.path.join(ROOT, 'known_findings.json')


def sseed(obj):
    """stable seed from a structural key (independent of PYTHONHASHSEED)"""
    import zlib
    return zlib.crc32(repr(obj).encode())


class Violation:
    def __init__(self, key, what, runner=None, args=None, reproduced=None, detail=None, kind='bounded', function=None,
                 obligation=None):
        self.key, self.what, self.runner, self.args = key, what, runner, args
        self.reproduced, self.detail, self.kind, self.function, self.obligation = reproduced, detail or {}, kind, function, obligation
        self.path = None


class BoundedPart:
    """bounded stand-in: a contract evaluated at run time on the real function over a stated finite space.
    Never counted as proved."""

    def __init__(self, name, functions, rule, bound, exhaustive=False):
        self.name, self.functions, self.rule, self.bound, self.exhaustive = name, functions, rule, bound, exhaustive
        self.evaluations = 0
        self._distinct = set()
        self.samples = []
        self.violations = []
        self.notes = []

    def case(self, signature, nontrivial=True, sample=None):
        """count one evaluated case; ``signature`` identifies the case structurally (hashable)"""
        self.evaluations += 1
        if nontrivial:
            h = hashlib.sha1(repr(signature).encode()).digest()[:8]
            self._distinct.add(h)
        if sample is not None and len(self.samples) < 3:
            self.samples.append(sample)

    @property
    def distinct_nontrivial(self):
        return len(self._distinct)

    def violation(self, key, what, runner=None, args=None, detail=None, function=None):
        # keep one witness per key
        if any(v.key == key for v in self.violations):
            return
        self.violations.append(Violation(key, what, runner, args, True, detail, 'bounded', function))

    def summary(self):
        return {'name': self.name, 'functions': self.functions, 'evaluations': self.evaluations,
                'distinct_nontrivial': self.distinct_nontrivial, 'rule': self.rule, 'bound': self.bound,
                'exhaustive': self.exhaustive, 'violations': len(self.violations), 'samples': self.samples[:3],
                'notes': self.notes}


class PropertyResult:
    def __init__(self, pid, level, explanation):
        self.pid, self.level, self.explanation = pid, level, explanation
        self.report = None            # pyvc.verify.Report
        self.bounded = []
        self.assumptions = []
        self.trusted_base = []
        self.crashes = []
        self.extra = {}


def load_findings():
    if not os.path.exists(FINDINGS):
        return []
    with open(FINDINGS) as f:
        return json.load(f)['findings']


def slug(s):
    return re.sub(r'[^A-Za-z0-9_.-]+', '_', s)[:120]


def jsonable(x):
    try:
        json.dumps(x)
        return x
    except TypeError:
        if isinstance(x, dict):
            return {str(k): jsonable(v) for k, v in x.items()}
        if isinstance(x, (list, tuple, set)):
            return [jsonable(v) for v in x]
        try:
            import numpy as np
            if isinstance(x, np.ndarray):
                return x.tolist()
            if isinstance(x, np.generic):
                return x.item()
        except ImportError:
            pass
        return repr(x)


def run_runner(runner, args):
    mod, fn = runner.split(':')
    f = getattr(importlib.import_module(mod), fn)
    return f(args)


def write_replay(pid, v, solver=None):
    d = os.path.join(REPLAYS, pid)
    os.makedirs(d, exist_ok=True)
    path = os.path.join(d, slug(v.key) + '.json')
    with open(path, 'w') as f:
        json.dump(jsonable({'property': pid, 'key': v.key, 'what': v.what, 'kind': v.kind, 'function': v.function,
                            'failed_obligation': v.obligation, 'runner': v.runner, 'args': v.args,
                            'reproduced_on_real_code': v.reproduced, 'result': v.detail, 'verifier_output': solver}), f,
                  indent=1)
    v.path = path
    return path


def pyvc_violations(res):
    """refuted obligations -> Violations, counter-model replayed on the real code where the contract provides it"""
    from pyvc.discharge import model_of
    out = []
    rep = res.report
    if rep is None:
        return out
    groups = {}
    for t, c, v in rep.refuted():
        key = f'{v.obl.name}@{t.fullname}'
        groups.setdefault(key, []).append((t, c, v))
    for key, items in groups.items():
        t, c, v = items[0]
        solver = {'status': 'sat (obligation refuted)', 'backend': v.backend, 'time_s': round(v.time, 3),
                  'config': c.name, 'line': v.obl.lineno, 'refuted_on_paths': len(items)}
        viol = Violation(key, f'obligation `{v.obl.name}` of {t.fullname} (line {v.obl.lineno}, config {c.name}) refuted',
                         kind='obligation', function=t.fullname, obligation=v.obl.name)
        viol.reproduced = None
        try:
            # try the configurations in turn until one replays
            for t2, c2, v2 in items[:6]:
                if c2.replay is None:
                    continue
                ex = rep.execs[(t2.fullname, c2.name)]
                m = None
                if getattr(c2, 'small', None) is not None:
                    m = model_of(v2.obl, instantiate=bool(t2.instantiate), extra=c2.small(ex))
                if m is None:
                    m = model_of(v2.obl, instantiate=bool(t2.instantiate))
                if m is None:
                    continue
                r = c2.replay(m, v2.obl, ex)
                if r is None:
                    continue
                runner, args = r
                viol.runner, viol.args = runner, args
                result = run_runner(runner, args)
                viol.detail = result
                viol.reproduced = bool(result.get('reproduced'))
                solver['model_config'] = c2.name
                if viol.reproduced:
                    break
        except Exception as e:  # noqa
            viol.detail = {'replay_error': ''.join(traceback.format_exception_only(e)).strip()}
        viol.solver = solver
        out.append(viol)
    # undecided obligations: bounded refutation (finite expansion of the quantifiers) + replay; only a counterexample that
    # reproduces on the real code is reported, anything else stays undecided
    from pyvc.discharge import bounded_refute
    tried = set()
    for t, c, v in rep.open():
        key = f'{v.obl.name}@{t.fullname}'
        if c.finite is None or c.replay is None or key in tried or len(tried) >= 6:
            continue
        tried.add(key)
        try:
            ex = rep.execs[(t.fullname, c.name)]
            lo, hi, extra = c.finite(ex)
            m = bounded_refute(v.obl, lo, hi, extra)
            if m is None:
                continue
            r = c.replay(m, v.obl, ex)
            if r is None:
                continue
            result = run_runner(*r)
            if result.get('reproduced'):
                viol = Violation(key, f'obligation `{v.obl.name}` of {t.fullname} (line {v.obl.lineno}, config {c.name}) undecided by the solver; '
                                      f'a bounded refutation (quantifiers over [{lo},{hi}]) gave an input that fails on the real code',
                                 r[0], r[1], True, result, 'obligation', t.fullname, v.obl.name)
                viol.solver = {'status': 'unknown/timeout on the unbounded obligation; sat on its finite expansion', 'domain': [lo, hi]}
                out.append(viol)
        except Exception as e:  # noqa
            continue
    out += bmc_violations(res, out)
    return out


def bmc_violations(res, found):
    """bounded refutation by loop unrolling for configurations that have open obligations, or refuted obligations whose
    counter-model could not be replayed: only counterexamples that fail on the real code are reported"""
    from pyvc.engine import Exec, NotInSubset, ContractError
    from pyvc import source
    from pyvc.discharge import bounded_refute
    rep = res.report
    out = []
    todo = {}
    for t, c, v in rep.open():
        if getattr(c, 'bmc', None):
            todo.setdefault((t.fullname, c.name), (t, c, []))[2].append(v.obl.name)
    for viol in found:
        if viol.kind == 'obligation' and not viol.reproduced:
            for t, c, v in rep.refuted():
                if f'{v.obl.name}@{t.fullname}' == viol.key and getattr(c, 'bmc', None):
                    todo.setdefault((t.fullname, c.name), (t, c, []))[2].append(v.obl.name)
    for (tname, cname), (t, c, names) in todo.items():
        fz = getattr(c, 'fuzz', None)
        if fz is not None:
            # bounded stand-in of the same function: its contract evaluated concretely on the real function over random small inputs
            try:
                hit = fz()
            except Exception:  # noqa
                hit = None
            if hit is not None:
                runner, args, result = hit
                viol = Violation(f'contract@{t.fullname}:bounded-search', f'{t.fullname}: obligation(s) {sorted(set(names))[:3]} undecided / not replayable; the bounded search over small '
                                 f'inputs of the same function found an input violating its contract on the real code: {result.get("violated", [""])[0]}',
                                 runner, args, True, result, 'obligation', t.fullname, sorted(set(names))[0])
                viol.solver = {'status': 'solver gave no replayable counter-model; concrete bounded search used', 'open_or_unreplayed': sorted(set(names))[:6]}
                out.append(viol)
                continue
        try:
            bc = c.bmc()
            fn, sha = source.find(t.mod, t.qualname)
            ex = Exec(t.fullname, fn, source.module_namespace(t.mod), bc.contract, prims=t.prims(source.module_namespace(t.mod)) if callable(t.prims) else t.prims,
                      kinds=t.kinds)
            obls = ex.run(bc.setup(ex))
        except (NotInSubset, ContractError, Exception) as e:  # noqa
            continue
        lo, hi = c.bmc_domain
        seen = set()
        budget = time.time() + 120
        for o in obls:
            if o.expect != 'proved' or not o.name.startswith('post:') or o.name in seen or time.time() > budget:
                continue
            try:
                m = bounded_refute(o, lo, hi, timeout_s=20)
                if m is None:
                    continue
                r = bc.replay(m, o, ex)
                if r is None:
                    continue
                result = run_runner(*r)
            except Exception:  # noqa
                continue
            if result.get('reproduced'):
                seen.add(o.name)
                key = f'{o.name}@{t.fullname}'
                viol = Violation(key + ':bounded-unrolling', f'{t.fullname}: obligation(s) {sorted(set(names))[:3]} undecided / not replayable; bounded unrolling of the loop '
                                 f'found an input on which postcondition `{o.name}` fails on the real code', r[0], r[1], True, result, 'obligation', t.fullname, o.name)
                viol.solver = {'status': 'sat on the unrolled, finitely expanded obligation', 'unrolled_config': bc.name, 'open_or_unreplayed': sorted(set(names))[:6]}
                out.append(viol)
                break
    return out


def guarded_parts(res, *makers):
    """bounded parts whose *construction of the test objects* runs the code under test (Node / Line constructors): an exception there must not hide the
    verdicts of the proved part -- it is recorded as a crash of the bounded part (CHECKER-DEFECT line; exit 3 only if nothing else is reported)"""
    import traceback
    parts = []
    for mk in makers:
        try:
            parts.append(mk())
        except Exception as e:  # noqa
            tb = traceback.extract_tb(e.__traceback__)
            where = next((f'{f.filename}:{f.lineno}' for f in reversed(tb) if '/kyupy/' in f.filename), f'{tb[-1].filename}:{tb[-1].lineno}' if tb else '?')
            res.crashes.append(f'bounded part raised while building / running its cases: {e!r} at {where}')
    return parts


BASELINE = os.path.join(os.path.dirname(os.path.dirname(os.path.abspath(__file__))), 'baseline_obligations.json')


def load_baseline():
    try:
        with open(BASELINE) as f:
            return {k: set(v) for k, v in json.load(f).items()}
    except (OSError, ValueError):
        return {}


def write_baseline(pid, rep):
    """developer action (VERIF_WRITE_BASELINE=1 on the unchanged tree, then commit): the obligations discharged on every path"""
    status = {}
    for t, c, v in rep.verdicts:
        if v.obl.expect != 'proved':
            continue
        key = f'{t.fullname}|{c.name}|{v.obl.name}'
        status[key] = status.get(key, True) and v.status == 'proved'
    try:
        with open(BASELINE) as f:
            data = json.load(f)
    except (OSError, ValueError):
        data = {}
    data[pid] = sorted(k for k, ok in status.items() if ok)
    with open(BASELINE, 'w') as f:
        json.dump(data, f, indent=0, sort_keys=True)


def finish(res, tier, seed, t0, checker_cmd):
    """print lines, write replay files + evidence, return exit code"""
    pid = res.pid
    findings = [f for f in load_findings() if f['property'] == pid]
    known = {f['key']: f for f in findings if f['status'] == 'known'}
    viols = []
    pv = pyvc_violations(res)
    viols += pv
    for b in res.bounded:
        viols += b.violations
    # a refuted obligation whose counter-model did not replay: if the bounded stand-in of the same function found a
    # concrete failing input that one is reported, the obligation keeps its own line with no-failing-input-found
    exit_code = 0
    lines = []
    reported = 0
    known_hit = set()
    for v in viols:
        if v.key in known:
            known_hit.add(v.key)
            continue
        path = write_replay(pid, v, getattr(v, 'solver', None))
        suffix = ''
        if v.kind == 'obligation' and not v.reproduced:
            suffix = ' no-failing-input-found'
        lines.append(f'VIOLATION property={pid} replay={path}{suffix}')
        print(f'  violated: {v.what}')
        reported += 1
        exit_code = 1
    for k in sorted(known_hit):
        print(f'KNOWN-FINDING: property={pid} {known[k]["what"]} [{k}]')
    rep = res.report
    undecided = []
    crashes = list(res.crashes)
    if rep is not None:
        for u in rep.undecided:
            msg = f'{u.target.fullname}[{u.config.name if u.config else "-"}]: {u.reason}'
            (crashes if 'CHECKER-CRASH' in u.reason else undecided).append(msg)
        # An obligation that was discharged on the unchanged tree (committed baseline) and can no longer be discharged is a failed named obligation:
        # it is reported as the violation, without a failing input.  It is first re-tried alone with a long budget so that a busy machine cannot cause it.
        base = load_baseline().get(pid, set())
        regress = {}
        for t, c, v in rep.open():
            key = f'{t.fullname}|{c.name}|{v.obl.name}'
            if key in base and key not in regress:
                regress[key] = (t, c, v)
        still = {}
        if regress and len(regress) <= 24:
            from pyvc.discharge import discharge
            items = list(regress.items())
            vs = discharge([v.obl for _, (t, c, v) in items], timeout_s=90 if tier == 'quick' else 240, instantiate=False, procs=min(8, len(items)))
            vs2 = discharge([v.obl for _, (t, c, v) in items], timeout_s=90 if tier == 'quick' else 240, instantiate='always', procs=min(8, len(items)))
            for (key, (t, c, v)), a, b_ in zip(items, vs, vs2):
                if a.status != 'proved' and b_.status != 'proved':
                    still[key] = (t, c, v, a.status if a.status != 'undecided' else b_.status, a.reason or b_.reason)
        elif regress:
            still = {k: (t, c, v, 'undecided', v.reason) for k, (t, c, v) in regress.items()}
        seen_regress = set()
        for key, (t, c, v, status, reason) in still.items():
            vk_ = f'{v.obl.name}@{t.fullname}'
            if any(x.key == vk_ for x in viols) or vk_ in seen_regress:
                continue
            seen_regress.add(vk_)
            viol = Violation(vk_, f'obligation `{v.obl.name}` of {t.fullname} (line {v.obl.lineno}, config {c.name}) was discharged on the unchanged tree and cannot be '
                                   f'discharged any more ({"refuted on retry" if status == "refuted" else "solver: " + (reason or "unknown / timeout")})',
                             kind='obligation', function=t.fullname, obligation=v.obl.name)
            viol.reproduced = None
            viol.solver = {'status': status, 'reason': reason or 'unknown / timeout', 'config': c.name, 'line': v.obl.lineno,
                           'rule': 'named obligation of the baseline (baseline_obligations.json) no longer discharged, re-tried alone with a long budget'}
            if vk_ in known:
                known_hit.add(vk_)
                continue
            path = write_replay(pid, viol, viol.solver)
            lines.append(f'VIOLATION property={pid} replay={path} no-failing-input-found')
            print(f'  violated: {viol.what}')
            reported += 1
            exit_code = 1
        for t, c, v in rep.open():
            if f'{t.fullname}|{c.name}|{v.obl.name}' in still:
                continue
            undecided.append(f'{t.fullname}[{c.name}] obligation `{v.obl.name}` line {v.obl.lineno}: {v.reason or "unknown"}')
        for t, c, v in rep.mustfail_broken():
            crashes.append(f'vacuity guard: must-fail obligation `{v.obl.name}` of {t.fullname}[{c.name}] came back {v.status}')
        for name, f in rep.functions.items():
            if f['obligations'] == 0 and not any(u.target.fullname == name for u in rep.undecided):
                crashes.append(f'vacuity guard: zero obligations generated for {name}')
    if rep is not None and os.environ.get('VERIF_WRITE_BASELINE') == '1' and not os.environ.get('KYUPY_REPO'):
        write_baseline(pid, rep)
    for u in undecided[:40]:
        print(f'UNDECIDED property={pid} {u}')
    for c in crashes[:40]:
        print(f'CHECKER-DEFECT property={pid} {c}')
    for l in lines:
        print(l)
    if exit_code == 0 and crashes:
        exit_code = 3
    elif exit_code == 0 and undecided:
        exit_code = 2

    # ---------------------------------------------------------------- evidence
    cov = {'explanation': res.explanation, 'checker_cmd': checker_cmd}
    if rep is not None:
        cov.update({
            'obligations': rep.obligations, 'discharged': rep.discharged, 'by_backend': rep.by_backend(),
            'solver_time_s': round(rep.solver_time(), 2), 'vc_generation_s': round(rep.gen_time, 2),
            'solve_wall_s': round(rep.solve_wall, 2),
            'functions_under_contract': [{'function': k, **v} for k, v in sorted(rep.functions.items())],
            'refuted_obligations': len(rep.refuted()), 'undecided_obligations': len(rep.open()),
            'mustfail_obligations_refuted_as_expected': len({(t.fullname, c.name, v.obl.name) for t, c, v in rep.verdicts if v.obl.expect == 'refuted' and v.status == 'refuted'}),
            'assumed_primitive_models_used': sorted(rep.assumed),
        })
    cov['undecided'] = undecided[:100]
    cov['trusted_base'] = res.trusted_base
    ev = sum(b.evaluations for b in res.bounded)
    dn = sum(b.distinct_nontrivial for b in res.bounded)
    samples = []
    for b in res.bounded:
        samples += [{'part': b.name, 'case': s} for s in b.samples[:2]]
    if rep is not None:
        for t, c, v in rep.verdicts[:3]:
            samples.append({'obligation': v.obl.name, 'function': t.fullname, 'config': c.name, 'status': v.status})
    cov.update({'evaluations': ev, 'distinct_nontrivial': dn,
                'rule': ' | '.join(f'[{b.name}] {b.rule}' for b in res.bounded) or 'n/a (no bounded part)',
                'bounded_parts': [b.summary() for b in res.bounded],
                'bounded_parts_are_bounded_evidence_only': True,
                'samples': jsonable(samples) or ['(none)'],
                'exhaustive': bool(res.bounded) and all(b.exhaustive for b in res.bounded) if rep is None else False,
                'known_findings_matched': sorted(known_hit)})
    cov.update(jsonable(res.extra))
    evd = {'property_id': pid, 'tier': tier, 'seed': seed, 'level': res.level, 'coverage': cov,
           'assumptions': res.assumptions, 'wall_s': round(time.time() - t0, 2), 'violations': reported}
    os.makedirs(EVIDENCE, exist_ok=True)
    with open(os.path.join(EVIDENCE, f'{pid}.json'), 'w') as f:
        json.dump(jsonable(evd), f, indent=1)
    print(f'{pid}: exit={exit_code} obligations={cov.get("obligations", 0)} discharged={cov.get("discharged", 0)} '
          f'bounded_evaluations={ev} violations={reported} known={len(known_hit)} wall={evd["wall_s"]}s')
    return exit_code
