"""C16 bounded stand-in: the callback contract of LogicSim.c_prop evaluated on real runs -- called exactly once per
evaluated line in evaluation order with (Line, writable view of c); identity callback changes nothing; overwriting a line
equals simulating the circuit with that line driven by the overwritten values (oracle: spec.evaln with override)."""
import random

import numpy as np

from vk.common import sseed,  BoundedPart
from spec import evaln
from . import gen_circuits as G, logic_drv as D


BENCH_TEXTS = ['input(a,b) output(o,p) g1=AND(a,b) g2=OR(a,b) o=XOR(g1,g2) p=NAND(a,g1)',
               'input(a,b,c) output(o) g1=NOR(a,b) g2=AND(a,c) g3=OR(a,b,c) o=XOR(g1,g2,g3)',
               'input(a) output(o,p,q) o=NOT(a) p=BUF(a) q=AND(a,o)',
               'input(a,b) output(o) q=DFF(g) g=XOR(a,q) o=AND(q,b,a)']


def bench_circuits():
    """bench-style circuits: every port is a fork node, input ports fan out to several readers"""
    from kyupy import bench
    for k, t in enumerate(BENCH_TEXTS):
        yield bench.parse(t), ('bench-style', k)


def run_case(args):
    c = G.build(args['desc'])
    r = check(c, args['m'], np.array(args['stim'], dtype=np.int64), args.get('line'), args.get('vals'), args.get('opts') or {}, args.get('cb_style', 'plain'))
    return {'reproduced': bool(r), 'violated': r[:4]}


def check(c, m, stim, line=None, vals=None, opts=None, cb_style='plain'):
    opts = opts or {}
    out = []
    n = stim.shape[1]
    calls = []
    try:
        sim = D.simulate(c, m, stim, opts, calls=calls, cb_style=cb_style)
    except Exception as e:  # noqa
        return [('exception', f'c_prop(inject_cb=identity) raised {e!r}')]
    ops = np.asarray(sim.ops)
    want_lines = [int(op[1]) for op in ops if int(op[1]) < len(c.lines)]
    got_lines = [getattr(l, 'index', None) for l, _ in calls]
    if any(not hasattr(l, 'driver') for l, _ in calls):
        out.append(('signal-identity', f'callback received {type(calls[0][0]).__name__} instead of a Line'))
    elif got_lines != want_lines:
        out.append(('once-in-order', f'callback lines {got_lines[:8]}.. expected evaluation order {want_lines[:8]}.. ({len(got_lines)} vs {len(want_lines)} calls)'))
    for l, v in calls[:50]:
        if not isinstance(v, np.ndarray) or not np.shares_memory(v, sim.c) or not v.flags.writeable:
            out.append(('writable-view', 'values argument is not a writable view of the signal memory'))
            break
        if hasattr(l, 'index') and v.shape != sim.c[sim.c_locs[l.index]].shape:
            out.append(('writable-view', f'values has shape {v.shape}'))
            break
    if out:
        return out
    # identity callback: same results as without
    plain = D.simulate(c, m, stim, opts)
    if not np.array_equal(np.asarray(plain.s[1]), np.asarray(sim.s[1])):
        out.append(('identity', f'results with an identity callback ({cb_style}) differ from results without callback'))
    if line is not None and line in want_lines:
        mism = D.compare(c, m, stim, opts, inject={line: vals}, cb_style=cb_style)
        if mism:
            out.append(('override', f'overwriting line {line}: {mism[0]}'))
    return out


def part(tier, seed, ms=(2, 4, 8)):
    b = BoundedPart('C16-callback-behaviour', ['kyupy.logic_sim.LogicSim.c_prop'],
                    'shared circuit space x logics 2/4/8: identity callback (call log: lines in evaluation order, Line objects, writable views sharing memory with c) '
                    'and one overwritten line per case (every op output line in turn for small circuits, random for larger) with random values; also with strip_forks=True, with callbacks that return a status / count and with a callable that evaluates to false, on bench-style circuits (fork ports with several readers, every line) and one random line of the other circuits; oracle = spec.evaln with the line overridden; '
                    'distinct = (circuit, m, line)', f'exhaustive-small family + {60 if tier == "quick" else 1500} seeded circuits')
    cases = list(G.small_circuits())
    nrand = 60 if tier == 'quick' else 1500
    for k in range(nrand):
        rng = G.rng_for(seed + 17, k)
        cases.append((G.random_circuit(rng, n_gates=rng.randrange(1, 12), n_in=rng.randrange(1, 4), n_ff=rng.randrange(0, 2), p_unconn=0.05), ('random', seed + 17, k)))
    cases += list(bench_circuits())
    variants = [({}, 'plain'), ({'strip_forks': True}, 'plain'), ({}, 'returns-false'), ({}, 'falsy-callable'), ({'strip_forks': True}, 'returns-count')]
    for c, sig in cases:
        if D.has_arity_gap(c):
            continue        # arity-by-name vs arity-by-highest-pin is C01/C02's finding; keep it out of the callback oracle
        desc = G.describe(c)
        rng = random.Random(sseed(str(sig)) & 0xfffff)
        # other simulator options / callback flavours (a callback that returns a status, a callable that evaluates to false): every line of
        # the bench-style circuits, one random line otherwise
        for m in ms:
            for opts, style in variants[1:]:
                if sig[0] not in ('bench-style', 'random', 'chain', 'special'):
                    continue
                n = rng.choice([1, 3, 8, 9])
                stim = D.stimulus(rng, c, m, n)
                lines = list(range(len(c.lines)))
                for line in (lines if sig[0] == 'bench-style' else rng.sample(lines, 1) if lines else []):
                    alphabet = {2: [0, 3], 4: [0, 1, 2, 3], 8: list(range(8))}[m]
                    vals = [rng.choice(alphabet) for _ in range(n)]
                    b.case((desc['nodes'], desc['lines'], m, line, tuple(sorted(opts.items())), style), True, sample={'circuit': str(sig), 'm': m, 'line': line, 'options': opts, 'callback': style})
                    for clause, msg in check(c, m, stim, line, vals, opts, style):
                        b.violation(f'bounded:C16:{clause}:m={m}', f'm={m} {sig} options {opts} callback {style}: {msg}', 'bounded.inject_drv:run_case',
                                    {'desc': desc, 'm': m, 'stim': stim.tolist(), 'line': line, 'vals': vals, 'opts': opts, 'cb_style': style}, function='kyupy.logic_sim.LogicSim.c_prop')
        for m in ms:
            n = rng.choice([1, 3, 8, 9])
            stim = D.stimulus(rng, c, m, n)
            lines = list(range(len(c.lines)))
            chosen = lines if len(lines) <= 4 else rng.sample(lines, 2)
            for line in chosen or [None]:
                alphabet = {2: [0, 3], 4: [0, 1, 2, 3], 8: list(range(8))}[m]
                vals = [rng.choice(alphabet) for _ in range(n)] if line is not None else None
                b.case((desc['nodes'], desc['lines'], m, line), line is not None, sample={'circuit': str(sig), 'm': m, 'line': line, 'values': vals})
                for clause, msg in check(c, m, stim, line, vals):
                    b.violation(f'bounded:C16:{clause}:m={m}', f'm={m} {sig}: {msg}', 'bounded.inject_drv:run_case',
                                {'desc': desc, 'm': m, 'stim': stim.tolist(), 'line': line, 'vals': vals}, function='kyupy.logic_sim.LogicSim.c_prop')
    return b
