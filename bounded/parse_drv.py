"""C11 bounded stand-in: round-trip contract of the Verilog and bench parsers with a spec-side printer.
requires text = print(N, style); ensures port order, function (all input/state valuations, by enumeration), branch forks only
add forks, and the bench and Verilog renderings of one netlist are equivalent."""
import itertools
import random

from vk.common import sseed,  BoundedPart
from spec import evaln, algebra as A
from . import netlist_gen as NG, graph_drv

LIBS = ('NANGATE', 'NANGATE_ZN', 'GSC180', 'SAED32', 'SAED90')


def lib_of(name):
    from kyupy import techlib
    return getattr(techlib, name)


def observed_concrete(c, lib, assign_by_name):
    e = graph_drv.HierEval(c, {k: (bool(v),) for k, v in assign_by_name.items()}, lib)
    return {k: bool(v[0]) for k, v in e.observed().items()}


def check_netlist(N, text, lib, branchforks, resolve):
    from kyupy import verilog
    out = []
    try:
        c = verilog.parse(text, tlib=lib, branchforks=branchforks)
    except Exception as e:  # noqa
        return [('parse:exception', repr(e))], None
    names = [n.name if n is not None else None for n in c.io_nodes]
    if names != N.io_order():
        out.append(('port-order', f'io_nodes {names} != declared order {N.io_order()}'))
        return out, c
    bad = graph_drv.wf(c)
    if bad:
        out.append(('wf', bad[0]))
    if resolve:
        try:
            c.resolve_tlib_cells(lib)
        except Exception as e:  # noqa
            out.append(('resolve:exception', repr(e)))
            return out, c
    ins = N.inputs()
    ffs = [i[0] for i in N.state_insts()]
    nvar = len(ins) + len(ffs)
    vals = itertools.product([False, True], repeat=nvar) if nvar <= 10 else \
        [tuple(random.Random(k).random() < 0.5 for _ in range(nvar)) for k in range(512)]
    for v in vals:
        iv = dict(zip(ins, v[:len(ins)]))
        sv = dict(zip(ffs, v[len(ins):]))
        want_o, want_n = N.evaluate(iv, sv)
        try:
            got = observed_concrete(c, graph_drv.EmptyLib if resolve else lib, {**iv, **sv})
        except Exception as e:  # noqa
            out.append(('evaluate:exception', repr(e)))
            break
        for b, w in want_o.items():
            if got.get(b) != w:
                out.append(('function', f'output {b} = {got.get(b)} but the netlist gives {w} for inputs {iv} state {sv}'))
                return out, c
        for f, w in want_n.items():
            if got.get('state:' + f) != w:
                out.append(('function', f'flip-flop {f} captures {got.get("state:" + f)} but the netlist gives {w} for inputs {iv} state {sv}'))
                return out, c
    return out, c


def run_verilog(args):
    N = build_from_args(args)
    lib = lib_of(args['lib'])
    v, _ = check_netlist(N, args['text'], lib, args['branchforks'], args['resolve'])
    return {'reproduced': bool(v), 'violated': v}


def build_from_args(args):
    N = NG.Netlist(args['name'], args['lib'])
    N.ports = [tuple(p[:2]) + (tuple(p[2]) if p[2] else None,) for p in args['ports']]
    N.insts = [(i, ct, dict(pins)) for i, ct, pins in args['insts']]
    N.assigns = [tuple(a) for a in args['assigns']]
    N.wires = list(args['wires'])
    N.cells = NG.family_cells(lib_of(args['lib']), args['lib'], random.Random(0))
    return N


def to_args(N, text, branchforks, resolve):
    return {'name': N.name, 'lib': N.libname, 'ports': [list(p) for p in N.ports], 'insts': [[i, ct, pins] for i, ct, pins in N.insts],
            'assigns': [list(a) for a in N.assigns], 'wires': N.wires, 'text': text, 'branchforks': branchforks, 'resolve': resolve}


def verilog_part(tier, seed):
    b = BoundedPart('C11-verilog-round-trip', ['kyupy.verilog.parse', 'kyupy.verilog.VerilogTransformer.*', 'kyupy.circuit.Circuit.resolve_tlib_cells'],
                    'seeded flat netlists (2-3 input ports incl. ascending / descending buses, 1-8 instances of family cells and flip-flops of each of the five libraries, '
                    'continuous assigns incl. concatenations, bit selects, sized constants, unconnected pins, escaped identifiers that look like bit selects) x renderings '
                    '(declaration vs port-list order, grouped wire declarations, shuffled statements, comments / attributes, named pins in any order) x {branchforks} x '
                    '{before, after resolve_tlib_cells}; ensures: io_nodes = port-list order with bus bits in declared range order; every output and flip-flop input equals the '
                    'netlist for ALL input/state valuations (enumerated, <= 2^10); branch forks only insert forks; distinct = (netlist, rendering options)',
                    f'{30 if tier == "quick" else 400} netlists per library x 2 renderings')
    nper = 30 if tier == 'quick' else 400
    for libname in LIBS:
        lib = lib_of(libname)
        for k in range(nper):
            rng = random.Random(sseed((seed, libname, k)) & 0xfffffff)
            N = NG.random_netlist(rng, lib, libname, n_inst=rng.randrange(1, 9))
            for rep in range(2):
                text = NG.render_verilog(N, rng)
                bf = bool(rep)
                resolve = rng.random() < 0.5
                b.case((libname, k, rep), len(N.insts) > 0, sample={'lib': libname, 'netlist': k, 'branchforks': bf, 'resolve': resolve, 'text': text[:400]})
                viol, c = check_netlist(N, text, lib, bf, resolve)
                for clause, msg in viol:
                    b.violation(f'bounded:C11:verilog:{clause}', f'{libname} netlist {k} (branchforks={bf}, resolved={resolve}): {msg}', 'bounded.parse_drv:run_verilog',
                                to_args(N, text, bf, resolve), function='kyupy.verilog.parse')
                if rep == 1 and not viol and not resolve:
                    # branch forks only insert forks
                    from kyupy import verilog
                    c0 = verilog.parse(text, tlib=lib, branchforks=False)
                    c1 = verilog.parse(text, tlib=lib, branchforks=True)
                    k0 = {(n.name, n.kind) for n in c0.nodes}
                    extra = [n for n in c1.nodes if (n.name, n.kind) not in k0]
                    missing = k0 - {(n.name, n.kind) for n in c1.nodes}
                    if missing or any(n.kind != '__fork__' or len(n.outs) != 1 or len(n.ins) != 1 for n in extra):
                        b.violation('bounded:C11:verilog:branchforks-only-insert-forks', f'{libname} netlist {k}: branchforks changes more than inserting 1:1 forks '
                                    f'(missing {sorted(missing)[:3]}, extra {[(n.name, n.kind) for n in extra if n.kind != "__fork__"][:3]})',
                                    'bounded.parse_drv:run_verilog', to_args(N, text, True, False), function='kyupy.verilog.parse')
    return b


# ------------------------------------------------------------------------------------------------------------ bench
GEN = {'and': 'AND', 'or': 'OR', 'nand': 'NAND', 'nor': 'NOR', 'xor': 'XOR', 'xnor': 'XNOR', 'not': 'INV1', 'buf': 'BUF1'}
NANGATE_OF = {('and', 2): 'AND2_X1', ('and', 3): 'AND3_X1', ('and', 4): 'AND4_X1', ('or', 2): 'OR2_X1', ('or', 3): 'OR3_X1', ('or', 4): 'OR4_X1',
              ('nand', 2): 'NAND2_X1', ('nand', 3): 'NAND3_X1', ('nand', 4): 'NAND4_X1', ('nor', 2): 'NOR2_X1', ('nor', 3): 'NOR3_X1', ('nor', 4): 'NOR4_X1',
              ('xor', 2): 'XOR2_X1', ('xnor', 2): 'XNOR2_X1', ('not', 1): 'INV_X1', ('buf', 1): 'BUF_X1', ('dff', 1): 'DFF_X1'}


def simple_netlist(rng, n_gates):
    """(inputs, outputs, gates) with gates = [(out signal, kind, [in signals])], kinds generic"""
    ins = [f'i{k}' for k in range(rng.randrange(2, 5))]
    sigs = list(ins)
    gates = []
    for g in range(n_gates):
        r = rng.random()
        if r < 0.15:
            kind, ar = 'dff', 1
        else:
            kind = rng.choice(['and', 'or', 'nand', 'nor', 'xor', 'xnor', 'not', 'buf'])
            ar = 1 if kind in ('not', 'buf') else (2 if kind in ('xor', 'xnor') else rng.randrange(2, 5))
        o = f's{g}'
        gates.append((o, kind, [rng.choice(sigs) for _ in range(ar)]))
        sigs.append(o)
    outs = rng.sample([g[0] for g in gates], min(len(gates), rng.randrange(1, 4)))
    return ins, outs, gates


def eval_simple(ins, outs, gates, iv, sv, cut_outputs=False):
    """cut_outputs: alternative reading used only to classify a mismatch as the known finding 'an OUTPUT signal that is
    also read inside the netlist is treated as a stimulus position (reads 0) by the simulators'"""
    from spec import gates as SG
    val = dict(iv)
    if cut_outputs:
        readers = {x for o, k, a in gates for x in a}

        class Cut(dict):
            def __getitem__(self, k):
                if k in outs and k in readers and self.get('__reading__'):
                    return False
                return dict.__getitem__(self, k)
        val = Cut(val)
    for o, kind, a in gates:
        if kind == 'dff':
            val[o] = sv[o]
    for o, kind, a in gates:
        if kind == 'dff':
            continue
        if cut_outputs:
            dict.__setitem__(val, '__reading__', True)
        xs = [(val[x],) for x in a] + [(False,)] * (4 - len(a))
        if cut_outputs:
            dict.__setitem__(val, '__reading__', False)
        prim = GEN[kind] if GEN[kind] in SG.PRIMS else f'{GEN[kind]}{len(a)}'
        val[o] = bool(SG.apply(prim, 2, xs)[0])
    if cut_outputs:
        dict.__setitem__(val, '__reading__', True)
    nxt = {o: val[a[0]] for o, kind, a in gates if kind == 'dff'}
    if cut_outputs:
        dict.__setitem__(val, '__reading__', False)
    return {o: val[o] for o in outs}, nxt


def topo(gates, ins):
    """order gates so that combinational inputs are defined (dff outputs count as defined)"""
    done = set(ins) | {o for o, k, a in gates if k == 'dff'}
    rest, out = list(gates), []
    while rest:
        for g in rest:
            if g[1] == 'dff' or all(x in done for x in g[2]):
                out.append(g)
                done.add(g[0])
                rest.remove(g)
                break
        else:
            return None
    return out


def bench_text(ins, outs, gates, rng, order=None):
    """order (out): the port names in declaration order -- INPUT and OUTPUT statements may come in any order and may list several names"""
    decl = [('in', x) for x in ins] + [('out', x) for x in outs]
    if rng.random() < 0.6:
        rng.shuffle(decl)
    lines = []
    k = 0
    while k < len(decl):
        grp = [decl[k]]
        while k + len(grp) < len(decl) and decl[k + len(grp)][0] == grp[0][0] and rng.random() < 0.3:
            grp.append(decl[k + len(grp)])
        kw = ('INPUT' if rng.random() < 0.5 else 'input') if grp[0][0] == 'in' else ('OUTPUT' if rng.random() < 0.7 else 'output')
        lines.append(f'{kw}({", ".join(x for _, x in grp)})')
        k += len(grp)
    if order is not None:
        order[:] = [x for _, x in decl]
    body = [f'{o} = {kind.upper() if rng.random() < 0.5 else kind}({", ".join(a)})' + (' # c' if rng.random() < 0.2 else '') for o, kind, a in gates]
    rng.shuffle(body)
    return '# bench\n' + '\n'.join(lines + body) + '\n'


def verilog_text(ins, outs, gates):
    from kyupy import techlib
    lib = techlib.NANGATE
    decl = [f'input {x};' for x in ins] + [f'output {x};' for x in outs] + [f'wire {o};' for o, k, a in gates if o not in outs]
    decl.append('input clk;')
    body = []
    for j, (o, kind, a) in enumerate(gates):
        ct = NANGATE_OF[(kind, len(a))]
        impl, pins = lib.cells[ct]
        ipins = [p for p, (i, isout) in sorted(pins.items(), key=lambda kv: kv[1][0]) if not isout]
        opins = [p for p, (i, isout) in sorted(pins.items(), key=lambda kv: kv[1][0]) if isout]
        conn = [f'.{p}({s})' for p, s in zip(ipins, a)]
        if kind == 'dff':
            conn.append('.CK(clk)')
        conn.append(f'.{opins[0]}({o})')
        body.append(f'{ct} {o}_g ({", ".join(conn)});')
    return f'module t ({", ".join(ins + outs + ["clk"])});\n' + '\n'.join(decl + body) + '\nendmodule\n'


def run_bench(args):
    v = check_bench(args['ins'], args['outs'], [tuple(g) for g in args['gates']], args['btext'], args['vtext'], args.get('order'))
    return {'reproduced': bool(v), 'violated': v}


def check_bench(ins, outs, gates, btext, vtext, order=None):
    from kyupy import bench, verilog, techlib
    out = []
    try:
        cb = bench.parse(btext)
    except Exception as e:  # noqa
        return [('bench:parse:exception', repr(e))]
    names = [n.name for n in cb.io_nodes]
    if names != (order or ins + outs):
        out.append(('bench:port-order', f'{names} != declaration order {order or ins + outs}'))
        return out
    try:
        cv = verilog.parse(vtext, tlib=techlib.NANGATE)
        cv.resolve_tlib_cells(techlib.NANGATE)
    except Exception as e:  # noqa
        return [('verilog:parse:exception', repr(e))]
    ffs = [o for o, k, a in gates if k == 'dff']
    nvar = len(ins) + len(ffs)
    readers = {x for o, k, a in gates for x in a}
    cut_case = any(o in readers for o in outs)
    if cut_case:
        # known finding class: judge the bench circuit against the alternative reading so that other defects still show
        for v in itertools.product([False, True], repeat=nvar):
            iv, sv = dict(zip(ins, v)), dict(zip(ffs, v[len(ins):]))
            wo, wn = eval_simple(ins, outs, gates, iv, sv)
            gb = observed_concrete(cb, graph_drv.EmptyLib, {**iv, **{'state:' + f: x for f, x in sv.items()}, **sv})
            if any(gb.get(o) != w for o, w in wo.items()) or any(gb.get('state:' + f) != w for f, w in wn.items()):
                ao, an = eval_simple(ins, outs, gates, iv, sv, cut_outputs=True)
                if all(gb.get(o) == w for o, w in ao.items()) and all(gb.get('state:' + f) == w for f, w in an.items()):
                    return [('bench:function:output-signal-read-inside-the-netlist', f'an OUTPUT signal that also feeds gates is cut at the port: for {iv} {sv} the circuit observes '
                             f'{ {k: gb.get(k) for k in wo} } but the netlist gives {wo}')]
                return [('bench:function', f'bench circuit disagrees with the netlist for {iv} {sv}')]
        return out
    for v in itertools.product([False, True], repeat=nvar):
        iv, sv = dict(zip(ins, v)), dict(zip(ffs, v[len(ins):]))
        wo, wn = eval_simple(ins, outs, gates, iv, sv)
        gb = observed_concrete(cb, graph_drv.EmptyLib, {**iv, **sv})
        gv = observed_concrete(cv, graph_drv.EmptyLib, {**iv, **{f + '_g': x for f, x in sv.items()}})
        for o, w in wo.items():
            if gb.get(o) != w:
                out.append(('bench:function', f'output {o} = {gb.get(o)}, netlist gives {w} for {iv} {sv}'))
                return out
            if gv.get(o) != w:
                out.append(('verilog-vs-bench:function', f'verilog rendering: output {o} = {gv.get(o)}, netlist gives {w}'))
                return out
        for f, w in wn.items():
            if gb.get('state:' + f) != w:
                out.append(('bench:function', f'flip-flop {f} captures {gb.get("state:" + f)}, netlist gives {w} for {iv} {sv}'))
                return out
            if gv.get('state:' + f + '_g') != w:
                out.append(('verilog-vs-bench:function', f'verilog rendering: flip-flop {f} captures {gv.get(f + "_g")}, netlist gives {w}'))
                return out
    return out


def bench_part(tier, seed):
    b = BoundedPart('C11-bench-round-trip-and-cross-format', ['kyupy.bench.parse', 'kyupy.bench.BenchTransformer.assignment', 'kyupy.verilog.parse'],
                    'seeded generic gate netlists (and/or/nand/nor of arity 2-4, xor/xnor 2, not, buf, dff; reconvergence; shuffled statements; comments; upper/lower case '
                    'keywords) printed as bench text and as NANGATE Verilog: port order, and for all input/state valuations the parsed bench circuit and the parsed+resolved '
                    'Verilog circuit both equal the netlist (hence each other); distinct = netlist', f'{80 if tier == "quick" else 1500} netlists, <= 8 gates')
    for k in range(80 if tier == 'quick' else 1500):
        rng = random.Random(sseed((seed, 'bench', k)) & 0xfffffff)
        ins, outs, gates = simple_netlist(rng, rng.randrange(1, 9))
        g2 = topo(gates, ins)
        if g2 is None:
            continue
        gates = g2
        order = []
        bt, vt = bench_text(ins, outs, gates, rng, order), verilog_text(ins, outs, gates)
        b.case((tuple(ins), tuple(outs), tuple((o, kd, tuple(a)) for o, kd, a in gates)), True, sample={'bench': bt[:300]})
        for clause, msg in check_bench(ins, outs, gates, bt, vt, order):
            b.violation(f'bounded:C11:{clause}', f'netlist {k}: {msg}', 'bounded.parse_drv:run_bench',
                        {'ins': ins, 'outs': outs, 'gates': [list(g) for g in gates], 'btext': bt, 'vtext': vt, 'order': order}, function='kyupy.bench.parse')
    return b
