"""Bounded stand-in for the SimOps.__init__ clauses of C08 (memory map) and C07 (level schedule): MapValid/SchedValid
(bounded.map_drv) on real SimOps instances over the shared circuit space x capacity vectors x {c_reuse} x {strip_forks}."""
import random

import numpy as np

from vk.common import sseed,  BoundedPart
from . import gen_circuits as G, logic_drv, map_drv

OPTS = [dict(c_reuse=r, strip_forks=s) for r in (False, True) for s in (False, True)]


def build_sim(c, opts, caps, caps_min):
    from kyupy.sim import SimOps
    return SimOps(c, c_caps=caps, c_caps_min=caps_min, **opts)


def run_case(args):
    c = G.build(args['desc'])
    try:
        sim = build_sim(c, args['opts'], args['caps'], args['caps_min'])
    except Exception as e:  # noqa
        return {'reproduced': True, 'observed': repr(e)}
    caps = args['caps'] if not isinstance(args['caps'], int) else [args['caps']] * (len(c.lines) + 3)
    v = map_drv.check_map(sim, c, args['opts']['strip_forks'], args['opts']['c_reuse'], caps, args['caps_min'])
    v += map_drv.check_sched(sim, c, args['opts']['strip_forks'])
    v += map_drv.check_phase_requires(sim, c, args['opts']['strip_forks'])
    return {'reproduced': bool(v), 'violated': v[:5]}


def part(tier, seed, which=('map', 'sched'), pid='C08'):
    b = BoundedPart(f'{pid}-SimOps-map-and-schedule', ['kyupy.sim.SimOps.__init__'],
                    'shared circuit space (exhaustive 1-/2-gate family + seeded random circuits incl. dangling gate outputs, unconnected pins, fork chains, DFF Q/QN, latches) '
                    'x {c_reuse} x {strip_forks} x capacity vectors (uniform 1, uniform 8, random per-line multiples of 4 with c_caps_min 4); MapValid by token simulation '
                    '(every operand region still holds the value of its producer when read; captured and input slots intact; aliases exact; capacities; c_len), SchedValid '
                    '(level bounds, operands from earlier levels, per-level write/write and write/read disjointness); distinct = (circuit, options, capacities)',
                    f'exhaustive-small family + {120 if tier == "quick" else 2500} seeded circuits x 4 option sets')
    import itertools
    wide = [(G.wide_circuit(150, 2), ('wide', 150, 2)), (G.wide_circuit(40, 4), ('wide', 40, 4))]
    for c, sig in itertools.chain(wide, logic_drv.circuit_cases(tier, seed)):
        desc = G.describe(c)
        rng = random.Random(sseed(str(sig)) & 0xfffff)
        capsets = [(1, 1), (8, 4)]
        capsets.append(([4 * rng.randrange(1, 4) for _ in range(len(c.lines) + 3)], 4))
        for opts in OPTS:
            for caps, cmin in (capsets if tier == 'thorough' else [capsets[rng.randrange(3)]]):
                args = {'desc': desc, 'opts': opts, 'caps': caps, 'caps_min': cmin}
                b.case((desc['nodes'], desc['lines'], tuple(sorted(opts.items())), str(caps)), len(c.lines) > 0,
                       sample={'circuit': str(sig), 'options': opts, 'caps': caps if isinstance(caps, int) else 'per-line'})
                try:
                    sim = build_sim(c, opts, caps, cmin)
                except Exception as e:  # noqa
                    b.violation(f'bounded:{pid}:SimOps:exception:' + ','.join(k for k, v in opts.items() if v), f'SimOps({opts}) on {sig} raised {e!r}',
                                'bounded.simops_drv:run_case', args, function='kyupy.sim.SimOps.__init__')
                    continue
                capl = caps if not isinstance(caps, int) else [caps] * (len(c.lines) + 3)
                v = []
                if 'map' in which:
                    v += map_drv.check_map(sim, c, opts['strip_forks'], opts['c_reuse'], capl, cmin)
                if 'sched' in which:
                    v += map_drv.check_sched(sim, c, opts['strip_forks'])
                if 'map' in which:
                    v += map_drv.check_live_hypotheses(sim, c, opts['strip_forks'])
                v += map_drv.check_phase_requires(sim, c, opts['strip_forks'])
                for clause, msg in v:
                    b.violation(f'bounded:{pid}:{clause}', f'{clause} on {sig} {opts}: {msg}', 'bounded.simops_drv:run_case', args,
                                function='kyupy.sim.SimOps.__init__')
    return b
