"""C18 bounded stand-in: round-trip contract of the STIL reader with a spec-side printer.  Ghost ground truth: per pattern
the intended value per flip-flop / port.  text = print(ground truth, chain orders, inversion markers, signal-group orders)."""
import random

import numpy as np

from vk.common import sseed, BoundedPart
from spec import evaln, algebra as A

ZERO, X, U, ONE = 0, 1, 2, 3


def build_circuit(rng, n_ff, n_in, n_out):
    from kyupy.circuit import Circuit, Node, Line
    c = Circuit('scan')
    ins = [Node(c, f'a{i}', 'input') for i in range(n_in)]
    clk = Node(c, 'clk', 'input')
    sis, sos = [], []
    outs = [Node(c, f'y{i}', 'output') for i in range(n_out)]
    # an edited circuit: cells created before the flip-flops are removed again afterwards, which moves the last flip-flop(s) to their
    # indices -- index order (the circuit's state ordering) then differs from creation order
    junk = [Node(c, f'junk{i}', 'BUF1') for i in range(rng.choice([0, 0, 1, 2]))]
    ffs = [Node(c, f'ff{i}', rng.choice(['SDFFX1', 'SDFF_X1', 'SDFFARX1_RVT'])) for i in range(n_ff)]
    for j in junk:
        j.remove()
    sigs = []
    for n in ins + ffs:
        f = Node(c, n.name + '_f')
        Line(c, (n, 0), f)
        sigs.append(f)
    k = 0

    def gate():
        nonlocal k
        k += 1
        g = Node(c, f'g{k}', rng.choice(['AND2', 'OR2', 'XOR2', 'NAND2', 'INV1']))
        for p in range(1 if g.kind == 'INV1' else 2):
            Line(c, rng.choice(sigs), (g, p))
        f = Node(c, f'g{k}_f')
        Line(c, g, f)
        sigs.append(f)
        return f
    for _ in range(rng.randrange(1, 6)):
        gate()
    for n in ffs:
        Line(c, gate() if rng.random() < 0.7 else rng.choice(sigs), (n, 0))
    for o in outs:
        Line(c, rng.choice(sigs), o)
    return c, ins, clk, outs, ffs


def make_case(rng):
    n_ff = rng.randrange(1, 8)
    c, ins, clk, outs, ffs = build_circuit(rng, n_ff, rng.randrange(1, 4), rng.randrange(1, 3))
    nch = rng.randrange(1, min(3, n_ff) + 1)
    order = ffs[:]
    rng.shuffle(order)
    chains = []
    cuts = sorted(rng.sample(range(1, n_ff), nch - 1)) if nch > 1 else []
    parts = [order[a:b] for a, b in zip([0] + cuts, cuts + [n_ff])]
    from kyupy.circuit import Node
    for j, cells in enumerate(parts):
        si, so = Node(c, f'si{j}', 'input'), Node(c, f'so{j}', 'output')
        items = []
        nmark = rng.randrange(0, 4)
        slots = [rng.randrange(0, len(cells) + 1) for _ in range(nmark)]
        for pos in range(len(cells) + 1):
            items += ['!'] * slots.count(pos)
            if pos < len(cells):
                items.append(cells[pos])
        chains.append({'name': f'chain{j}', 'si': si, 'so': so, 'items': items, 'cells': cells})
    ports_in = ins + [clk] + [ch['si'] for ch in chains]
    ports_out = outs + [ch['so'] for ch in chains]
    io = ports_in + ports_out
    rng.shuffle(io)
    for n in io:
        c.io_nodes.append(n)
    pi_group = ports_in[:]
    po_group = ports_out[:]
    rng.shuffle(pi_group)
    rng.shuffle(po_group)
    npat = rng.randrange(1, 5)
    pats = []
    for p in range(npat):
        loc = rng.random() < 0.5
        pulse = rng.random() < 0.7
        lpulse = pulse if rng.random() < 0.5 else (rng.random() < 0.5)      # launch and capture calls may differ in having a clock pulse
        pat = {'state': {f.name: rng.choice([ZERO, ONE, ONE, ZERO, X]) for f in ffs},
               'unload': {f.name: rng.choice([ZERO, ONE, X]) for f in ffs},
               'pi': {n.name: rng.choice([ZERO, ONE, U]) for n in ports_in}, 'po': {n.name: rng.choice([ZERO, ONE, X]) for n in ports_out},
               'loc': loc, 'pulse': pulse, 'lpulse': lpulse}
        pats.append(pat)
    return c, chains, pi_group, po_group, pats, ffs, clk


def inv_in(items, cell):
    """parity of the markers between scan-in and the cell"""
    par = 0
    for it in items:
        if isinstance(it, str):
            par ^= 1
        elif it is cell:
            return par
    raise KeyError


def inv_out(items, cell):
    par = 0
    for it in reversed(items):
        if isinstance(it, str):
            par ^= 1
        elif it is cell:
            return par
    raise KeyError


def flip(v, par):
    if par and v in (ZERO, ONE):
        return ONE if v == ZERO else ZERO
    return v


CH_LOAD = {ZERO: '0', ONE: '1', X: 'X', U: 'N'}
CH_PO = {ZERO: 'L', ONE: 'H', X: 'X'}


def render(c, chains, pi_group, po_group, pats, clk, rng):
    t = ['STIL 1.0 { Design 2005; }', 'Header { Title "gen"; Date "x"; History { Ann {* a *} } }',
         'Signals { ' + ' '.join(f'"{n.name}" {"In" if len(n.ins) == 0 else "Out"};' for n in c.io_nodes) + ' }',
         'SignalGroups {',
         '   "_pi" = \'' + ' + '.join(f'"{n.name}"' for n in pi_group) + '\';',
         '   "_po" = \'' + ' + '.join(f'"{n.name}"' for n in po_group) + '\';',
         '   "_si" = \'' + ' + '.join(f'"{ch["si"].name}"' for ch in chains) + '\' { ScanIn; }',
         '   "_so" = \'' + ' + '.join(f'"{ch["so"].name}"' for ch in chains) + '\' { ScanOut; }',
         '}', 'ScanStructures {']
    for ch in chains:
        cells = ' '.join('!' if isinstance(it, str) else f'"scan.{it.name}.SI"' for it in ch['items'])
        t.append(f'   ScanChain "{ch["name"]}" {{ ScanLength {len(ch["cells"])}; ScanIn "{ch["si"].name}"; ScanOut "{ch["so"].name}"; ScanInversion 0; ScanCells {cells}; ScanMasterClock "{clk.name}"; }}')
    t += ['}', 'Timing { WaveformTable "_default_WFT_" { Period \'100ns\'; } }', 'PatternBurst "_burst_" { PatList { "_pattern_" { } } }',
          'PatternExec { PatternBurst "_burst_"; }', 'Procedures { "load_unload" { W "_default_WFT_"; } }', 'MacroDefs { "test_setup" { W "_default_WFT_"; } }',
          'Pattern "_pattern_" {', '   W "_default_WFT_";', '   "precondition all Signals": C { "_pi"=0; }', '   Macro "test_setup";']

    def load_str(ch, pat):
        # first shifted bit belongs to the cell nearest scan-out; the tester applies the chain inversion on the way in
        return ''.join(CH_LOAD[flip(pat['state'][cell.name], inv_in(ch['items'], cell))] for cell in reversed(ch['cells']))

    def unload_str(ch, pat):
        return ''.join(CH_PO[flip(pat['unload'][cell.name], inv_out(ch['items'], cell))] for cell in reversed(ch['cells']))

    def pi_str(pat, pulse):
        return ''.join(('P' if (n is clk and pulse) else CH_LOAD[pat['pi'][n.name]]) for n in pi_group)
    for i, pat in enumerate(pats):
        params = []
        if i > 0:
            params += [f'"{ch["so"].name}"={unload_str(ch, pats[i - 1])};' for ch in chains]
        params += [f'"{ch["si"].name}"={load_str(ch, pat)};' for ch in chains]
        t.append(f'   "pattern {i}": Call "load_unload" {{ ' + ' '.join(params) + ' }')
        po = ''.join(CH_PO[pat['po'][n.name]] for n in po_group)
        if pat['loc']:
            # a launch call may carry expected outputs of its own; the responses of the pattern are those of the capture call
            lpo = ''
            if rng.random() < 0.5:
                lpo = ' "_po"=' + ''.join(rng.choice('LHX') for _ in po_group) + ';'
            t.append(f'   Call "allclock_launch" {{ "_pi"={pi_str(pat, pat["lpulse"])};{lpo} }}')
            t.append(f'   Call "allclock_capture" {{ "_pi"={pi_str(pat, pat["pulse"])}; "_po"={po}; }}')
        else:
            t.append(f'   Call "multiclock_capture" {{ "_pi"={pi_str(pat, pat["pulse"])}; "_po"={po}; }}')
    t.append('   "end": Call "load_unload" { ' + ' '.join(f'"{ch["so"].name}"={unload_str(ch, pats[-1])};' for ch in chains) + ' }')
    t.append('}')
    return '\n'.join(t) + '\n'


def transition(a, b_):
    """constant / rise / fall value from an initial and a final 4-valued value (spec of logic.mv_transition)"""
    if a == U and b_ == U:
        return U
    if a in (X, U) or b_ in (X, U):
        return X
    ini, fin = (a == ONE), (b_ == ONE)
    return (1 if fin else 0) | (2 if ini else 0) | (4 if ini != fin else 0)


def twin(c):
    from bounded import gen_circuits as G
    d = G.describe(c)
    n = len(d['nodes'])
    d2 = {'nodes': list(reversed(d['nodes'])), 'lines': [(n - 1 - a, ap, n - 1 - r, rp) for a, ap, r, rp in reversed(d['lines'])], 'io': [n - 1 - i for i in reversed(d['io'])]}
    t = G.build(d2)
    t.name = c.name
    return t


def check(c, chains, pi_group, po_group, pats, ffs, clk, text):
    from kyupy import stil
    out = []
    try:
        sf = stil.parse(text)
    except Exception as e:  # noqa
        return [('parse:exception', repr(e))]
    # the same StilFile object is first applied to a twin of the circuit (same name, same numbers of ports / nodes, every order reversed): what it
    # returns for ``c`` afterwards must depend on ``c`` only
    try:
        tw = twin(c)
        sf.tests(tw), sf.responses(tw), sf.tests_loc(tw)
    except Exception:  # noqa
        pass
    sn = evaln.s_nodes(c)
    pos = {n.name: i for i, n in enumerate(sn)}
    npat = len(pats)
    # ---- tests()
    try:
        t = np.asarray(sf.tests(c))
        want = np.full((len(sn), npat), U)
        for p, pat in enumerate(pats):
            for f in ffs:
                want[pos[f.name], p] = pat['state'][f.name]
            for n in pi_group:
                want[pos[n.name], p] = pat['pi'][n.name]
        mask = np.ones_like(want, dtype=bool)
        for p, pat in enumerate(pats):
            if pat['pulse']:
                mask[pos[clk.name], p] = False       # a clock pulse character is not a logic value; not constrained here
        if t.shape != want.shape:
            out.append(('tests:shape', f'{t.shape} != {want.shape}'))
        elif not np.array_equal(t[mask], want[mask]):
            i, p = [int(x) for x in np.argwhere((t != want) & mask)[0]]
            kind = 'scan-cell' if sn[i] in ffs else 'port'
            out.append((f'tests:{kind}', f'tests()[{sn[i].name}, pattern {p}] = {t[i, p]}, the pattern set intends {want[i, p]}'))
    except Exception as e:  # noqa
        out.append(('tests:exception', repr(e)))
    # ---- responses()
    try:
        r = np.asarray(sf.responses(c))
        want = np.full((len(sn), npat), U)
        for p, pat in enumerate(pats):
            for f in ffs:
                want[pos[f.name], p] = pat['unload'][f.name]
            for n in po_group:
                want[pos[n.name], p] = pat['po'][n.name]
        if r.shape != want.shape:
            out.append(('responses:shape', f'{r.shape} != {want.shape}'))
        elif not np.array_equal(r, want):
            i, p = [int(x) for x in np.argwhere(r != want)[0]]
            kind = 'scan-cell' if sn[i] in ffs else 'port'
            out.append((f'responses:{kind}', f'responses()[{sn[i].name}, pattern {p}] = {r[i, p]}, the pattern set intends {want[i, p]}'))
    except Exception as e:  # noqa
        out.append(('responses:exception', repr(e)))
    # ---- tests_loc(): loaded state and simulated next state combined per flip-flop
    try:
        tl = np.asarray(sf.tests_loc(c))
        for p, pat in enumerate(pats):
            assign = {}
            for f in ffs:
                assign[pos[f.name]] = A.val_of(pat['state'][f.name], 4)
            for n in pi_group:
                v = pat['pi'][n.name]
                assign[pos[n.name]] = A.val_of(ZERO if n is clk else v, 4)     # the clock port drives no logic in these circuits
            cap = evaln.evalN(c, assign, 4)
            for f in ffs:
                nxt = A.code_of(cap[pos[f.name]]) & 3 if pos[f.name] in cap else ZERO
                launch_pulse = pat['loc'] and pat['lpulse'] and pat['pulse']      # "no launch cycle or no launch clock: the loaded state stays"
                fin = nxt if launch_pulse else pat['state'][f.name]
                want = transition(pat['state'][f.name], fin)
                if int(tl[pos[f.name], p]) != want:
                    out.append(('tests_loc:scan-cell', f'tests_loc()[{f.name}, pattern {p}] = {int(tl[pos[f.name], p])}, loaded {pat["state"][f.name]} and next state {fin} combine to {want}'))
                    return out
    except Exception as e:  # noqa
        out.append(('tests_loc:exception', repr(e)))
    return out


def run_case(args):
    rng = random.Random(args['seed'])
    c, chains, pi_group, po_group, pats, ffs, clk = make_case(rng)
    text = render(c, chains, pi_group, po_group, pats, clk, rng)
    v = check(c, chains, pi_group, po_group, pats, ffs, clk, text)
    return {'reproduced': bool(v), 'violated': v, 'stil': text[:1500]}


def part(tier, seed):
    b = BoundedPart('C18-stil-round-trip', ['kyupy.stil.parse', 'kyupy.stil.StilFile.__init__/_maps/tests/tests_loc/responses', 'kyupy.logic.mv_transition'],
                    'seeded scan circuits (1-7 scan flip-flops in 1-3 chains of random order, in half of the cases re-indexed by removing earlier cells, 0-3 inversion markers at random places incl. chain ends, shuffled ports and '
                    'signal groups) x pattern sets (1-4 patterns; loads over 0/1/X, unloads over L/H/X, PI over 0/1/N, PO over L/H/X; static capture or launch+capture calls, each independently with '
                    'and without clock pulses): tests() / responses() equal the intended value at every flip-flop (chain order: first shifted bit = cell nearest scan-out; '
                    'inversions between scan-in resp. scan-out and the cell) and port (signal-group order), rows in port/state order; tests_loc() combines loaded and next state; the StilFile object has been applied to a twin circuit (same name and sizes, reversed orders) before; '
                    'distinct = case seed; non-trivial = some chain has a marker', f'{150 if tier == "quick" else 3000} cases')
    for k in range(150 if tier == 'quick' else 3000):
        cs = sseed((seed, 'stil', k))
        rng = random.Random(cs)
        c, chains, pi_group, po_group, pats, ffs, clk = make_case(rng)
        text = render(c, chains, pi_group, po_group, pats, clk, rng)
        marked = any(isinstance(it, str) for ch in chains for it in ch['items'])
        b.case(cs, marked, sample={'seed': cs, 'chains': [[('!' if isinstance(it, str) else it.name) for it in ch['items']] for ch in chains], 'patterns': len(pats)})
        for clause, msg in check(c, chains, pi_group, po_group, pats, ffs, clk, text):
            key = f'bounded:C18:{clause}' + (':with-inversion-marker' if marked and 'scan-cell' in clause else '')
            b.violation(key, f'case {cs}: {msg}', 'bounded.stil_drv:run_case', {'seed': cs}, function='kyupy.stil.StilFile')
    return b
