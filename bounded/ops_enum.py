"""Bounded stand-in / CPython cross-check for the operator contracts of kyupy.logic: the same value-level
postcondition (spec.algebra) evaluated on the REAL functions over all operand tuples (exhaustive) and a set of
shapes/broadcasts/aliasing patterns.  Bounded evidence only."""
import itertools

import numpy as np

from spec import algebra as A
from vk.common import BoundedPart


def _pack(codes, nplanes):
    """codes: int array (n,) of 3-bit values -> bit-parallel (nplanes, ceil(n/8)) uint8, own packing (little)"""
    n = len(codes)
    nb = (n + 7) // 8
    out = np.zeros((nplanes, nb), dtype=np.uint8)
    for p in range(nplanes):
        bits = (codes >> p) & 1
        bits = np.concatenate([bits, np.zeros(nb * 8 - n, dtype=bits.dtype)])
        out[p] = np.packbits(bits.astype(np.uint8).reshape(nb, 8), axis=1, bitorder='little')[:, 0]
    return out


def _unpack(bp, n):
    nplanes = bp.shape[0]
    codes = np.zeros(n, dtype=np.int64)
    for p in range(nplanes):
        bits = np.unpackbits(bp[p][:, None], axis=1, bitorder='little').reshape(-1)[:n]
        codes |= bits.astype(np.int64) << p
    return codes


def mv_ops(part=None):
    from kyupy import logic
    b = part or BoundedPart('mv-operators-exhaustive', ['kyupy.logic._mv_not/_mv_or/_mv_and/_mv_xor', 'kyupy.logic.mv_not/mv_or/mv_and/mv_xor'],
                            'all 8^k operand tuples, k=1..4 (k=1 for not), element-wise on a 1-D array holding every tuple; '
                            'wrappers additionally with out=None / out=array for shapes (), (1,), (5,), (2,3), broadcast (3,1)x(1,4); '
                            'distinct = distinct (function, operand tuple | shape case)', 'arity <= 4, values 0..7', exhaustive=True)
    for opname in ('not', 'or', 'and', 'xor'):
        fn = getattr(logic, f'_mv_{opname}')
        spec = A.OPS[8][opname]
        for k in ((1,) if opname == 'not' else (1, 2, 3, 4)):
            tuples = list(itertools.product(range(8), repeat=k))
            ins = [np.array([t[j] for t in tuples], dtype=np.uint8) for j in range(k)]
            out = np.full(len(tuples), 0xAA, dtype=np.uint8)
            try:
                fn(out, *ins)
            except Exception as e:  # noqa
                b.violation(f'bounded:_mv_{opname}/{k}:exception', f'_mv_{opname} with {k} operands raised {e!r}',
                            'contracts.logic_c:run_mv_core', {'op': opname, 'operands': list(tuples[0])}, function=f'kyupy.logic._mv_{opname}')
                continue
            for t, got in zip(tuples, out):
                want = A.code_of(spec(*[A.val_of(v) for v in t]))
                b.case((opname, t), sample={'fn': f'_mv_{opname}', 'operands': list(t), 'result': int(got)})
                if int(got) != want:
                    b.violation(f'bounded:_mv_{opname}/{k}:value', f'_mv_{opname}{t} = {int(got)}, spec {want}',
                                'contracts.logic_c:run_mv_core', {'op': opname, 'operands': list(t)}, function=f'kyupy.logic._mv_{opname}')
    # per-element independence: the same tuples in other company (only unknown-free tuples in one array; tuples one at a time)
    rs = np.random.RandomState(5)
    for opname in ('not', 'or', 'and', 'xor'):
        fn = getattr(logic, f'_mv_{opname}')
        spec = A.OPS[8][opname]
        for k in ((1,) if opname == 'not' else (1, 2, 3, 4)):
            tuples = list(itertools.product(range(8), repeat=k))
            definite = [t for t in tuples if not any(v in (1, 2) for v in t)]
            singles = tuples if k <= 2 else [tuples[i] for i in rs.choice(len(tuples), 150, replace=False)]
            for fam, groups in (('unknown-free', [definite]), ('single', [[t] for t in singles])):
                for grp in groups:
                    ins = [np.array([t[j] for t in grp], dtype=np.uint8) for j in range(k)]
                    out = np.full(len(grp), 0xAA, dtype=np.uint8)
                    try:
                        fn(out, *ins)
                    except Exception as e:  # noqa
                        b.violation(f'bounded:_mv_{opname}/{k}:exception', f'_mv_{opname} on the {fam} family raised {e!r}', function=f'kyupy.logic._mv_{opname}')
                        break
                    bad = [(t, int(g)) for t, g in zip(grp, out) if int(g) != A.code_of(spec(*[A.val_of(v) for v in t]))]
                    b.case((opname, k, fam, len(grp), grp[0]), sample={'fn': f'_mv_{opname}', 'family': fam, 'size': len(grp)})
                    if bad:
                        b.violation(f'bounded:_mv_{opname}/{k}:element-independence', f'_mv_{opname}{bad[0][0]} = {bad[0][1]} when evaluated in the {fam} family ({len(grp)} elements)',
                                    'contracts.logic_c:run_mv_core', {'op': opname, 'operands': list(bad[0][0])}, function=f'kyupy.logic._mv_{opname}')
                        break
    # wrappers: shapes, broadcasting, out=
    rng = np.random.RandomState(1)
    shapes = [((), ()), ((1,), (1,)), ((5,), (5,)), ((2, 3), (2, 3)), ((3, 1), (1, 4)), ((0,), (0,))]
    for opname, k in (('not', 1), ('or', 2), ('and', 2), ('xor', 2)):
        fn = getattr(logic, f'mv_{opname}')
        spec = A.OPS[8][opname]
        for sh in shapes:
            ins = [rng.randint(0, 8, size=sh[j]).astype(np.uint8) for j in range(k)]
            bshape = np.broadcast(*ins).shape
            for with_out in (False, True):
                for fill in (0, 3):
                    kw = {'out': np.full(bshape, fill, dtype=np.uint8)} if with_out else {}
                    sig = (f'mv_{opname}', sh[:k], with_out, fill)
                    b.case(sig, sample={'fn': f'mv_{opname}', 'shapes': [list(s) for s in sh[:k]], 'out': with_out})
                    key = f'bounded:mv_{opname}:out={"array" if with_out else "None"}'
                    try:
                        r = fn(*ins, **kw)
                    except Exception as e:  # noqa
                        b.violation(key + ':exception', f'mv_{opname}(shapes {sh[:k]}, out={"array" if with_out else None}) raised {e!r}',
                                    'bounded.ops_enum:run_wrapper_case', {'op': opname, 'shapes': [list(s) for s in sh[:k]], 'with_out': with_out, 'fill': fill, 'seed': 1},
                                    function=f'kyupy.logic.mv_{opname}')
                        continue
                    bi = np.broadcast_arrays(*ins)
                    want = np.zeros(bshape, dtype=np.uint8)
                    for idx in np.ndindex(*bshape):
                        want[idx] = A.code_of(spec(*[A.val_of(int(x[idx])) for x in bi]))
                    ok = np.array_equal(np.asarray(r), want) and (not with_out or (r is kw['out'] and np.array_equal(kw['out'], want)))
                    if not ok:
                        b.violation(key + ':value', f'mv_{opname}(shapes {sh[:k]}, out={"array" if with_out else None}): wrong result or out not used',
                                    'bounded.ops_enum:run_wrapper_case', {'op': opname, 'shapes': [list(s) for s in sh[:k]], 'with_out': with_out, 'fill': fill, 'seed': 1},
                                    function=f'kyupy.logic.mv_{opname}')
    # a result without out= is a fresh array (a later call does not change an earlier result); a strided / transposed out= view receives the result
    for opname, k in (('not', 1), ('or', 2), ('and', 2), ('xor', 2)):
        fn = getattr(logic, f'mv_{opname}')
        spec = A.OPS[8][opname]

        def want_of(ins):
            bi = np.broadcast_arrays(*ins)
            w = np.zeros(bi[0].shape, dtype=np.uint8)
            for idx in np.ndindex(*bi[0].shape):
                w[idx] = A.code_of(spec(*[A.val_of(int(x[idx])) for x in bi]))
            return w
        for sh in ((5,), (2, 3)):
            a = [rng.randint(0, 8, size=sh).astype(np.uint8) for _ in range(k)]
            c = [rng.randint(0, 8, size=sh).astype(np.uint8) for _ in range(k)]
            b.case((f'mv_{opname}', 'fresh', sh), sample={'fn': f'mv_{opname}', 'case': 'two calls, first result kept'})
            try:
                r1 = fn(*a)
                keep = np.array(r1, copy=True)
                r2 = fn(*c)
                if not np.array_equal(r1, keep) or not np.array_equal(keep, want_of(a)) or not np.array_equal(r2, want_of(c)) or any(np.shares_memory(r1, x) for x in a + c + [r2]):
                    b.violation(f'bounded:mv_{opname}:result-not-fresh', f'mv_{opname}: the result of an earlier call (shape {sh}) changed or is shared after a later call with other operands',
                                function=f'kyupy.logic.mv_{opname}', detail={'shape': list(sh)})
            except Exception as e:  # noqa
                b.violation(f'bounded:mv_{opname}:exception', f'mv_{opname} raised {e!r}', function=f'kyupy.logic.mv_{opname}')
            for view in ('strided', 'transposed', 'column'):
                ins = [rng.randint(0, 8, size=(3, 4)).astype(np.uint8) for _ in range(k)]
                if view == 'strided':
                    base = np.full((3, 8), 0x55, dtype=np.uint8)
                    out = base[:, ::2]
                elif view == 'transposed':
                    base = np.full((4, 3), 0x55, dtype=np.uint8)
                    out = base.T
                else:
                    base = np.full((3, 4, 2), 0x55, dtype=np.uint8)
                    out = base[:, :, 1]
                b.case((f'mv_{opname}', 'out-view', view), sample={'fn': f'mv_{opname}', 'out': view + ' view'})
                try:
                    r = fn(*ins, out=out)
                    if not np.array_equal(out, want_of(ins)) or not np.array_equal(np.asarray(r), want_of(ins)):
                        b.violation(f'bounded:mv_{opname}:out-view', f'mv_{opname}(out = a {view} uint8 view): the caller\'s array did not receive the result',
                                    function=f'kyupy.logic.mv_{opname}', detail={'view': view})
                except Exception as e:  # noqa
                    b.violation(f'bounded:mv_{opname}:exception', f'mv_{opname}(out = {view} view) raised {e!r}', function=f'kyupy.logic.mv_{opname}')
    return b


def run_wrapper_case(args):
    from kyupy import logic
    opname, shapes, with_out, fill = args['op'], [tuple(s) for s in args['shapes']], args['with_out'], args['fill']
    rng = np.random.RandomState(args.get('seed', 1))
    ins = [rng.randint(0, 8, size=s).astype(np.uint8) for s in shapes]
    bshape = np.broadcast(*ins).shape
    kw = {'out': np.full(bshape, fill, dtype=np.uint8)} if with_out else {}
    spec = A.OPS[8][opname]
    try:
        r = getattr(logic, f'mv_{opname}')(*ins, **kw)
    except Exception as e:  # noqa
        return {'reproduced': True, 'observed': repr(e)}
    bi = np.broadcast_arrays(*ins)
    want = np.zeros(bshape, dtype=np.uint8)
    for idx in np.ndindex(*bshape):
        want[idx] = A.code_of(spec(*[A.val_of(int(x[idx])) for x in bi]))
    ok = np.array_equal(np.asarray(r), want) and (not with_out or (r is kw['out'] and np.array_equal(kw['out'], want)))
    return {'reproduced': not ok, 'expected': want.tolist(), 'observed': np.asarray(r).tolist()}


def bp_ops(part=None):
    from kyupy import logic
    b = part or BoundedPart('bp-operators-exhaustive', ['kyupy.logic.bp4v_*', 'kyupy.logic.bp8v_*'],
                            'all m^k operand tuples (m=4,8; k=1..4) packed into lanes by an independent packer, one call per (op,k); '
                            'plus not/buf with out aliasing the operand; lanes beyond the tuple count are padding; distinct = (m, op, tuple)',
                            'arity <= 4', exhaustive=True)
    for m in (4, 8):
        nplanes = 3 if m == 8 else 2
        for opname in ('buf', 'not', 'or', 'and', 'xor'):
            fn = getattr(logic, f'bp{m}v_{opname}')
            spec = A.OPS[m][opname]
            for k in ((1,) if opname in ('buf', 'not') else (1, 2, 3, 4)):
                tuples = list(itertools.product(range(m), repeat=k))
                # 4-valued codes use bits 0,1 only
                ins = [_pack(np.array([t[j] for t in tuples], dtype=np.int64), nplanes) for j in range(k)]
                for alias in ((False, True) if opname in ('buf', 'not') else (False,)):
                    out = ins[0] if alias else np.full_like(ins[0], 0x5A)
                    ins0 = [x.copy() for x in ins]
                    try:
                        r = fn(out, *ins)
                    except Exception as e:  # noqa
                        b.violation(f'bounded:bp{m}v_{opname}/{k}:exception', f'bp{m}v_{opname} raised {e!r}', function=f'kyupy.logic.bp{m}v_{opname}')
                        continue
                    got = _unpack(out, len(tuples))
                    for t, g in zip(tuples, got):
                        want = A.code_of(spec(*[A.val_of(v, m) for v in t]))
                        b.case((m, opname, t, alias), sample={'fn': f'bp{m}v_{opname}', 'operands': list(t), 'result': int(g)})
                        if int(g) != want:
                            b.violation(f'bounded:bp{m}v_{opname}/{k}:value', f'bp{m}v_{opname}{t} = {int(g)}, spec {want} (out aliases operand: {alias})',
                                        function=f'kyupy.logic.bp{m}v_{opname}', detail={'operands': list(t), 'got': int(g), 'want': want})
                    if r is not out:
                        b.violation(f'bounded:bp{m}v_{opname}/{k}:result-is-out', f'bp{m}v_{opname} does not return out', function=f'kyupy.logic.bp{m}v_{opname}')
                    if not alias and any(not np.array_equal(x, y) for x, y in zip(ins, ins0)):
                        b.violation(f'bounded:bp{m}v_{opname}/{k}:frame', f'bp{m}v_{opname} modified an operand', function=f'kyupy.logic.bp{m}v_{opname}')
                # per-lane independence: the same tuples in other company (only unknown-free tuples; only unknown tuples; single lanes)
                unk = (1, 2)
                fams = [('unknown-free', [[t for t in tuples if not any(v in unk for v in t)]]),
                        ('no-transition', [[t for t in tuples if all(v < 4 for v in t)]]),
                        ('single', [[t] for t in (tuples if len(tuples) <= 64 else [tuples[i] for i in np.random.RandomState(m * 10 + k).choice(len(tuples), 100, replace=False)])])]
                for fam, groups in fams:
                    for grp in groups:
                        if not grp:
                            continue
                        gin = [_pack(np.array([t[j] for t in grp], dtype=np.int64), nplanes) for j in range(k)]
                        gout = np.full_like(gin[0], 0x5A)
                        try:
                            fn(gout, *gin)
                        except Exception as e:  # noqa
                            b.violation(f'bounded:bp{m}v_{opname}/{k}:exception', f'bp{m}v_{opname} on the {fam} family raised {e!r}', function=f'kyupy.logic.bp{m}v_{opname}')
                            break
                        got = _unpack(gout, len(grp))
                        bad = [(t, int(g)) for t, g in zip(grp, got) if int(g) != A.code_of(spec(*[A.val_of(v, m) for v in t]))]
                        b.case((m, opname, k, fam, len(grp), grp[0]), sample={'fn': f'bp{m}v_{opname}', 'family': fam, 'lanes': len(grp)})
                        if bad:
                            b.violation(f'bounded:bp{m}v_{opname}/{k}:lane-independence', f'bp{m}v_{opname}{bad[0][0]} = {bad[0][1]} when evaluated in the {fam} family ({len(grp)} lanes)',
                                        function=f'kyupy.logic.bp{m}v_{opname}', detail={'operands': list(bad[0][0]), 'got': bad[0][1], 'family': fam})
                            break
    return b
