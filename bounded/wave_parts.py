"""Bounded parts of the wave-simulation properties (C03, C04, C05, C06, C07, C13) built on bounded.wave_drv."""
import random

import numpy as np

from spec import evaln, algebra as A
from vk.common import sseed,  BoundedPart
from . import gen_circuits as G, logic_drv, wave_drv as WD


def wave_circuits(tier, seed, nrand_quick=60, nrand_thorough=1200, max_gates=10):
    for c, sig in G.small_circuits():
        if logic_drv.has_arity_gap(c):
            continue          # arity-by-name vs arity-by-highest-pin: recorded under C01/C02, kept out of the timing oracles
        yield c, sig
    nrand = nrand_quick if tier == 'quick' else nrand_thorough
    for k in range(nrand):
        rng = G.rng_for(seed + 101, k)
        c = G.random_circuit(rng, n_gates=rng.randrange(1, max_gates), n_in=rng.randrange(1, 4), n_ff=rng.randrange(0, 2),
                             n_latch=rng.randrange(0, 2), p_unconn=0.05)
        if logic_drv.has_arity_gap(c):
            continue
        yield c, ('random', seed + 101, k)


def caps_choice(rng, c):
    r = rng.randrange(4)
    if r == 0:
        return 4
    if r == 1:
        return 8
    if r == 2:
        return 16
    return [4 * rng.randrange(1, 5) for _ in range(len(c.lines) + 3)]


def replay_args(c, delays, stim, n, opts, caps, **kw):
    d = {'desc': G.describe(c), 'delays': np.asarray(delays).tolist(), 'stim': {str(k): v for k, v in stim.items()}, 'n': n, 'opts': opts,
         'caps': caps}
    d.update(kw)
    return d


def _load(args):
    c = G.build(args['desc'])
    delays = np.array(args['delays'], dtype=np.float32)
    stim = {int(k): [(int(a), list(b)) for a, b in v] for k, v in args['stim'].items()}
    return c, delays, stim


# ------------------------------------------------------------------------------------------------------------- C03
def run_c03(args):
    c, delays, stim = _load(args)
    try:
        sim = WD.run(c, delays, stim, args['n'], args['opts'], args['caps'], cuda=args.get('cuda', False))
    except Exception as e:  # noqa
        return {'reproduced': True, 'observed': repr(e)}
    v = WD.check_values(sim, c, stim, args['n'], args['opts'])
    if args.get('stim2'):
        v += reuse_values(sim, c, _stim(args['stim2']), args['n'], args['opts'])
    return {'reproduced': bool(v), 'violated': v[:3]}


def _stim(d):
    return {int(k): [(int(a), list(b)) for a, b in v] for k, v in d.items()}


def reuse_values(sim, c, stim2, n, opts):
    """the same simulator instance is given a second stimulus (through s / s_to_c): the results must be those of the second stimulus alone"""
    try:
        WD.apply_stim(sim, stim2)
        sim.c_prop()
        sim.c_to_s()
    except Exception as e:  # noqa
        return [('reuse:exception', repr(e))]
    return [('reuse:' + cl, 'second stimulus on the same instance: ' + msg) for cl, msg in WD.check_values(sim, c, stim2, n, opts)]


def part_c03(tier, seed):
    b = BoundedPart('C03-settled-values', ['kyupy.wave_sim.WaveSim (s_to_c, c_prop, c_to_s)', 'kyupy.wave_sim._wave_eval', 'kyupy.sim.SimOps.__init__'],
                    'shared circuit space (1-gate family over all kinds x unconnected-pin subsets, 2-gate chains, special shapes, seeded random circuits) x random delay '
                    'arrays >= 0 (4 independent polarity entries, grid 1/4) x capacities {4, 8, 16, per-line mixed} x stimuli with 0..3 transitions per input x batch '
                    'sizes 1..5 x {c_reuse} x {strip_forks}; every line waveform well formed, init/final = netlist oracle, captured s[3]/s[6] the same; a second stimulus on the same '
                    'instance (history) gives the values of that stimulus; distinct = (circuit, options, capacities); non-trivial = some waveform has a transition; overflow cases counted separately',
                    f'exhaustive-small family + {60 if tier == "quick" else 1200} seeded circuits')
    overflow = 0
    for c, sig in wave_circuits(tier, seed):
        rng = random.Random(sseed(('c03', str(sig), seed)) & 0xfffffff)
        for opts in (WD.OPT_SETS if tier == 'thorough' else [WD.OPT_SETS[rng.randrange(4)], WD.OPT_SETS[0]]):
            n = rng.randrange(1, 6)
            delays = WD.make_delays(rng, c, zero_fork_inputs=opts['strip_forks'])
            caps = caps_choice(rng, c)
            stim = WD.make_stim(rng, c, n, max_trans=rng.randrange(0, 4))
            args = replay_args(c, delays, stim, n, opts, caps)
            key = 'bounded:C03:' + ','.join(k for k, v in opts.items() if v)
            try:
                sim = WD.run(c, delays, stim, n, opts, caps)
            except Exception as e:  # noqa
                b.case((str(sig), str(opts)), False)
                b.violation(key + ':exception', f'WaveSim({opts}, caps={caps if isinstance(caps, int) else "per-line"}) on {sig} raised {e!r}', 'bounded.wave_parts:run_c03', args,
                            function='kyupy.wave_sim.WaveSim')
                continue
            ovl = bool(np.asarray(sim.s)[10].any())
            overflow += ovl
            trans = bool((np.asarray(sim.s)[4] < WD.K().TMAX).any())
            b.case((G.describe(c)['nodes'], G.describe(c)['lines'], str(opts), str(caps)), trans,
                   sample={'circuit': str(sig), 'options': opts, 'caps': caps if isinstance(caps, int) else 'per-line', 'lanes': n, 'overflow': ovl})
            from . import map_drv
            pre = [(cl_, m_) for cl_, m_ in map_drv.check_map(sim, c, opts['strip_forks'], opts['c_reuse'], caps if not isinstance(caps, int) else [caps] * (len(c.lines) + 3), 4, scratch=False)
                   if cl_.startswith('M3') or cl_.startswith('M4') or cl_.startswith('M1')]
            for clause, msg in pre:
                b.violation(f'{key}:capture-requires:{clause}', f'call-site precondition of the capture / evaluation kernels violated on {sig} {opts}: {msg}',
                            'bounded.wave_parts:run_c03', args, function='kyupy.sim.SimOps.__init__')
            for clause, msg in WD.check_values(sim, c, stim, n, opts):
                b.violation(f'{key}:{clause}', f'{clause} on {sig} {opts}: {msg}', 'bounded.wave_parts:run_c03', args, function='kyupy.wave_sim._wave_eval')
            # history: a second stimulus (at most one transition per input, i.e. purely through s_to_c) on the same instance
            stim2 = WD.make_stim(rng, c, n, max_trans=1)
            args2 = dict(args, stim2={str(k): v for k, v in stim2.items()})
            for clause, msg in reuse_values(sim, c, stim2, n, opts):
                b.violation(f'{key}:{clause}', f'{clause} on {sig} {opts}: {msg}', 'bounded.wave_parts:run_c03', args2, function='kyupy.wave_sim.WaveSim.s_to_c')
    # long waveforms behind short ones: every input line has capacity 4, the gate outputs 16; the output toggles five times.  Whoever looks up a capacity
    # under the wrong index (a line index instead of an interface slot, ...) scans a truncated waveform.
    for c, sig in overflow_circuits(second=('XOR2',)):
        caps = [4] * (len(c.lines) + 3)
        for l in c.lines:
            if l.driver.kind not in ('input',):
                caps[l.index] = 16
        n = 2
        stim = {i: [(0, [1.0 + i]), (1, [1.5 + i])] for i in range(4)}
        stim[4] = [(0, [6.0]), (0, [0.5])]
        delays = np.full((1, len(c.lines), 2, 2), 0.25, dtype=np.float32)
        for opts in (WD.OPT_SETS[0], WD.OPT_SETS[3]):
            args = replay_args(c, delays, stim, n, opts, caps)
            key = 'bounded:C03:' + ','.join(k for k, v in opts.items() if v)
            b.case((str(sig), str(opts), 'caps-4-16'), True, sample={'circuit': str(sig), 'options': opts, 'caps': 'inputs 4, gate outputs 16'})
            try:
                sim = WD.run(c, delays, stim, n, opts, caps)
            except Exception as e:  # noqa
                b.violation(key + ':exception', f'WaveSim on {sig} raised {e!r}', 'bounded.wave_parts:run_c03', args, function='kyupy.wave_sim.WaveSim')
                continue
            for clause, msg in WD.check_values(sim, c, stim, n, opts):
                b.violation(f'{key}:{clause}', f'{clause} on {sig} {opts}: {msg}', 'bounded.wave_parts:run_c03', args, function='kyupy.wave_sim.WaveSim.c_to_s')
    b.notes.append(f'cases with an overflow indicator set: {overflow}')
    return b


# ------------------------------------------------------------------------------------------------------------- C04
def run_c04(args):
    c, delays, stim = _load(args)
    v = c04_checks(c, delays, stim, args['n'], args['opts'], args['caps'], args.get('shift', 0.0), args.get('scale', 1.0), args.get('mono', False),
                   stim2=_stim(args['stim2']) if args.get('stim2') else None)
    return {'reproduced': bool(v), 'violated': v[:3]}


def c04_checks(c, delays, stim, n, opts, caps, shift, scale, mono, stim2=None):
    out = []
    try:
        sim = WD.run(c, delays, stim, n, opts, caps)
    except Exception as e:  # noqa
        return [('exception', repr(e))]
    out += WD.check_sta(sim, c, delays, stim, n, opts)
    if caps != 4:
        # the same run with the smallest capacity: waveforms overflow, what remains (and what is captured) still lies in the window
        try:
            out += [('caps4:' + cl, 'capacity 4: ' + msg) for cl, msg in WD.check_sta(WD.run(c, delays, stim, n, opts, 4), c, delays, stim, n, opts)]
        except Exception as e:  # noqa
            out.append(('caps4:exception', repr(e)))
    base = WD.all_waves(sim, c, n)
    base_summary = WD.summary(sim, (3, 6)).copy()
    if stim2 is not None:
        # history: the same instance gets a second stimulus through s_to_c; its transitions must lie in the window of the second stimulus
        try:
            WD.apply_stim(sim, stim2)
            sim.c_prop()
            sim.c_to_s()
            out += [('reuse:' + cl, 'second stimulus on the same instance: ' + msg) for cl, msg in WD.check_sta(sim, c, delays, stim2, n, opts)]
        except Exception as e:  # noqa
            out.append(('reuse:exception', repr(e)))
    W = WD.K()
    if mono:
        for (l, lane), w in base.items():
            if w is None:
                continue
            f = [t for t in w[0] if t > W.TMIN]
            if any(a >= b2 for a, b2 in zip(f, f[1:])):
                out.append(('monotone', f'line {l} lane {lane}: time stamps not strictly increasing with polarity-independent delays: {f}'))
                break
    # several delay datasets: per-simulation selection (each lane inside the window of *its* dataset) and global selection by the seed argument
    try:
        rng_ = random.Random(int(abs(float(np.asarray(delays).sum())) * 8) + n)
        d3 = np.concatenate([delays, delays * 2 + np.float32(0.5), delays * 4 + np.float32(1.25)], axis=0)
        pick = [rng_.randrange(3) for _ in range(n)]
        ctl = np.zeros((2, n), dtype=np.int32)
        ctl[1] = 1
        ctl[0] = pick
        sp = WD.run(c, d3, stim, n, opts, caps, simctl=ctl)
        out += [('dataset:per-sim:' + cl_, f'lane datasets {pick}: ' + msg) for cl_, msg in WD.check_sta(sp, c, d3, stim, n, opts, dataset=pick)]
        g = rng_.randrange(3)
        sg = WD.run(c, d3, stim, n, opts, caps, simctl=np.zeros((2, n), dtype=np.int32), prop_kw={'seed': g})
        out += [('dataset:global:' + cl_, f'dataset {g} for all lanes: ' + msg) for cl_, msg in WD.check_sta(sg, c, d3, stim, n, opts, dataset=g)]
    except Exception as e:  # noqa
        out.append(('dataset:exception', repr(e)))
    if shift:
        s2 = WD.run(c, delays, stim, n, opts, caps, shift=shift)
        w2 = WD.all_waves(s2, c, n)
        for k, w in base.items():
            if w is None or w2[k] is None:
                continue
            want = [t + shift if t > W.TMIN else t for t in w[0]]
            if [float(np.float32(x)) for x in want] != w2[k][0]:
                out.append(('shift', f'line {k[0]} lane {k[1]}: inputs shifted by {shift}: {w[0]} -> {w2[k][0]}'))
                break
        if not np.array_equal(base_summary, WD.summary(s2, (3, 6))):
            out.append(('shift', 'captured initial/final values changed under a shift'))
    if scale != 1.0:
        s3 = WD.run(c, delays, stim, n, opts, caps, scale=scale)
        w3 = WD.all_waves(s3, c, n)
        for k, w in base.items():
            if w is None or w3[k] is None:
                continue
            want = [t * scale if t > W.TMIN else t for t in w[0]]
            if [float(np.float32(x)) for x in want] != w3[k][0]:
                out.append(('scale', f'line {k[0]} lane {k[1]}: times and delays scaled by {scale}: {w[0]} -> {w3[k][0]}'))
                break
    return out


def part_c04(tier, seed):
    b = BoundedPart('C04-timing-window-shift-scale', ['kyupy.wave_sim._wave_eval', 'kyupy.wave_sim.WaveSim.c_prop'],
                    'circuit space x delay arrays >= 0 on the grid 1/4 x multi-transition stimuli (0..3 per input) x capacity 16/8 (c_reuse off so that every waveform is '
                    'readable): every finite entry inside the static-timing window computed spec-side from the stimulus and the per-line min/max delays; the same run '
                    'with all input times shifted by +-2^k, and with all times and delays scaled by 2^+-k, compared entry by entry; polarity-independent delays -> strictly '
                    'increasing time stamps; a second stimulus (<= 1 transition per input, through s_to_c) on the same instance stays inside its own window; distinct = (circuit, delays kind, transform)', f'exhaustive-small family + {60 if tier == "quick" else 1200} seeded circuits')
    for c, sig in wave_circuits(tier, seed):
        rng = random.Random(sseed(('c04', str(sig), seed)) & 0xfffffff)
        for mono in (False, True):
            opts = dict(c_reuse=False, strip_forks=False)
            n = rng.randrange(1, 4)
            delays = WD.make_delays(rng, c, polarity_independent=mono)
            stim = WD.make_stim(rng, c, n, max_trans=rng.randrange(1, 4))
            caps = rng.choice([8, 16])
            shift = rng.choice([0.5, 2.0, 8.0, -1.0, 64.0])
            scale = rng.choice([2.0, 0.5, 4.0, 0.25, 2.0 ** -20, 2.0 ** -24, 2.0 ** 20, 2.0 ** -16])
            stim2 = WD.make_stim(rng, c, n, max_trans=1)
            args = replay_args(c, delays, stim, n, opts, caps, shift=shift, scale=scale, mono=mono, stim2={str(k): v for k, v in stim2.items()})
            b.case((G.describe(c)['nodes'], G.describe(c)['lines'], mono), True, sample={'circuit': str(sig), 'polarity_independent': mono, 'shift': shift, 'scale': scale})
            for clause, msg in c04_checks(c, delays, stim, n, opts, caps, shift, scale, mono, stim2=stim2):
                b.violation(f'bounded:C04:{clause}', f'{clause} on {sig}: {msg}', 'bounded.wave_parts:run_c04', args, function='kyupy.wave_sim._wave_eval')
    return b


# ------------------------------------------------------------------------------------------------------------- C05
def c05_checks(c, delays, stim, n, opts_w, opts_l):
    """8-valued logic simulation of the same 0/1/R/F stimulus predicts init/final and hazard-free constants"""
    from kyupy.logic_sim import LogicSim
    W = WD.K()
    out = []
    sn = evaln.s_nodes(c)
    codes = np.zeros((len(sn), n), dtype=np.int64)
    for i, ls in stim.items():
        for j, (init, times) in enumerate(ls):
            fin = init ^ (len(times) & 1)
            codes[i, j] = fin | (init << 1) | ((init ^ fin) << 2)
    try:
        ws = WD.run(c, delays, stim, n, opts_w, 16)
        ls_ = LogicSim(c, sims=n, m=8, **opts_l)
        ls_.s[0] = logic_drv.pack(codes)
        ls_.s_to_c(); ls_.c_prop(); ls_.c_to_s()
    except Exception as e:  # noqa
        return [('exception', repr(e))]
    got8 = logic_drv.unpack(np.asarray(ls_.s[1]), n)
    s = np.asarray(ws.s)
    for i, node in enumerate(sn):
        if len(node.ins) == 0 or node.ins[0] is None:
            continue
        for j in range(n):
            v = int(got8[i, j])
            f, ini, act = v & 1, (v >> 1) & 1, (v >> 2) & 1
            if not act and f != ini:
                continue        # X / - cannot occur for 0/1/R/F stimuli; ignore
            if int(s[3, i, j]) != ini or int(s[6, i, j]) != f:
                out.append(('init-final', f'{node.name} lane {j}: timing sim init/final {int(s[3, i, j])}/{int(s[6, i, j])}, 8-valued logic sim gives {ini}/{f} (code {v})'))
                return out
            if not act and (s[4, i, j] < W.TMAX or s[5, i, j] > W.TMIN):
                out.append(('hazard-free-constant', f'{node.name} lane {j}: 8-valued logic sim reports the plain constant {f} but the waveform has transitions (EAT {s[4, i, j]}, LST {s[5, i, j]})'))
                return out
    return out


def run_c05(args):
    c, delays, stim = _load(args)
    v = c05_checks(c, delays, stim, args['n'], args['opts'], args['opts_l'])
    return {'reproduced': bool(v), 'violated': v[:3]}


def part_c05(tier, seed):
    b = BoundedPart('C05-8valued-predicts-timing', ['kyupy.logic_sim.LogicSim(m=8)', 'kyupy.wave_sim.WaveSim'],
                    'circuit space x delay arrays x stimuli over {0,1,R,F} with arbitrary transition times x option settings of both simulators: captured init/final equal the '
                    'ini/fin components of the 8-valued result; plain 0/1 there => no transition at all in the waveform (EAT = TMAX, LST = TMIN); distinct = (circuit, options)',
                    f'exhaustive-small family + {60 if tier == "quick" else 1200} seeded circuits')
    for c, sig in wave_circuits(tier, seed):
        rng = random.Random(sseed(('c05', str(sig), seed)) & 0xfffffff)
        for rep in range(2 if tier == 'quick' else 4):
            ow = WD.OPT_SETS[rng.randrange(4)] if rep else WD.OPT_SETS[0]
            ol = WD.OPT_SETS[rng.randrange(4)] if rep else WD.OPT_SETS[0]
            n = rng.randrange(1, 6)
            delays = WD.make_delays(rng, c, zero_fork_inputs=ow['strip_forks'])
            stim = WD.make_stim(rng, c, n, max_trans=1)
            args = replay_args(c, delays, stim, n, ow, 16, opts_l=ol)
            b.case((G.describe(c)['nodes'], G.describe(c)['lines'], str(ow), str(ol)), True, sample={'circuit': str(sig), 'wave_options': ow, 'logic_options': ol})
            for clause, msg in c05_checks(c, delays, stim, n, ow, ol):
                b.violation(f'bounded:C05:{clause}', f'{clause} on {sig} wave {ow} logic {ol}: {msg}', 'bounded.wave_parts:run_c05', args,
                            function='kyupy.wave_sim.WaveSim / kyupy.logic_sim.LogicSim')
    return b


# ------------------------------------------------------------------------------------------------------------- C06
def fork_port_circuit(rng):
    """ports are forks, as produced by the bench parser"""
    from kyupy.circuit import Circuit, Node, Line
    c = Circuit('forkports')
    a, b_, o = Node(c, 'a'), Node(c, 'b'), Node(c, 'o')
    for n in (a, b_, o):
        c.io_nodes.append(n)
    g = Node(c, 'g', rng.choice(['NAND2', 'XOR2', 'OR2']))
    Line(c, a, (g, 0)); Line(c, b_, (g, 1))
    g2 = Node(c, 'g2', 'INV1')
    Line(c, a, g2)
    g3 = Node(c, 'g3', 'AND2')
    Line(c, g, (g3, 0)); Line(c, g2, (g3, 1))
    Line(c, g3, o)
    return c


def c06_checks(c, delays3, stim, n, rng, quick=True):
    """delays3: (3, lines, 2, 2) -- three datasets"""
    from kyupy.logic_sim import LogicSim
    W = WD.K()
    out = []
    d0 = delays3[0:1]
    rows = (3, 4, 5, 6, 7, 10)
    try:
        base = WD.run(c, d0, stim, n, WD.OPT_SETS[0], 16)
    except Exception as e:  # noqa
        return [('exception:base', repr(e))]
    bs = WD.summary(base, rows)
    for opts in WD.OPT_SETS:
        for cuda in (False, True):
            if not opts['c_reuse'] and not opts['strip_forks'] and not cuda:
                continue
            tag = ','.join([k for k, v in opts.items() if v] + (['cuda'] if cuda else [])) or 'plain'
            try:
                s2 = WD.run(c, d0, stim, n, opts, 16, cuda=cuda)
            except Exception as e:  # noqa
                out.append((f'exception:{tag}', repr(e)))
                continue
            if not np.array_equal(bs, WD.summary(s2, rows)):
                out.append((f'options:{tag}', 'port-level results s[3..7], s[10] differ from the plain configuration'))
            if cuda and not opts['c_reuse'] and not opts['strip_forks'] and not np.array_equal(np.asarray(base.c), np.asarray(s2.c)):
                out.append((f'options:{tag}:c', 'signal memory differs between the CPU and the GPU-kernel code path'))
    # more lanes allocated
    try:
        s3 = WD.run(c, d0, stim, n + 3, WD.OPT_SETS[0], 16)
        if not np.array_equal(bs, WD.summary(s3, rows)[:, :, :n]):
            out.append(('lanes:allocated', 'results change when more parallel simulations are allocated'))
        perm = list(range(n))
        rng.shuffle(perm)
        s4 = WD.run(c, d0, stim, n, WD.OPT_SETS[0], 16, lanes=perm)
        if not np.array_equal(bs, WD.summary(s4, rows)[:, :, perm]):
            out.append(('lanes:position', f'results depend on the lane a stimulus occupies (permutation {perm})'))
        # c_prop(sims=k)
        k = rng.randrange(1, n + 1)
        s5 = WD.new_sim(c, d0, n, WD.OPT_SETS[0], 16)
        WD.apply_stim(s5, stim)
        before = np.asarray(s5.c).copy()
        s5.c_prop(sims=k)
        if not np.array_equal(np.asarray(s5.c)[:, :k], np.asarray(base.c)[:, :k]):
            out.append(('lanes:first-k', f'c_prop(sims={k}): the first k lanes differ from the full run'))
        if not np.array_equal(np.asarray(s5.c)[:, k:], before[:, k:]):
            out.append(('lanes:first-k', f'c_prop(sims={k}): lanes >= k were touched'))
    except Exception as e:  # noqa
        out.append(('exception:lanes', repr(e)))
    # delay dataset selection
    try:
        alone = [WD.summary(WD.run(c, delays3[d:d + 1], stim, n, WD.OPT_SETS[0], 16), rows) for d in range(3)]
        for cuda in (False, True):
            for d in range(3):
                ctl = np.zeros((2, n), dtype=np.int32)           # mode 0: seed selects the dataset globally
                sg = WD.run(c, delays3, stim, n, WD.OPT_SETS[0], 16, simctl=ctl, prop_kw={'seed': d}, cuda=cuda)
                if not np.array_equal(WD.summary(sg, rows), alone[d]):
                    out.append(('dataset:global' + (':cuda' if cuda else ''), f'global selection of dataset {d} differs from simulating with that dataset alone'))
            ctl = np.zeros((2, n), dtype=np.int32)
            ctl[1] = 1
            pick = [rng.randrange(3) for _ in range(n)]
            ctl[0] = pick
            sp = WD.run(c, delays3, stim, n, WD.OPT_SETS[0], 16, simctl=ctl, cuda=cuda)
            got = WD.summary(sp, rows)
            for j in range(n):
                if not np.array_equal(got[:, :, j], alone[pick[j]][:, :, j]):
                    out.append(('dataset:per-sim' + (':cuda' if cuda else ''), f'lane {j} with dataset {pick[j]} differs from simulating with that dataset alone'))
                    break
    except Exception as e:  # noqa
        out.append(('exception:dataset', repr(e)))
    # mode 2 (the default): seed and simctl_int[0] pick a dataset per evaluated gate.  Whatever is picked, the result of a lane may
    # depend only on its stimulus, its own simctl_int[0] and the seed -- not on its position, the batch size or the code path --
    # and with identical datasets it is the result of that dataset alone.
    try:
        lane_seeds = [rng.randrange(4) for _ in range(n)]
        pseed = rng.randrange(1, 50)

        def ctl2(ls):
            ctl = np.zeros((2, len(ls)), dtype=np.int32)
            ctl[1] = 2
            ctl[0] = ls
            return ctl
        r0 = WD.run(c, delays3, stim, n, WD.OPT_SETS[0], 16, simctl=ctl2(lane_seeds), prop_kw={'seed': pseed})
        g0 = WD.summary(r0, rows)
        r1 = WD.run(c, delays3, stim, n, WD.OPT_SETS[0], 16, simctl=ctl2(lane_seeds), prop_kw={'seed': pseed}, cuda=True)
        if not np.array_equal(g0, WD.summary(r1, rows)):
            out.append(('dataset:random:cuda', 'random dataset selection differs between the CPU and the GPU-kernel code path'))
        perm = list(range(n))
        rng.shuffle(perm)
        ls_p = [0] * n
        for j, pj in enumerate(perm):
            ls_p[pj] = lane_seeds[j]
        r2 = WD.run(c, delays3, stim, n, WD.OPT_SETS[0], 16, simctl=ctl2(ls_p), prop_kw={'seed': pseed}, lanes=perm)
        if not np.array_equal(g0, WD.summary(r2, rows)[:, :, perm]):
            out.append(('dataset:random:lane-position', f'with random dataset selection the result of a lane depends on its position (permutation {perm})'))
        r3 = WD.run(c, delays3, stim, n + 3, WD.OPT_SETS[0], 16, simctl=ctl2(lane_seeds + [0, 0, 0]), prop_kw={'seed': pseed})
        if not np.array_equal(g0, WD.summary(r3, rows)[:, :, :n]):
            out.append(('dataset:random:allocated', 'with random dataset selection results change when more parallel simulations are allocated'))
        same3 = np.repeat(delays3[1:2], 3, axis=0)
        r4 = WD.run(c, same3, stim, n, WD.OPT_SETS[0], 16, simctl=ctl2(lane_seeds), prop_kw={'seed': pseed})
        if not np.array_equal(WD.summary(r4, rows), alone[1]):
            out.append(('dataset:random:identical-datasets', 'random selection among three identical datasets differs from simulating with that dataset alone'))
    except Exception as e:  # noqa
        out.append(('exception:dataset-random', repr(e)))
    # state transfer on both code paths
    try:
        sa = WD.run(c, d0, stim, n, WD.OPT_SETS[0], 16)
        sb = WD.run(c, d0, stim, n, WD.OPT_SETS[0], 16, cuda=True)
        sa.s_ppo_to_ppi(time=1.5)
        sb.s_ppo_to_ppi(time=1.5)
        if not np.array_equal(np.asarray(sa.s)[:3], np.asarray(sb.s)[:3]):
            out.append(('state-transfer:cpu-vs-gpu', 's[0..2] after s_ppo_to_ppi differ between WaveSim and WaveSimCuda'))
    except Exception as e:  # noqa
        out.append(('exception:state-transfer', repr(e)))
    # LogicSim options
    try:
        sn = evaln.s_nodes(c)
        codes = np.array([[rng.choice([0, 3]) for _ in range(n)] for _ in sn], dtype=np.int64).reshape(len(sn), n)
        ref = None
        for opts in WD.OPT_SETS:
            for m in (2, 8):
                ls = LogicSim(c, sims=n, m=m, **opts)
                ls.s[0] = logic_drv.pack(codes)
                ls.s_to_c(); ls.c_prop(); ls.c_to_s()
                r = np.asarray(ls.s[1]).copy()
                if opts is WD.OPT_SETS[0]:
                    ref = ref or {}
                    ref[m] = r
                elif not np.array_equal(ref[m], r):
                    out.append((f'logic-options:m={m}:' + ','.join(k for k, v in opts.items() if v), 'LogicSim.s[1] differs from the plain configuration'))
    except Exception as e:  # noqa
        out.append(('exception:logic-options', repr(e)))
    return out


def run_c06(args):
    c, delays, stim = _load(args)
    v = c06_checks(c, delays, stim, args['n'], random.Random(args['rseed']))
    return {'reproduced': bool(v), 'violated': v[:6]}


def part_c06(tier, seed):
    b = BoundedPart('C06-option-lane-codepath-invariance', ['kyupy.wave_sim.WaveSim', 'kyupy.wave_sim.WaveSimCuda', 'kyupy.logic_sim.LogicSim', 'kyupy.sim.SimOps.__init__'],
                    'circuit space (incl. circuits whose ports are forks, as the bench parser builds them) x stimuli x {c_reuse} x {strip_forks (zero delay on fork inputs)} x '
                    '{WaveSim, WaveSimCuda}: s[3..7], s[10] bit-identical to the plain run (and c for CPU vs GPU); n vs n+3 allocated lanes; a random lane permutation; '
                    'c_prop(sims=k) for random k; three delay datasets selected globally / per simulation vs simulating with that dataset alone; s_ppo_to_ppi on both classes; '
                    'LogicSim(m=2,8) over the four option sets; distinct = circuit', f'exhaustive-small family (sampled 1 in 4) + {40 if tier == "quick" else 800} seeded circuits')
    k = 0
    cases = []
    for c, sig in wave_circuits(tier, seed, nrand_quick=40, nrand_thorough=800):
        k += 1
        if sig[0] == 'single' and k % (4 if tier == 'quick' else 1):
            continue
        cases.append((c, sig))
    for r in range(3):
        cases.append((fork_port_circuit(random.Random(seed + r)), ('fork-ports', r)))
    for c, sig in cases:
        rng = random.Random(sseed(('c06', str(sig), seed)) & 0xfffffff)
        n = rng.randrange(2, 5)
        delays3 = WD.make_delays(rng, c, n_datasets=3, zero_fork_inputs=True)
        stim = WD.make_stim(rng, c, n, max_trans=1)
        rseed = rng.randrange(1 << 30)
        args = replay_args(c, delays3, stim, n, {}, 16, rseed=rseed)
        b.case((G.describe(c)['nodes'], G.describe(c)['lines']), True, sample={'circuit': str(sig), 'lanes': n})
        for clause, msg in c06_checks(c, delays3, stim, n, random.Random(rseed)):
            b.violation(f'bounded:C06:{clause}', f'{clause} on {sig}: {msg}', 'bounded.wave_parts:run_c06', args, function='kyupy.wave_sim / kyupy.sim')
    return b


# ------------------------------------------------------------------------------------------------------------- C07
def scratch_rows(sim):
    cl, cc = np.asarray(sim.c_locs), np.asarray(sim.c_caps)
    rows = set()
    for x in (sim.tmp_idx, sim.tmp2_idx):
        rows |= set(range(int(cl[x]), int(cl[x]) + int(cc[x])))
    return sorted(rows)


def c07_checks(c, delays, stim, n, opts, caps, a_ctrl, rng, nperm=3):
    """any order of the ops inside a level, and any order of the (sim, op) threads of the mock GPU, gives bit-identical
    signal memories (scratch slot of dangling gates excluded), port results and accumulators"""
    W = WD.K()
    import kyupy
    out = []
    try:
        base = WD.run(c, delays, stim, n, opts, caps, a_ctrl=a_ctrl)
    except Exception as e:  # noqa
        return [('exception', repr(e))]
    keep = [r for r in range(base.c.shape[0]) if r not in set(scratch_rows(base))]
    ref = (np.asarray(base.c)[keep].copy(), np.asarray(base.s)[3:].copy(), np.asarray(base.abuf).copy())
    starts, stops = list(base.level_starts), list(base.level_stops)
    for rep in range(nperm):
        sim = WD.new_sim(c, delays, n, opts, caps, a_ctrl)
        ops = np.asarray(sim.ops).copy()
        for a, b_ in zip(starts, stops):
            idx = list(range(a, b_))
            if rep == 0:
                idx.reverse()
            else:
                rng.shuffle(idx)
            ops[a:b_] = ops[idx]
        sim.ops = ops
        WD.apply_stim(sim, stim)
        sim.c_prop()
        sim.c_to_s()
        got = (np.asarray(sim.c)[keep], np.asarray(sim.s)[3:], np.asarray(sim.abuf))
        for nm, x, y in zip(('signal memory c', 'port results s', 'accumulators abuf'), ref, got):
            if not np.array_equal(x, y):
                out.append(('level-permutation', f'{nm} differs after permuting the operations inside the levels (repetition {rep})'))
                return out
    # thread orders of the mock GPU: WaveSimCuda.c_prop itself is run with a launcher that executes the threads of every
    # launch in a shuffled order (so a launch that spans more than one level is exposed, too)
    try:
        g = WD.new_sim(c, delays, n, opts, caps, a_ctrl, cuda=True)
        WD.apply_stim(g, stim)
        cu = kyupy.cuda
        orig = W.wave_eval_gpu

        class Shuffled:
            def __getitem__(self, item):
                grid_dim, block_dim = item

                def inner(*args, **kwargs):
                    threads = [(x, y) for x in range(grid_dim[0] * block_dim[0]) for y in range(grid_dim[1] * block_dim[1])]
                    rng.shuffle(threads)
                    for x, y in threads:
                        cu.x, cu.y = x, y
                        orig(*args, **kwargs)
                return inner
        W.wave_eval_gpu = Shuffled()
        try:
            g.c_prop()
        finally:
            W.wave_eval_gpu = orig
        g.c_to_s()
        got = (np.asarray(g.c)[keep], np.asarray(g.s)[3:], np.asarray(g.abuf))
        cpu_s = ref[1].copy()
        for nm, x, y in zip(('signal memory c', 'port results s', 'accumulators abuf'), (ref[0], cpu_s, ref[2]), got):
            if nm.startswith('port'):
                x, y = x[[0, 1, 2, 3, 4, 7]], y[[0, 1, 2, 3, 4, 7]]
            if not np.array_equal(x, y):
                out.append(('thread-order', f'{nm} differs when the threads of every GPU kernel launch run in a shuffled order'))
                break
    except Exception as e:  # noqa
        out.append(('exception:gpu-threads', repr(e)))
    return out


def run_c07(args):
    c, delays, stim = _load(args)
    a_ctrl = np.array(args['a_ctrl'], dtype=np.int32) if args.get('a_ctrl') is not None else None
    v = c07_checks(c, delays, stim, args['n'], args['opts'], args['caps'], a_ctrl, random.Random(args['rseed']))
    return {'reproduced': bool(v), 'violated': v[:4]}


def make_actrl(rng, c, nacc=3):
    a = np.zeros((len(c.lines) + 3, 3), dtype=np.int32)
    a[:, 0] = -1
    for l in range(len(c.lines)):
        if rng.random() < 0.7:
            a[l] = (rng.randrange(nacc), rng.randrange(-3, 6), rng.randrange(-3, 6))
    return a


def part_c07(tier, seed):
    b = BoundedPart('C07-level-schedule-permutations', ['kyupy.wave_sim.WaveSim.c_prop', 'kyupy.wave_sim.wave_eval_gpu', 'kyupy.sim.SimOps.__init__ (levelisation, release set)'],
                    'circuit space x 4 option sets x capacities x accumulation tables: ops of every level reversed and twice randomly permuted, and all (sim, op) threads of every '
                    'level of the GPU kernel run in a shuffled order; c (without the scratch slot of gates that have no output line), s[3..] and abuf compared bit by bit '
                    'with the unpermuted CPU run; distinct = (circuit, options); non-trivial = some level has >= 2 ops',
                    f'exhaustive-small family (sampled) + {40 if tier == "quick" else 800} seeded circuits')
    k = 0
    for c, sig in wave_circuits(tier, seed, nrand_quick=40, nrand_thorough=800, max_gates=14):
        k += 1
        if sig[0] == 'single' and k % (6 if tier == 'quick' else 2):
            continue
        rng = random.Random(sseed(('c07', str(sig), seed)) & 0xfffffff)
        for opts in (WD.OPT_SETS if tier == 'thorough' else [WD.OPT_SETS[rng.randrange(4)], WD.OPT_SETS[1]]):
            n = rng.randrange(1, 4)
            delays = WD.make_delays(rng, c, zero_fork_inputs=opts['strip_forks'])
            stim = WD.make_stim(rng, c, n, max_trans=2)
            caps = caps_choice(rng, c)
            a_ctrl = make_actrl(rng, c)
            rseed = rng.randrange(1 << 30)
            args = replay_args(c, delays, stim, n, opts, caps, a_ctrl=a_ctrl.tolist(), rseed=rseed)
            try:
                probe = WD.new_sim(c, delays, n, opts, caps, a_ctrl)
                wide = any(b_ - a > 1 for a, b_ in zip(probe.level_starts, probe.level_stops))
            except Exception:  # noqa
                wide = False
            b.case((G.describe(c)['nodes'], G.describe(c)['lines'], str(opts)), wide, sample={'circuit': str(sig), 'options': opts})
            for clause, msg in c07_checks(c, delays, stim, n, opts, caps, a_ctrl, random.Random(rseed)):
                b.violation(f'bounded:C07:{clause}', f'{clause} on {sig} {opts}: {msg}', 'bounded.wave_parts:run_c07', args, function='kyupy.sim.SimOps.__init__ / kyupy.wave_sim')
    return b


# ------------------------------------------------------------------------------------------------------------- C13
def c13_checks(c, delays, stim, n, opts, caps, a_ctrl, T, cuda):
    W = WD.K()
    out = []
    try:
        sim = WD.run(c, delays, stim, n, opts, caps, a_ctrl=a_ctrl, cuda=cuda, capture_kw={'time': T} if T is not None else None)
    except Exception as e:  # noqa
        return [('exception' + (':cuda' if cuda else ''), repr(e))]
    s = np.asarray(sim.s)
    cl, cc = np.asarray(sim.c_locs), np.asarray(sim.c_caps)
    sn = evaln.s_nodes(c)
    big = None
    # call-site precondition of the capture: the output slot of a port / state element is the region (location AND capacity) of the line it captures
    for i, node in enumerate(sn):
        if len(node.ins) > 0 and node.ins[0] is not None:
            l = node.ins[0].index
            if (int(cl[sim.ppo_offset + i]), int(cc[sim.ppo_offset + i])) != (int(cl[l]), int(cc[l])):
                out.append(('capture-requires:output-slot-is-the-captured-region', f'{node.name}: output slot ({int(cl[sim.ppo_offset + i])},{int(cc[sim.ppo_offset + i])}), captured line {l} at ({int(cl[l])},{int(cc[l])})'))
                return out
    # ... and the region of a captured line is the region its waveform is written to (a fan-out branch aliases its stem exactly: memory-map clauses M1 / M3 / M4)
    try:
        from . import map_drv
        capl = caps if not isinstance(caps, int) else [caps] * (len(c.lines) + 3)
        for cl_, m_ in map_drv.check_map(sim, c, bool(opts.get('strip_forks')), bool(opts.get('c_reuse')), capl, 4, scratch=False):
            if cl_.startswith('M3') or cl_.startswith('M4') or cl_.startswith('M1'):
                out.append((f'capture-requires:{cl_}', m_))
                return out
    except Exception as e:  # noqa
        out.append(('capture-requires:exception', repr(e)))
        return out
    for i, node in enumerate(sn):
        if len(node.ins) == 0 or node.ins[0] is None:
            continue
        x = sim.ppo_offset + i
        for lane in range(n):
            w = WD.read_wave(sim, int(cl[x]), int(cc[x]), lane)
            if w is None:
                out.append(('capture:wellformed', f'{node.name} lane {lane}: output waveform has no terminator'))
                return out
            init, eat, lst, fin, acc, val, ovl = WD.capture_oracle(w[0], w[1], T)
            got = (int(s[3, i, lane]), float(s[4, i, lane]), float(s[5, i, lane]), int(s[6, i, lane]), float(s[7, i, lane]), int(s[10, i, lane]))
            want = (init, float(np.float32(eat)), float(np.float32(lst)), fin, float(val), ovl)
            if got != want:
                out.append(('capture:summary', f'{node.name} lane {lane}: s[3,4,5,6,7,10] = {got}, waveform {w[0]} (terminator {w[1]}) encodes {want} at capture time {T}'))
                return out
            if not cuda and int(s[8, i, lane]) != val:
                out.append(('capture:value-at-T', f'{node.name} lane {lane}: sampled value {int(s[8, i, lane])}, value just before T is {val}'))
                return out
            if ovl == 0 and not opts.get('c_reuse'):
                if big is None:
                    big = WD.run(c, delays, stim, n, opts, 64, a_ctrl=a_ctrl)
                wb = WD.read_wave(big, int(big.c_locs[big.ppo_offset + i]), int(big.c_caps[big.ppo_offset + i]), lane)
                if wb is None or wb[0] != w[0]:
                    out.append(('overflow-indicator', f'{node.name} lane {lane}: overflow indicator clear but waveform {w[0]} differs from the unlimited-capacity waveform {wb and wb[0]}'))
                    return out
    # accumulated weighted switching activity
    if a_ctrl is not None and not opts.get('c_reuse'):
        # the accumulator and the weights of a signal are those the caller's table gives for *that line* (not what the op list happens to carry)
        act = np.asarray(a_ctrl)
        outs_ = [int(op[1]) for op in np.asarray(sim.ops)]
        nacc = (max(int(act[o][0]) for o in outs_) + 1) if outs_ else 0          # accumulators of lines that are produced by an op
        want = np.zeros((max(nacc, 1), n), dtype=np.int64)
        for op in np.asarray(sim.ops):
            o = int(op[1])
            acc_i, wr, wf = (int(v) for v in act[o])
            if acc_i < 0:
                continue
            for lane in range(n):
                w = WD.read_wave(sim, int(cl[o]), int(cc[o]), lane)
                if w is None:
                    continue
                ent = w[0]
                nrise = sum(1 for k, t in enumerate(ent) if k % 2 == 0 and t > W.TMIN)
                nfall = sum(1 for k, t in enumerate(ent) if k % 2 == 1)
                want[acc_i, lane] += nrise * wr + nfall * wf
        got = np.asarray(sim.abuf)
        if nacc > 0 and (got.shape[0] < nacc or not np.array_equal(got[:nacc].astype(np.int64), want[:nacc])):
            out.append(('activity' + (':cuda' if cuda else ''), f'abuf = {got.tolist()}, weighted transition count of the produced waveforms = {want.tolist()}'))
    # history: a propagation restricted to the first k lanes, then a capture at another time -- every lane's summary (also of the lanes that were not propagated
    # again) is what the waveform in memory encodes at *that* capture time
    if not cuda and n >= 2 and not out:
        try:
            finite = sorted({float(t) for i, node in enumerate(sn) if len(node.ins) > 0 and node.ins[0] is not None for lane in range(n)
                             for t in (WD.read_wave(sim, int(cl[sim.ppo_offset + i]), int(cc[sim.ppo_offset + i]), lane) or ([], 0))[0] if t > float(W.TMIN)})
            T2 = (finite[len(finite) // 2] + 0.125) if finite else 1.0
            if T is not None and T2 == T:
                T2 += 0.25
            sim.c_prop(sims=max(1, n // 2))
            sim.c_to_s(time=T2)
            s2 = np.asarray(sim.s)
            for i, node in enumerate(sn):
                if len(node.ins) == 0 or node.ins[0] is None:
                    continue
                x = sim.ppo_offset + i
                for lane in range(n):
                    w = WD.read_wave(sim, int(cl[x]), int(cc[x]), lane)
                    if w is None:
                        continue
                    init, eat, lst, fin, acc, val, ovl = WD.capture_oracle(w[0], w[1], T2)
                    got = (int(s2[3, i, lane]), int(s2[6, i, lane]), float(s2[7, i, lane]), int(s2[8, i, lane]), int(s2[10, i, lane]))
                    want = (init, fin, float(val), val, ovl)
                    if got != want:
                        out.append(('capture:after-partial-propagation', f'{node.name} lane {lane} after c_prop(sims={max(1, n // 2)}) and c_to_s(time={T2}): s[3,6,7,8,10] = {got}, '
                                                                         f'the waveform in memory {w[0]} encodes {want}'))
                        return out
        except Exception as e:  # noqa
            out.append(('capture:after-partial-propagation:exception', repr(e)))
            return out
    return out


def run_c13(args):
    c, delays, stim = _load(args)
    a_ctrl = np.array(args['a_ctrl'], dtype=np.int32) if args.get('a_ctrl') is not None else None
    v = c13_checks(c, delays, stim, args['n'], args['opts'], args['caps'], a_ctrl, args.get('T'), args.get('cuda', False))
    return {'reproduced': bool(v), 'violated': v[:4]}


def part_c13(tier, seed):
    b = BoundedPart('C13-capture-summary-and-activity', ['kyupy.wave_sim.wave_capture_cpu', 'kyupy.wave_sim.wave_capture_gpu', 'kyupy.wave_sim.level_eval_cpu', 'kyupy.wave_sim.wave_eval_gpu'],
                    'circuit space x delays x stimuli (0..3 transitions) x capacities {4, 8, 16, mixed} x capture time (default TMAX or a finite grid time) x accumulation tables '
                    '(shared accumulators, negative weights) x {WaveSim, WaveSimCuda}: s[3..7], s[10] equal the folds over the output waveform, value at T = value just before T, '
                    'overflow indicator clear => waveform identical to capacity 64, abuf = weighted rise/fall counts of the produced waveforms; distinct = (circuit, class, T kind)',
                    f'exhaustive-small family + {60 if tier == "quick" else 1200} seeded circuits')
    for c, sig in wave_circuits(tier, seed):
        rng = random.Random(sseed(('c13', str(sig), seed)) & 0xfffffff)
        for cuda in (False, True):
            opts = dict(c_reuse=False, strip_forks=rng.random() < 0.3)
            n = rng.randrange(1, 4)
            delays = WD.make_delays(rng, c, zero_fork_inputs=opts['strip_forks'])
            stim = WD.make_stim(rng, c, n, max_trans=rng.randrange(0, 4))
            caps = caps_choice(rng, c)
            a_ctrl = make_actrl(rng, c) if rng.random() < 0.7 else None
            T = rng.choice([None, rng.randrange(0, 80) / 4])
            args = replay_args(c, delays, stim, n, opts, caps, a_ctrl=None if a_ctrl is None else a_ctrl.tolist(), T=T, cuda=cuda)
            b.case((G.describe(c)['nodes'], G.describe(c)['lines'], cuda, T is None), True, sample={'circuit': str(sig), 'cuda': cuda, 'T': T, 'caps': caps if isinstance(caps, int) else 'mixed'})
            for clause, msg in c13_checks(c, delays, stim, n, opts, caps, a_ctrl, T, cuda):
                b.violation(f'bounded:C13:{clause}', f'{clause} on {sig}: {msg}', 'bounded.wave_parts:run_c13', args, function='kyupy.wave_sim')
    # overflow propagation: a gate with capacity 4 toggles four times (its last pulse is dropped, terminator TMAX_OVL); a second gate is enabled only
    # during a window.  Whenever the second gate's indicator is clear its waveform must be the unlimited one -- in particular when its own waveform is empty.
    for c, sig in overflow_circuits():
        rng = random.Random(sseed(('c13-ovl', str(sig), seed)) & 0xfffffff)
        for cuda in (False, True):
            n = 6
            stim = {}
            base = [1.0, 2.0, 3.0, 4.0]
            for i in range(4):
                stim[i] = [(0, [base[i] + (0.25 * rng.randrange(0, 3) if lane >= 4 else 0.0)]) for lane in range(n)]
            wins = [(2.5, 5.0), (2.75, 3.75), (0.5, 1.5), (3.25, 6.0), (2.25 + 0.25 * rng.randrange(0, 6), 4.0 + 0.25 * rng.randrange(0, 8)), (0.25 * rng.randrange(1, 12), 3.0 + 0.25 * rng.randrange(0, 12))]
            stim[4] = [(0, [u1, max(u2, u1 + 0.25)]) for u1, u2 in wins]
            delays = np.full((1, len(c.lines), 2, 2), 0.25, dtype=np.float32)
            opts = dict(c_reuse=False, strip_forks=False)
            args = replay_args(c, delays, stim, n, opts, 4, a_ctrl=None, T=None, cuda=cuda)
            b.case((str(sig), cuda), True, sample={'circuit': str(sig), 'cuda': cuda, 'caps': 4})
            for clause, msg in c13_checks(c, delays, stim, n, opts, 4, None, None, cuda):
                b.violation(f'bounded:C13:{clause}', f'{clause} on {sig}: {msg}', 'bounded.wave_parts:run_c13', args, function='kyupy.wave_sim._wave_eval')
    return b


def overflow_circuits(second=('AND2', 'NOR2', 'OR2')):
    from kyupy.circuit import Circuit, Node, Line
    for second in second:
        c = Circuit('ovlprop_' + second)
        ins = [Node(c, nm, 'input') for nm in ('a', 'b', 'c', 'd', 'y')]
        o = Node(c, 'o', 'output')
        for n_ in ins + [o]:
            c.io_nodes.append(n_)
        x = Node(c, 'x', 'XOR4')
        for k in range(4):
            Line(c, ins[k], (x, k))
        g = Node(c, 'g', second)
        Line(c, x, (g, 0))
        Line(c, ins[4], (g, 1))
        Line(c, g, o)
        yield c, ('special', 'overflow-propagation-' + second)
