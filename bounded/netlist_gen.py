"""Spec-side netlist model, Verilog / bench / SDF printers and ground-truth evaluation for the round-trip contracts of the
parsers (C11, C14).  The model is the ghost ground truth: text = print(N, style); the parser's result must agree with N."""
import itertools
import random
import re

from spec import datasheet

DFF_CELLS = {'NANGATE': ('DFF_X1', 'D', 'CK'), 'NANGATE_ZN': ('DFF_X1', 'D', 'CK'), 'GSC180': ('DFFX1', 'D', 'CK'),
             'SAED32': ('DFFX1_RVT', 'D', 'CLK'), 'SAED90': ('DFFX1', 'D', 'CLK')}


def family_cells(lib, libname, rng, max_inputs=4):
    """cells of the library that have a datasheet function: name -> (inputs, outputs, functions)"""
    out = {}
    for name, (impl, pins) in lib.cells.items():
        ins = [p for p, (i, o) in sorted(pins.items(), key=lambda kv: kv[1][0]) if not o]
        outs = [p for p, (i, o) in sorted(pins.items(), key=lambda kv: kv[1][0]) if o]
        fam = datasheet.family(name, ins, outs)
        if fam and '__error__' not in fam and 1 <= len(ins) <= max_inputs:
            out[name] = (ins, outs, fam)
    # one representative per base name
    reps = {}
    for name in sorted(out):
        reps.setdefault(datasheet.strip_drive(name), name)
    return {n: out[n] for n in reps.values()}


class Netlist:
    """ports: [(name, 'input'|'output', range or None)], range = (left, right) as written;
    insts: [(instname, celltype, {pin: bit or const})]; assigns: [(target bit, source bit or const)]; wires: [bit names]
    A *bit* is 'name' or 'name[i]'; a const is "1'b0" / "1'b1"."""

    def __init__(self, name, libname):
        self.name, self.libname = name, libname
        self.ports, self.insts, self.assigns, self.wires = [], [], [], []
        self.cells = {}

    def port_bits(self, p):
        name, d, rng = p
        if rng is None:
            return [name]
        l, r = rng
        idx = range(l, r + 1) if l <= r else range(l, r - 1, -1)
        return [f'{name}[{i}]' for i in idx]

    def inputs(self):
        return [b for p in self.ports if p[1] == 'input' for b in self.port_bits(p)]

    def outputs(self):
        return [b for p in self.ports if p[1] == 'output' for b in self.port_bits(p)]

    def io_order(self):
        return [b for p in self.ports for b in self.port_bits(p)]

    def state_insts(self):
        dff = DFF_CELLS[self.libname][0]
        return [i for i in self.insts if i[1] == dff]

    # ---------------------------------------------------------------- ground truth
    def evaluate(self, inputs, state):
        """inputs: bit -> bool; state: instname -> bool.  -> (values of all output bits, next-state inputs per flip-flop)"""
        dff, dpin, ckpin = DFF_CELLS[self.libname]
        drivers = {}
        for inst, ct, pins in self.insts:
            ins, outs, fam = self.cells[ct] if ct != dff else ([dpin, ckpin], ['Q', 'QN'], None)
            for o in outs:
                if o in pins and pins[o] is not None:
                    drivers[pins[o]] = ('inst', inst, ct, o)
        for t, s in self.assigns:
            drivers[t] = ('assign', s)
        memo = {}

        def val(bit):
            if bit in ("1'b0", "1'b1"):
                return bit == "1'b1"
            if bit in memo:
                return memo[bit]
            if bit in inputs:
                r = inputs[bit]
            elif bit not in drivers:
                r = False
            else:
                d = drivers[bit]
                if d[0] == 'assign':
                    r = val(d[1])
                else:
                    _, inst, ct, o = d
                    pins = next(i[2] for i in self.insts if i[0] == inst)
                    if ct == dff:
                        r = state[inst] if o == 'Q' else (not state[inst])
                    else:
                        ins, outs, fam = self.cells[ct]
                        env = {p: (val(pins[p]) if pins.get(p) is not None else False) for p in ins}
                        r = bool(fam[o](env))
            memo[bit] = r
            return r
        outs = {b: val(b) for b in self.outputs()}
        nxt = {}
        for inst, ct, pins in self.state_insts():
            nxt[inst] = val(pins[dpin]) if pins.get(dpin) is not None else False
        return outs, nxt


def random_netlist(rng, lib, libname, n_inst=6, with_buses=True, with_assigns=True, with_consts=True, with_ff=True, escaped=True):
    N = Netlist(f'top{rng.randrange(1000)}', libname)
    N.cells = family_cells(lib, libname, rng, max_inputs=6)
    cellnames = sorted(N.cells)
    dff, dpin, ckpin = DFF_CELLS[libname]
    sources = []
    # input ports
    n_in = rng.randrange(2, 4)
    for k in range(n_in):
        if with_buses and rng.random() < 0.5:
            w = rng.randrange(2, 4)
            lo = rng.randrange(0, 3)
            rg = (lo + w - 1, lo) if rng.random() < 0.6 else (lo, lo + w - 1)
            p = (f'a{k}', 'input', rg)
        else:
            nm = f'in{k}'
            if escaped and rng.random() < 0.25:
                nm = f'in{k}.x$'
            p = (nm, 'input', None)
        N.ports.append(p)
        sources += N.port_bits(p)
    if with_ff:
        N.ports.append(('clk', 'input', None))
    wire_id = 0

    def new_wire():
        nonlocal wire_id
        wire_id += 1
        nm = f'n{wire_id}'
        if escaped and rng.random() < 0.15:
            nm = f'n{wire_id}[{rng.randrange(4)}].q'        # an escaped identifier that looks like a bit select
        N.wires.append(nm)
        return nm
    for k in range(n_inst):
        if with_ff and rng.random() < 0.2:
            q = new_wire()
            pins = {dpin: rng.choice(sources), ckpin: 'clk', 'Q': q}
            if rng.random() < 0.5:
                qn = new_wire()
                pins['QN'] = qn
                sources.append(qn)
            N.insts.append((f'ff{k}', dff, pins))
            sources.append(q)
            continue
        ct = rng.choice(cellnames)
        ins, outs, fam = N.cells[ct]
        pins = {}
        for p in ins:
            r = rng.random()
            if with_consts and r < 0.1:
                pins[p] = rng.choice(["1'b0", "1'b1"])
            elif r < 0.15:
                pins[p] = None            # unconnected
            else:
                pins[p] = rng.choice(sources)
        # a multi-output cell may leave some (not all) of its outputs open, the first one included
        open_outs = set()
        if len(outs) >= 2 and rng.random() < 0.4:
            open_outs = set(rng.sample(outs, rng.randrange(1, len(outs))))
        for o in outs:
            if o in open_outs:
                pins[o] = None
                continue
            w = new_wire()
            pins[o] = w
            sources.append(w)
        N.insts.append((f'u{k}', ct, pins))
    # outputs: buses and scalars driven through assigns or directly by renaming a wire
    internal = [w for w in N.wires]
    n_out = rng.randrange(1, 4)
    for k in range(n_out):
        if with_buses and with_assigns and rng.random() < 0.4:
            w = rng.randrange(2, 4)
            rg = (w - 1, 0) if rng.random() < 0.5 else (0, w - 1)
            p = (f'y{k}', 'output', rg)
            N.ports.append(p)
            bits = N.port_bits(p)
            srcs = [rng.choice(sources + (["1'b1", "1'b0"] if with_consts else [])) for _ in bits]
            in_buses = [q for q in N.ports if q[1] == 'input' and q[2] is not None and len(N.port_bits(q)) <= len(bits)]
            if in_buses and rng.random() < 0.4:
                # a whole input bus feeds a run of the output bus (so that the renderer can name it bare inside a concatenation)
                qb = N.port_bits(rng.choice(in_buses))
                at = rng.randrange(0, len(bits) - len(qb) + 1)
                srcs[at:at + len(qb)] = qb
            if with_consts and len(bits) >= 2 and rng.random() < 0.35:
                # two or three adjacent constant bits that are not all equal (rendered as one sized constant: bit order matters)
                k_ = rng.randrange(2, min(3, len(bits)) + 1)
                at = rng.randrange(0, len(bits) - k_ + 1)
                vals = [rng.choice('01') for _ in range(k_)]
                if len(set(vals)) == 1:
                    vals[rng.randrange(k_)] = '1' if vals[0] == '0' else '0'
                srcs[at:at + k_] = [f"1'b{v}" for v in vals]
            for b, src in zip(bits, srcs):
                N.assigns.append((b, src))
        else:
            p = (f'out{k}', 'output', None)
            N.ports.append(p)
            if with_assigns and rng.random() < 0.5 or not internal:
                N.assigns.append((p[0], rng.choice(sources)))
            else:
                # the output is driven directly by an instance pin: rename one internal wire
                w = internal.pop(rng.randrange(len(internal)))
                rename(N, w, p[0])
                sources = [p[0] if s == w else s for s in sources]
    rng.shuffle(N.ports) if rng.random() < 0.5 else None
    return N


def rename(N, old, new):
    N.wires = [w for w in N.wires if w != old]
    N.insts = [(i, ct, {p: (new if s == old else s) for p, s in pins.items()}) for i, ct, pins in N.insts]
    N.assigns = [((new if t == old else t), (new if s == old else s)) for t, s in N.assigns]


# ------------------------------------------------------------------------------------------------------------ printers
def vname(n):
    """Verilog spelling of a name: escaped identifier where needed"""
    m = re.fullmatch(r'([A-Za-z_][A-Za-z0-9_]*)(\[\d+\])?', n)
    if m:
        return n
    return '\\' + n + ' '


def iname(n):
    """instance names: plain identifier or escaped (a bracket suffix is NOT a bit select here)"""
    return n if re.fullmatch(r'[A-Za-z_][A-Za-z0-9_]*', n) else '\\' + n + ' '


def render_verilog(N, rng, positional_prob=0.2):
    global CONST_STYLE
    CONST_STYLE = rng
    lines = []
    cmt = lambda: rng.choice(['', '', ' // a comment', ' /* block\n comment */', ' (* keep = 1 *)', ' /* banner **/', ' /** doc **/', ' /* a * b / c */', ' /***/'])
    decl = []
    for name, d, rg in N.ports:
        r = f'[{rg[0]}:{rg[1]}] ' if rg else ''
        w = rng.random()
        if w < 0.15:
            decl.append(f'wire {r}{vname(name)};')           # a port may also be declared as a wire, before ...
        decl.append(f'{d} {r}{vname(name)};{cmt()}')
        if 0.15 <= w < 0.3:
            decl.append(f'wire {r}{vname(name)};')           # ... or after its direction declaration
    if rng.random() < 0.5:
        rng.shuffle(decl)            # the body may declare the ports in any order: port positions follow the header's port list
    # group some scalar wires into one declaration
    ws = list(N.wires)
    rng.shuffle(ws)
    while ws:
        k = rng.randrange(1, 4)
        grp, ws = ws[:k], ws[k:]
        decl.append('wire ' + ', '.join(vname(w) for w in grp) + ';')
    body = []
    for inst, ct, pins in N.insts:
        ins = [p for p in pins]
        conn = []
        for p in ins:
            s = pins[p]
            if s is None:
                if rng.random() < 0.5:
                    conn.append(f'.{p}()')
                continue
            conn.append(f'.{p}({vname(s) if not s.startswith("1\'b") else vs(s)})')
        rng.shuffle(conn)
        body.append(f'{ct} {iname(inst)} ({", ".join(conn)});{cmt()}')
    # assigns: sometimes merged into a concatenation
    asg = list(N.assigns)
    # all bits of an output bus in one statement: the bus named bare on the left (alone or inside a concatenation), whole buses named
    # bare on the right wherever a run of sources is exactly one bus in declared order
    buses = {q[0]: N.port_bits(q) for q in N.ports if q[2] is not None}

    def rhs(srcs):
        out, k = [], 0
        while k < len(srcs):
            run = 0
            while k + run < len(srcs) and srcs[k + run].startswith("1'b"):
                run += 1
            if run >= 2 and rng.random() < 0.7:
                bits_ = ''.join(x[3] for x in srcs[k:k + run])            # MSB (leftmost) first
                v = int(bits_, 2)
                big = v + (1 << run) * rng.randrange(1, 4)
                out.append(rng.choice([f"{run}'b{bits_}", f"{run}'d{v}", f"{run}'h{v:x}", f"{run}'d{big}", f"{run}'H{big:X}"]))
                k += run
                continue
            hit = next((nm for nm, bb in buses.items() if srcs[k:k + len(bb)] == bb), None)
            if hit is not None and rng.random() < 0.7:
                out.append(vname(hit))
                k += len(buses[hit])
            else:
                out.append(vs(srcs[k]))
                k += 1
        return out
    for q in N.ports:
        if q[1] != 'output' or q[2] is None or rng.random() < 0.4:
            continue
        bits = N.port_bits(q)
        mine = [(t, s_) for t, s_ in asg if t in bits]
        if [t for t, _ in mine] != bits:
            continue
        asg = [(t, s_) for t, s_ in asg if t not in bits]
        srcs = [s_ for _, s_ in mine]
        lhs = vname(q[0])
        scal = [(t, s_) for t, s_ in asg if '[' not in t]
        if scal and rng.random() < 0.35:
            t0, s0 = scal[0]
            asg.remove((t0, s0))
            if rng.random() < 0.5:
                lhs, srcs = '{' + vs(t0) + ', ' + lhs + '}', [s0] + srcs
            else:
                lhs, srcs = '{' + lhs + ', ' + vs(t0) + '}', srcs + [s0]
        r = rhs(srcs)
        body.append(f'assign {lhs} = ' + (r[0] if len(r) == 1 else '{' + ', '.join(r) + '}') + ';')
    while asg:
        if len(asg) >= 2 and rng.random() < 0.4:
            (t1, s1), (t2, s2) = asg[0], asg[1]
            asg = asg[2:]
            if s1.startswith("1'b") and s2.startswith("1'b") and rng.random() < 0.7:
                v = int(s1[3]) * 2 + int(s2[3])             # a 2-bit sized constant, MSB first
                big = v + 4 * rng.randrange(1, 4)            # a value that does not fit the size is truncated to its low bits
                src = rng.choice([f"2'b{s1[3]}{s2[3]}", f"2'd{v}", f"2'h{v}", f"2'd{big}", f"2'h{big:x}", f"2'b1{s1[3]}{s2[3]}"])
            else:
                src = '{' + vs(s1) + ', ' + vs(s2) + '}'
            body.append('assign {' + vs(t1) + ', ' + vs(t2) + '} = ' + src + ';')
        else:
            (t, s), asg = asg[0], asg[1:]
            body.append(f'assign {vs(t)} = {vs(s)};')
    rng.shuffle(body)
    if rng.random() < 0.5:
        stmts = decl + body
    else:
        stmts = decl[:]
        for b in body:
            stmts.insert(rng.randrange(len(decl), len(stmts) + 1), b)
    plist = ', '.join(vname(p[0]) for p in N.ports)
    return f'// generated\nmodule {N.name} ({plist});\n  ' + '\n  '.join(stmts) + '\nendmodule\n'


CONST_STYLE = None


def vs(bit):
    if bit.startswith("1'b"):
        if CONST_STYLE is not None:
            v = bit[3]
            big = int(v) + 2 * CONST_STYLE.randrange(1, 8)
            return CONST_STYLE.choice([bit, f"1'h{v}", f"1'd{v}", f"1'B{v}", f"1'H{v}", f"1'd{big}", f"1'h{big:x}"])
        return bit
    m = re.fullmatch(r'([A-Za-z_][A-Za-z0-9_]*)\[(\d+)\]', bit)
    if m:
        return f'{m.group(1)}[{m.group(2)}]'
    return vname(bit)
