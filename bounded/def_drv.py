"""C20 bounded stand-in: round-trip contract of the DEF reader with a spec-side DEF printer (ghost design D).
ensures units, die area, rows, tracks, via definitions, components, pins and net connectivity equal D; routed geometry with
'*' resolved to the previous point's coordinate, via arrays expanded to all n x m positions, per-layer wire and via listings
for special and regular nets alike."""
import random

from vk.common import sseed, BoundedPart

ORIENTS = ['N', 'S', 'E', 'W', 'FN', 'FS', 'FE', 'FW']


def gen_design(rng):
    D = {'name': f'top{rng.randrange(100)}', 'units': 1000 * rng.randrange(1, 5), 'diearea': [(0, 0), (rng.randrange(100, 999), rng.randrange(100, 999))]}
    if rng.random() < 0.4:
        # rectilinear die outline given as a polygon (DIEAREA takes any number of points)
        w, h = D['diearea'][1]
        D['diearea'] = [(0, 0), (0, h), (w // 2, h), (w // 2, h // 2), (w, h // 2), (w, 0)][:rng.choice([4, 6])]
    D['rows'] = []
    for i in range(rng.randrange(0, 4)):
        horiz = rng.random() < 0.7
        single = rng.random() < 0.25                     # a row with a single site still has a step
        D['rows'].append({'name': f'ROW_{i}', 'site': 'unit', 'x': rng.randrange(0, 50), 'y': 10 * i, 'orient': rng.choice(['N', 'FS']),
                          'nx': (1 if single else rng.randrange(2, 60)) if horiz else 1, 'ny': 1 if horiz else (1 if single else rng.randrange(2, 60)),
                          'sx': rng.randrange(1, 400) if horiz else 0, 'sy': 0 if horiz else rng.randrange(1, 400)})
    D['tracks'] = [{'dir': rng.choice('XY'), 'start': rng.randrange(0, 20), 'num': rng.randrange(1, 40), 'step': rng.randrange(1, 9), 'layer': f'M{rng.randrange(1, 4)}'}
                   for _ in range(rng.randrange(0, 4))]
    D['vias'] = [{'name': f'via{i}', 'viarule': f'rule{i}', 'cutsize': [rng.randrange(1, 9), rng.randrange(1, 9)], 'layers': ['M1', 'V1', 'M2'],
                  'cutspacing': [rng.randrange(1, 5), rng.randrange(1, 5)], 'enclosure': [rng.randrange(0, 4) for _ in range(4)],
                  'rowcol': [rng.randrange(1, 4), rng.randrange(1, 4)] if rng.random() < 0.6 else None} for i in range(rng.randrange(0, 4))]
    D['components'] = [{'name': f'u{i}' if rng.random() < 0.8 else f'blk/u{i}[{i}]', 'kind': rng.choice(['AND2_X1', 'INV_X1', 'DFF_X1']),
                        'at': (rng.randrange(0, 900), rng.randrange(0, 900)), 'orient': rng.choice(ORIENTS)} for i in range(rng.randrange(0, 6))]
    D['pins'] = [{'name': f'p{i}', 'net': f'p{i}', 'direction': rng.choice(['INPUT', 'OUTPUT']), 'use': 'SIGNAL', 'layer': ('M2', (0, 0), (rng.randrange(1, 9), rng.randrange(1, 9))),
                  'at': (rng.randrange(0, 900), rng.randrange(0, 900)), 'orient': rng.choice(ORIENTS)} for i in range(rng.randrange(0, 5))]
    for p_ in D['pins']:
        # a pin with several ports (power / wide pins): one placement per `+ PORT` section, all of them listed in file order
        if rng.random() < 0.3:
            p_['ports'] = [((rng.choice(['M4', 'M5']), (0, 0), (rng.randrange(1, 9), rng.randrange(1, 9))), (rng.randrange(0, 900), rng.randrange(0, 900)), rng.choice(ORIENTS))
                           for _ in range(rng.randrange(2, 4))]
    vianames = [v['name'] for v in D['vias']] or ['via_x']

    def route(special):
        segs = []
        for _ in range(rng.randrange(1, 4)):
            coord = lambda: rng.choice([0, 0, rng.randrange(0, 500), rng.randrange(1, 500)])     # explicit zeros are frequent in real DEF files
            x, y = coord(), coord()
            ext = lambda: (rng.randrange(1, 60),) if rng.random() < 0.2 else ()          # optional extension value of a routing point, kept as written
            pts = [('pt', x, y) + ext()]
            cx, cy = x, y
            for _ in range(rng.randrange(1, 5)):
                r = rng.random()
                if r < 0.35:
                    if special and rng.random() < 0.4:
                        pts.append(('via', rng.choice(vianames), ('do', rng.randrange(1, 4), rng.randrange(1, 4), rng.choice([1, -1, 1]) * rng.randrange(1, 20), rng.choice([1, 1, -1]) * rng.randrange(1, 20))))
                    else:
                        pts.append(('via', rng.choice(vianames), None if special else rng.choice([None, 'N', 'FS', 'W'])))
                else:
                    nx, ny = coord(), coord()
                    star = rng.choice(['x', 'y', None, None])
                    if star == 'x':
                        pts.append(('pt', None, ny) + ext())
                        cy = ny
                    elif star == 'y':
                        pts.append(('pt', nx, None) + ext())
                        cx = nx
                    else:
                        pts.append(('pt', nx, ny) + ext())
                        cx, cy = nx, ny
            if not any(p[0] == 'pt' for p in pts[1:]) and not any(p[0] == 'via' for p in pts[1:]):
                pts.append(('pt', x + 10, None))
            segs.append({'layer': f'M{rng.randrange(1, 4)}', 'width': rng.randrange(10, 200) if special else None, 'pts': pts})
        return segs
    comps = [c['name'] for c in D['components']] or ['u_none']
    D['specialnets'] = [{'name': nm, 'pins': [('*', nm)], 'use': 'POWER' if nm == 'VDD' else 'GROUND', 'kind': rng.choice(['ROUTED', 'ROUTED', 'FIXED']), 'route': route(True)}
                        for nm in rng.sample(['VDD', 'VSS'], rng.randrange(0, 3))]
    D['nets'] = [{'name': f'n{i}', 'pins': [(rng.choice(comps), rng.choice(['A1', 'ZN', 'Q'])) for _ in range(rng.randrange(1, 4))], 'use': 'SIGNAL',
                  'kind': rng.choice(['ROUTED', 'ROUTED', 'FIXED', None]), 'route': None} for i in range(rng.randrange(0, 5))]
    for n in D['nets']:
        if n['kind']:
            n['route'] = route(False)
    return D


def pt(p):
    return f"( {'*' if p[1] is None else p[1]} {'*' if p[2] is None else p[2]}{' ' + str(p[3]) if len(p) > 3 else ''} )"


def render(D, rng):
    t = ['# generated', 'VERSION 5.8 ;', 'DIVIDERCHAR "/" ;', 'BUSBITCHARS "[]" ;', f'DESIGN {D["name"]} ;', f'UNITS DISTANCE MICRONS {D["units"]} ;',
         'DIEAREA ' + ' '.join(f'( {x} {y} )' for x, y in D['diearea']) + ' ;']
    for r in D['rows']:
        t.append(f'ROW {r["name"]} {r["site"]} {r["x"]} {r["y"]} {r["orient"]} DO {r["nx"]} BY {r["ny"]} STEP {r["sx"]} {r["sy"]} ;')
    for k in D['tracks']:
        t.append(f'TRACKS {k["dir"]} {k["start"]} DO {k["num"]} STEP {k["step"]} LAYER {k["layer"]} ;')
    if D['vias'] or rng.random() < 0.5:
        t.append(f'VIAS {len(D["vias"])} ;')
        for v in D['vias']:
            s = f'- {v["name"]} + VIARULE {v["viarule"]} + CUTSIZE {v["cutsize"][0]} {v["cutsize"][1]} + LAYERS {" ".join(v["layers"])} + CUTSPACING {v["cutspacing"][0]} {v["cutspacing"][1]} ' \
                f'+ ENCLOSURE {" ".join(map(str, v["enclosure"]))}'
            if v['rowcol']:
                s += f' + ROWCOL {v["rowcol"][0]} {v["rowcol"][1]}'
            t.append(s + ' ;')
        t.append('END VIAS')
    if D['components'] or rng.random() < 0.5:
        t.append(f'COMPONENTS {len(D["components"])} ;')
        for c in D['components']:
            t.append(f'- {c["name"]} {c["kind"]} + PLACED ( {c["at"][0]} {c["at"][1]} ) {c["orient"]} ;')
        t.append('END COMPONENTS')
    if D['pins'] or rng.random() < 0.5:
        t.append(f'PINS {len(D["pins"])} ;')
        for p in D['pins']:
            l = p['layer']
            if p.get('ports'):
                t.append(f'- {p["name"]} + NET {p["net"]} + SPECIAL + DIRECTION {p["direction"]} + USE {p["use"]}' + ''.join(
                    f'\n  + PORT\n    + LAYER {pl[0]} ( {pl[1][0]} {pl[1][1]} ) ( {pl[2][0]} {pl[2][1]} )\n    + PLACED ( {at[0]} {at[1]} ) {o}' for pl, at, o in p['ports']) + ' ;')
                continue
            t.append(f'- {p["name"]} + NET {p["net"]} + DIRECTION {p["direction"]} + USE {p["use"]} + LAYER {l[0]} ( {l[1][0]} {l[1][1]} ) ( {l[2][0]} {l[2][1]} ) '
                     f'+ PLACED ( {p["at"][0]} {p["at"][1]} ) {p["orient"]} ;')
        t.append('END PINS')

    def route_text(n, special):
        segs = []
        for s in n['route']:
            parts = [s['layer']] + ([str(s['width'])] if special else [])
            if special and rng.random() < 0.4:
                parts.append('+ SHAPE STRIPE')
            for p in s['pts']:
                if p[0] == 'pt':
                    parts.append(pt(p))
                elif special:
                    parts.append(p[1] + (f' DO {p[2][1]} BY {p[2][2]} STEP {p[2][3]} {p[2][4]}' if p[2] else ''))
                else:
                    parts.append(p[1] + (f' {p[2]}' if p[2] else ''))
            segs.append(' '.join(parts))
        return f'+ {n["kind"]} ' + '\n    NEW '.join(segs)
    if D['specialnets'] or rng.random() < 0.3:
        t.append(f'SPECIALNETS {len(D["specialnets"])} ;')
        for n in D['specialnets']:
            t.append(f'- {n["name"]} ' + ' '.join(f'( {a} {b} )' for a, b in n['pins']) + f' + USE {n["use"]}\n  ' + route_text(n, True) + ' ;')
        t.append('END SPECIALNETS')
    if D['nets'] or rng.random() < 0.3:
        t.append(f'NETS {len(D["nets"])} ;')
        for n in D['nets']:
            t.append(f'- {n["name"]} ' + ' '.join(f'( {a} {b} )' for a, b in n['pins']) + f' + USE {n["use"]}' + ('\n  ' + route_text(n, False) if n['kind'] else '') + ' ;')
        t.append('END NETS')
    t.append('END DESIGN')
    return '\n'.join(t) + '\n'


def geometry(n):
    """ghost per-layer wires and per-type vias of a net: '*' inherits the previous point's value, arrays expanded"""
    wires, vias = {}, {}
    for s in n['route'] or []:
        x, y = s['pts'][0][1], s['pts'][0][2]
        pts = [(x, y) + tuple(s['pts'][0][3:])]
        for p in s['pts'][1:]:
            if p[0] == 'pt':
                x = x if p[1] is None else p[1]
                y = y if p[2] is None else p[2]
                pts.append((x, y) + tuple(p[3:]))
            else:
                if isinstance(p[2], tuple):
                    _, nx, ny, sx, sy = p[2]
                    for i in range(nx):
                        for j in range(ny):
                            vias.setdefault(p[1], []).append((x + i * sx, y + j * sy, 'N'))
                else:
                    vias.setdefault(p[1], []).append((x, y, p[2] or 'N'))
        if len(pts) > 1:
            wires.setdefault(s['layer'], []).append((s['width'], pts))
    return wires, vias


def check(D, text):
    from kyupy import def_file
    out = []
    try:
        f = def_file.parse(text)
    except Exception as e:  # noqa
        return [('parse:exception', repr(e))]

    def eq(clause, got, want):
        if got != want:
            out.append((clause, f'{got!r} != {want!r}'))
    try:
        eq('design', getattr(f, 'design', None), D['name'])
        eq('units', [tuple(u) for u in f.units], [('DISTANCE', 'MICRONS', D['units'])])
        eq('diearea', [tuple(p) for p in getattr(f, 'diearea', [])], D['diearea'])
        eq('rows', f.rows, [(r['name'], r['site'], (r['x'], r['y']), r['orient'], max(r['nx'], r['ny']), max(r['sx'], r['sy'])) for r in D['rows']])
        eq('tracks', f.tracks, [(k['dir'], k['start'], k['num'], k['step'], k['layer']) for k in D['tracks']])
        eq('vias:names', sorted(f.vias), sorted(v['name'] for v in D['vias']))
        for v in D['vias']:
            g = f.vias.get(v['name'])
            if g is None:
                continue
            eq(f'vias:attributes', (g.viarule, list(g.cutsize), list(g.layers), list(g.cutspacing), list(g.enclosure), list(g.rowcol)),
               (v['viarule'], v['cutsize'], v['layers'], v['cutspacing'], v['enclosure'], v['rowcol'] or [1, 1]))
        eq('components', dict(f.components), {c['name']: (c['kind'], c['at'], c['orient']) for c in D['components']})
        eq('pins:names', sorted(f.pins), sorted(p['name'] for p in D['pins']))
        for p in D['pins']:
            g = f.pins.get(p['name'])
            if g is None:
                continue
            if p.get('ports'):
                eq('pins:multi-port', (g.net, g.direction, g.use, [tuple(x) for x in g.points]), (p['net'], p['direction'], p['use'], [(at[0], at[1], o) for _, at, o in p['ports']]))
                continue
            eq('pins:attributes', (g.net, g.direction, g.use, [g.layer[0]] + [tuple(x) for x in g.layer[1:]], [tuple(x) for x in g.points]),
               (p['net'], p['direction'], p['use'], [p['layer'][0], p['layer'][1], p['layer'][2]], [(p['at'][0], p['at'][1], p['orient'])]))
    except Exception as e:  # noqa
        out.append(('sections:exception', repr(e)))
    for sec, kind in (('specialnets', 'special'), ('nets', 'regular')):
        got = getattr(f, sec)
        if sorted(got) != sorted(n['name'] for n in D[sec]):
            out.append((f'{sec}:names', f'{sorted(got)} != {sorted(n["name"] for n in D[sec])}'))
            continue
        for n in D[sec]:
            g = got[n['name']]
            try:
                if [tuple(p) for p in g.pins] != n['pins'] or getattr(g, 'use', None) != n['use']:
                    out.append((f'{sec}:connectivity', f'{n["name"]}: pins {g.pins} use {getattr(g, "use", None)} != {n["pins"]} {n["use"]}'))
                wires, vias = geometry(n)
                gw = {k: [(w, [tuple(p) for p in pts]) for w, pts in v] for k, v in dict(g.wires).items()}
                if gw != wires:
                    star = any(None in p for v in gw.values() for w, pts in v for p in pts)
                    out.append((f'geometry:{kind}:wires' + (':wildcard-unresolved' if star else ''), f'net {n["name"]}: wires {gw} != {wires}'))
                gv = {k: [tuple(x) for x in v] for k, v in dict(g.vias).items()}
                if gv != vias:
                    out.append((f'geometry:{kind}:vias', f'net {n["name"]}: vias {gv} != {vias}'))
            except Exception as e:  # noqa
                out.append((f'geometry:{kind}:exception:{type(e).__name__}' + (':unrouted' if not n['kind'] else f':{n["kind"].lower()}'), f'net {n["name"]} ({n["kind"]}): {e!r}'))
    return out


def run_case(args):
    rng = random.Random(args['seed'])
    D = gen_design(rng)
    text = render(D, rng)
    v = check(D, text)
    return {'reproduced': bool(v), 'violated': v[:5], 'def': text[:1500]}


def part(tier, seed):
    b = BoundedPart('C20-def-round-trip', ['kyupy.def_file.parse', 'kyupy.def_file.DefTransformer.*', 'kyupy.def_file.DefWire.vias/wire_points', 'kyupy.def_file.DefNet.wires/vias'],
                    'seeded DEF designs (every section optional with 0-5 items; rows horizontal / vertical; tracks; via definitions with / without ROWCOL; components with '
                    'hierarchical / bus-bit names and all orientations; pins; special nets ROUTED / FIXED with widths, shapes, via arrays; regular nets unrouted / ROUTED / FIXED '
                    'with 1-3 segments, \'*\' in either coordinate, vias with / without orientation) printed by a spec-side printer: every extracted section equals the ghost '
                    'design; per-layer wires with wildcards resolved and per-type vias with arrays expanded for special and regular nets; distinct = case seed',
                    f'{200 if tier == "quick" else 4000} designs')
    for k in range(200 if tier == 'quick' else 4000):
        cs = sseed((seed, 'def', k))
        rng = random.Random(cs)
        D = gen_design(rng)
        text = render(D, rng)
        b.case(cs, bool(D['nets'] or D['specialnets']), sample={'seed': cs, 'def': text[:600]})
        for clause, msg in check(D, text):
            b.violation(f'bounded:C20:{clause}', f'design {cs}: {msg[:300]}', 'bounded.def_drv:run_case', {'seed': cs}, function='kyupy.def_file')
    return b
