"""Bounded stand-in for the circuit-level clauses of C03, C04, C05, C06, C07, C13: the real WaveSim / WaveSimCuda is run on
generated circuits, delay arrays, capacities and stimuli (dyadic time grid, so float32 arithmetic is exact) and checked
against spec-side oracles: the netlist oracle for initial/final values, static timing analysis for the arrival window,
waveform folds for the capture summary and the activity counts.  Bounded evidence only."""
import itertools
import random

import numpy as np

from spec import evaln, algebra as A
from vk.common import BoundedPart
from . import gen_circuits as G, logic_drv

OPT_SETS = [dict(c_reuse=r, strip_forks=s) for r in (False, True) for s in (False, True)]


def K():
    from kyupy import wave_sim as W
    return W


def make_delays(rng, c, n_datasets=1, polarity_independent=False, zero_fork_inputs=False, maxd=8):
    """delays[ds, line, in_pol, out_pol] >= 0 on the grid k/4"""
    nl = len(c.lines)
    d = np.zeros((n_datasets, nl, 2, 2), dtype=np.float32)
    for ds in range(n_datasets):
        for l in range(nl):
            if polarity_independent:
                d[ds, l] = rng.randrange(0, maxd) / 4
            else:
                for p in range(2):
                    for q in range(2):
                        d[ds, l, p, q] = rng.randrange(0, maxd) / 4
    if zero_fork_inputs:
        for l in c.lines:
            if l.reader.kind == '__fork__':
                d[:, l.index] = 0
    return d


def make_stim(rng, c, n, max_trans=1, t_lo=0, t_hi=12):
    """per (pseudo) input and lane: (initial value, [transition times strictly increasing on the grid k/4])"""
    sn = evaln.s_nodes(c)
    stim = {}
    for i, node in enumerate(sn):
        if len(node.outs) == 0:
            continue
        lanes = []
        for j in range(n):
            init = rng.randrange(2)
            k = min(rng.randrange(0, max_trans + 1), 3 - init)     # an input slot has capacity 4: [TMIN] + transitions + terminator
            times = sorted(rng.sample(range(t_lo * 4, t_hi * 4), k))
            lanes.append((init, [t / 4 for t in times]))
        stim[i] = lanes
    return stim


def apply_stim(sim, stim, shift=0.0, scale=1.0, lanes=None):
    """<= 1 transition: through s and s_to_c(); more: waveforms written directly into the input slots (capacity 4)"""
    W = K()
    n = sim.sims
    multi = any(len(t) > 1 for ls in stim.values() for _, t in ls)
    s = np.asarray(sim.s)
    for i, ls in stim.items():
        for j, (init, times) in enumerate(ls):
            lane = j if lanes is None else lanes[j]
            if lane >= n:
                continue
            fin = init ^ (len(times) & 1)
            s[0, i, lane] = init
            s[1, i, lane] = (times[0] * scale + shift) if times else 0.0
            s[2, i, lane] = fin
    if hasattr(sim.s, 'copy_to_host') or type(sim).__name__ == 'WaveSimCuda':
        sim.s[...] = s
    sim.s_to_c()
    if multi:
        c = sim.c
        for i, ls in stim.items():
            loc = int(sim.c_locs[sim.ppi_offset + i])
            if loc < 0:
                continue
            for j, (init, times) in enumerate(ls):
                lane = j if lanes is None else lanes[j]
                if lane >= n:
                    continue
                w = ([W.TMIN] if init else []) + [np.float32(t * scale + shift) for t in times]
                w = w[:3] + [W.TMAX]
                for k, v in enumerate(w):
                    c[loc + k, lane] = v


def read_wave(sim, loc, cap, lane):
    """-> (entries before the terminator, terminator) or None if malformed"""
    W = K()
    w = np.asarray(sim.c)[loc:loc + cap, lane]
    for k, t in enumerate(w):
        if t >= W.TMAX:
            return [float(x) for x in w[:k]], float(t)
    return None


def wave_abs(entries):
    W = K()
    init = 1 if entries and entries[0] <= W.TMIN else 0
    fin = len(entries) & 1
    finite = [t for t in entries if t > W.TMIN]
    return init, fin, finite


def line_oracle(c, stim, lane, which):
    """netlist oracle value (0/1) of every line for the initial ('init') or final ('final') input values"""
    assign = {}
    for i, ls in stim.items():
        init, times = ls[lane]
        v = init if which == 'init' else init ^ (len(times) & 1)
        assign[i] = (bool(v),)
    e = evaln.Eval(c, assign, 2)
    return {l.index: int(bool(e.line(l)[0])) for l in c.lines}, e


def sta_window(c, delays_ds, stim, lane, strip_forks=False):
    """earliest / latest possible transition time per line by static timing analysis (None = no transition possible)"""
    sn = evaln.s_nodes(c)
    sidx = evaln.Eval(c, {}, 2).sidx          # stimulus positions (a port fork with an input line is an output only)
    win = {}

    def node_window(n, pin):
        if id(n) in sidx:
            ls = stim.get(sidx[id(n)])
            if not ls or not ls[lane][1]:
                return None
            t = ls[lane][1]
            return (min(t), max(t))
        ins = [l for l in n.ins if l is not None]
        lo, hi = None, None
        for l in ins:
            w = line_window(l)
            if w is None:
                continue
            d = delays_ds[l.index]
            if strip_forks and n.kind == '__fork__':
                d = d * 0
            a, b = w[0] + float(d.min()), w[1] + float(d.max())
            lo = a if lo is None else min(lo, a)
            hi = b if hi is None else max(hi, b)
        return None if lo is None else (lo, hi)

    def line_window(l):
        if l.index not in win:
            win[l.index] = None
            win[l.index] = node_window(l.driver, l.driver_pin)
        return win[l.index]
    for l in c.lines:
        line_window(l)
    return win


def new_sim(c, delays, n, opts, caps=16, a_ctrl=None, cuda=False):
    W = K()
    cls = W.WaveSimCuda if cuda else W.WaveSim
    return cls(c, delays, sims=n, c_caps=caps, a_ctrl=a_ctrl, **opts)


def run(c, delays, stim, n, opts, caps=16, a_ctrl=None, cuda=False, prop_kw=None, simctl=None, shift=0.0, scale=1.0, lanes=None, capture_kw=None):
    sim = new_sim(c, delays * scale if scale != 1.0 else delays, n, opts, caps, a_ctrl, cuda)
    if simctl is not None:
        sim.simctl_int[...] = simctl
    apply_stim(sim, stim, shift, scale, lanes)
    sim.c_prop(**(prop_kw or {}))
    sim.c_to_s(**(capture_kw or {}))
    return sim


# ------------------------------------------------------------------------------------------------ per-property contracts
def check_values(sim, c, stim, n, opts, what=('wellformed', 'init', 'final', 'captured')):
    """C03: every line's waveform is well formed, starts at the Boolean function of the initial input values and ends (parity)
    at the Boolean function of the final ones; captured s[3], s[6] report the same"""
    W = K()
    out = []
    cl, cc = np.asarray(sim.c_locs), np.asarray(sim.c_caps)
    sn = evaln.s_nodes(c)
    for lane in range(n):
        oi, _ = line_oracle(c, stim, lane, 'init')
        of, _ = line_oracle(c, stim, lane, 'final')
        if not opts.get('c_reuse'):
            for l in c.lines:
                if cl[l.index] < 0:
                    continue
                w = read_wave(sim, int(cl[l.index]), int(cc[l.index]), lane)
                if w is None:
                    out.append(('wellformed', f'lane {lane} line {l.index}: no terminator inside the capacity'))
                    return out
                init, fin, finite = wave_abs(w[0])
                if any(t <= W.TMIN for t in w[0][1:]):
                    out.append(('wellformed', f'lane {lane} line {l.index}: TMIN after index 0: {w[0]}'))
                if init != oi[l.index]:
                    out.append(('init', f'lane {lane} line {l.index}: waveform starts at {init}, Boolean function of the initial inputs is {oi[l.index]}'))
                    return out
                if fin != of[l.index]:
                    out.append(('final', f'lane {lane} line {l.index}: waveform ends (parity) at {fin}, Boolean function of the final inputs is {of[l.index]} (waveform {w[0]})'))
                    return out
        s = np.asarray(sim.s)
        for i, node in enumerate(sn):
            if len(node.ins) > 0 and node.ins[0] is not None:
                li = node.ins[0].index
                if int(s[3, i, lane]) != oi[li] or int(s[6, i, lane]) != of[li]:
                    out.append(('captured', f'lane {lane} {node.name}: captured init/final {int(s[3, i, lane])}/{int(s[6, i, lane])}, expected {oi[li]}/{of[li]}'))
                    return out
    return out


def check_sta(sim, c, delays, stim, n, opts, dataset=0):
    """dataset: one index, or a list with the delay dataset of every lane"""
    W = K()
    out = []
    if opts.get('c_reuse'):
        return out
    cl, cc = np.asarray(sim.c_locs), np.asarray(sim.c_caps)
    for lane in range(n):
        ds = dataset[lane] if isinstance(dataset, (list, tuple)) else dataset
        win = sta_window(c, delays[ds], stim, lane, opts.get('strip_forks', False))
        for l in c.lines:
            if cl[l.index] < 0:
                continue
            w = read_wave(sim, int(cl[l.index]), int(cc[l.index]), lane)
            if w is None:
                continue
            _, _, finite = wave_abs(w[0])
            if finite and win[l.index] is None:
                out.append(('sta-window', f'lane {lane} line {l.index}: transitions {finite} although no input transition can reach it'))
                return out
            if finite and (min(finite) < win[l.index][0] or max(finite) > win[l.index][1]):
                out.append(('sta-window', f'lane {lane} line {l.index}: transitions {finite} outside the static-timing window {win[l.index]}'))
                return out
        # the captured earliest arrival s[4] / latest stabilisation s[5] of every output and state element lie inside the window of the captured line
        S = np.asarray(sim.s)
        for i, nd in enumerate(evaln.s_nodes(c)):
            if len(nd.ins) == 0 or nd.ins[0] is None or cl[nd.ins[0].index] < 0:
                continue
            li = nd.ins[0].index
            eat, lst = float(S[4, i, lane]), float(S[5, i, lane])
            has = eat < float(W.TMAX) or lst > float(W.TMIN)
            if has and (win[li] is None or (eat < float(W.TMAX) and eat < win[li][0]) or (lst > float(W.TMIN) and lst > win[li][1])):
                out.append(('sta-window:captured', f'lane {lane} {nd.name}: captured earliest arrival {eat} / latest stabilisation {lst} outside the static-timing window {win[li]} of line {li}'))
                return out
    return out


def all_waves(sim, c, n):
    cl, cc = np.asarray(sim.c_locs), np.asarray(sim.c_caps)
    res = {}
    for l in c.lines:
        if cl[l.index] < 0:
            continue
        for lane in range(n):
            res[(l.index, lane)] = read_wave(sim, int(cl[l.index]), int(cc[l.index]), lane)
    return res


def summary(sim, rows=(3, 4, 5, 6, 7, 10)):
    return np.asarray(sim.s)[list(rows)].copy()


def capture_oracle(entries, term, time=None):
    """(init, eat, lst, final, acc(sd=0)=val, val, ovl) from a waveform"""
    W = K()
    init, fin, finite = wave_abs(entries)
    eat = min(finite) if finite else float(W.TMAX)
    lst = max(finite) if finite else float(W.TMIN)
    T = float(W.TMAX) if time is None else time
    val = sum(1 for t in entries if t < T) & 1
    return init, eat, lst, fin, val, val, 1 if term == float(W.TMAX_OVL) else 0
