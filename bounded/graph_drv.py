"""C09 / C10 bounded stand-ins: the class invariant wf(circuit) as a runtime contract after every public edit operation over
edit histories, and function preservation of the transformations (copy, pickle, eliminate_1to1_forks, substitute,
resolve_tlib_cells) decided per instance by z3 over symbolic inputs through the spec evaluator."""
import itertools
import pickle
import random

import z3

from vk.common import BoundedPart
from spec import evaln, algebra as A
from pyvc.values import SBool
from . import gen_circuits as G


# ------------------------------------------------------------------------------------------------------------ wf
def wf(c):
    """-> list of violated clauses of the class invariant"""
    bad = []
    for i, n in enumerate(c.nodes):
        if n.index != i:
            bad.append(f'nodes[{i}].index == {n.index}')
        if n.circuit is not c:
            bad.append(f'node {n.name}.circuit is not the circuit')
    for i, l in enumerate(c.lines):
        if l.index != i:
            bad.append(f'lines[{i}].index == {l.index}')
    cells = {n.name: n for n in c.nodes if n.kind != '__fork__'}
    forks = {n.name: n for n in c.nodes if n.kind == '__fork__'}
    if set(c.cells) != set(cells) or any(c.cells[k] is not v for k, v in cells.items() if k in c.cells):
        bad.append(f'cells lookup {sorted(c.cells)} != cell nodes {sorted(cells)}')
    if set(c.forks) != set(forks) or any(c.forks[k] is not v for k, v in forks.items() if k in c.forks):
        bad.append(f'forks lookup {sorted(c.forks)} != fork nodes {sorted(forks)}')
    lineset = {id(l) for l in c.lines}
    refs = {}
    for n in c.nodes:
        for p, l in enumerate(n.ins):
            if l is not None:
                refs.setdefault(id(l), []).append(('in', n, p))
                if id(l) not in lineset:
                    bad.append(f'{n.name}.ins[{p}] references a line that is not in the circuit')
        for p, l in enumerate(n.outs):
            if l is not None:
                refs.setdefault(id(l), []).append(('out', n, p))
                if id(l) not in lineset:
                    bad.append(f'{n.name}.outs[{p}] references a line that is not in the circuit')
        if n.kind == '__fork__' and any(l is None for l in n.outs):
            bad.append(f'fork {n.name} has a gap in its outputs')
    nodeset = {id(n) for n in c.nodes}
    for l in c.lines:
        if id(l.driver) not in nodeset or id(l.reader) not in nodeset:
            bad.append(f'line {l.index} is connected to a node outside the circuit')
            continue
        want = sorted([('out', id(l.driver), l.driver_pin), ('in', id(l.reader), l.reader_pin)])
        got = sorted((k, id(n), p) for k, n, p in refs.get(id(l), []))
        if got != want:
            bad.append(f'line {l.index} ({l.driver.name}.{l.driver_pin}->{l.reader.name}.{l.reader_pin}) is referenced from '
                       f'{[(k, n.name, p) for k, n, p in refs.get(id(l), [])]}')
    st = c.stats
    if st.get('__node__') != len(c.nodes) or st.get('__line__') != len(c.lines) or st.get('__cell__') != len(cells) or \
            st.get('__fork__') != len(forks) or st.get('__io__') != len(c.io_nodes):
        bad.append(f'stats {st} do not match the containers')
    kinds = {}
    for n in cells.values():
        kinds[n.kind] = kinds.get(n.kind, 0) + 1
    for k, v in kinds.items():
        if st.get(k) != v:
            bad.append(f'stats[{k}] = {st.get(k)} but {v} such cells')
    return bad


def order_clause(names_before, t, n_nodes_before):
    """names/order of ports and state elements after a transformation.  -> None (unchanged) | clause suffix.
    One specific pattern gets its own clause (it is a recorded finding): the transformation removed nodes, ports are unchanged, and the only change is that
    state elements moved *forward* past others -- what Node.remove's documented 'the node with the highest index takes the index of the removed node' does
    when that node is a flip-flop or latch.  Anything else (lost / renamed / added elements, port order, any other permutation) is the generic clause."""
    after = snames(t)
    if after == names_before:
        return None
    n_io = len(t.io_nodes)
    if len(t.nodes) < n_nodes_before and sorted(after) == sorted(names_before) and after[:n_io] == names_before[:n_io]:
        sb, sa = names_before[n_io:], after[n_io:]
        if len(set(sb)) == len(sb):
            moved = {x for x in sb if sa.index(x) < sb.index(x)}
            if moved and [x for x in sb if x not in moved] == [x for x in sa if x not in moved]:
                return 'state-order:last-node-moved-into-freed-index'
    return 'port-and-state-names'


def ports_ok(c):
    """every port listed in io_nodes is (still) a node of the circuit"""
    for n in c.io_nodes:
        if n is None:
            continue
        if not (0 <= n.index < len(c.nodes)) or c.nodes[n.index] is not n or n.circuit is not c:
            return f'port {n.name} is listed in io_nodes but is not a node of the circuit any more'
    return None


KINDS = ['AND2', 'OR3', 'INV1', 'DFF', 'input', 'output', 'XOR2']


class History:
    """replays a list of abstract edit steps on a fresh circuit; steps refer to nodes / lines by position modulo the
    current container size, so every step list is a well-formed use of the API"""

    def __init__(self):
        from kyupy.circuit import Circuit
        self.c = Circuit('h')
        self.counter = 0

    def step(self, s):
        from kyupy.circuit import Node, Line
        c = self.c
        op = s[0]
        if op == 'cell':
            self.counter += 1
            # cells and forks live in separate name spaces: reuse the name of an existing fork now and then (bench style)
            free = [n for n in c.forks if n not in c.cells]
            name = free[s[1] % len(free)] if free and s[1] % 3 == 0 else f'n{self.counter}'
            Node(c, name, KINDS[s[1] % len(KINDS)])
        elif op == 'fork':
            self.counter += 1
            free = [n for n in c.cells if n not in c.forks]
            name = free[(s[1] if len(s) > 1 else 0) % len(free)] if free and (len(s) == 1 or s[1] % 2 == 0) else f'n{self.counter}'
            Node(c, name)
        elif op == 'line' and len(c.nodes) >= 2:
            d, r = c.nodes[s[1] % len(c.nodes)], c.nodes[s[2] % len(c.nodes)]
            if d is r or (r.kind == '__fork__' and any(l is not None for l in r.ins)):
                return False          # a fork has exactly one input
            Line(c, d, r)
        elif op == 'xline' and len(c.nodes) >= 2:
            d, r = c.nodes[s[1] % len(c.nodes)], c.nodes[s[2] % len(c.nodes)]
            if d is r or d.kind == '__fork__' or r.kind == '__fork__':
                return False
            dp, rp = s[3] % 3, s[4] % 3
            # explicit pins only on free positions
            if (dp < len(d.outs) and d.outs[dp] is not None) or (rp < len(r.ins) and r.ins[rp] is not None):
                return False
            Line(c, (d, dp), (r, rp))
        elif op == 'rmline' and len(c.lines) >= 1:
            c.lines[s[1] % len(c.lines)].remove()
        elif op == 'rmnode' and len(c.nodes) >= 1:
            n = c.nodes[s[1] % len(c.nodes)]
            if any(l is not None for l in list(n.ins) + list(n.outs)):
                return False          # nodes are removed after their lines
            if n in list(c.io_nodes):
                return False
            n.remove()
        elif op == 'io' and len(c.nodes) >= 1:
            n = c.nodes[s[1] % len(c.nodes)]
            if n not in list(c.io_nodes):
                c.io_nodes.append(n)
        elif op == 'copy':
            self.c = c.copy()
        elif op == 'pickle':
            self.c = pickle.loads(pickle.dumps(c))
        elif op == 'elim':
            # eliminate_1to1_forks requires forks to have an input (well-formed netlists)
            if any(n.kind == '__fork__' and n not in list(c.io_nodes) and len(n.outs) == 1 and (len(n.ins) == 0 or n.ins[0] is None) for n in c.nodes):
                return False
            c.eliminate_1to1_forks()
        else:
            return False
        return True


def run_history(args):
    h = History()
    watch = args.get('observe_at')
    if watch is not None:
        _ = h.c.stats
    for k, s in enumerate(args['steps']):
        try:
            done = h.step(tuple(s))
        except Exception as e:  # noqa
            return {'reproduced': True, 'observed': f'step {k} {s}: {e!r}'}
        if watch is not None and k not in watch:
            continue
        bad = wf(h.c)
        if bad:
            return {'reproduced': True, 'observed': f'after step {k} {s}: {bad[:3]}'}
    return {'reproduced': False}


def history_part(tier, seed):
    b = BoundedPart('C09-edit-histories', ['kyupy.circuit.Node.__init__/remove', 'kyupy.circuit.Line.__init__/remove', 'kyupy.circuit.IndexList.__delitem__',
                                           'kyupy.circuit.GrowingList', 'Circuit.copy/__getstate__/__setstate__/eliminate_1to1_forks/stats'],
                    'edit histories from the empty circuit over the public API (add cell / fork, implicit line, explicit line on free pins, remove line, remove disconnected node, '
                    'mark as port, copy, pickle round trip, eliminate 1:1 forks); wf (consecutive indices = positions, name lookups, every line referenced exactly from its '
                    'driver and reader pin, gap-free fork outputs, stats) after every step, and the same histories with wf / stats observed only at the start and at a few later points; exhaustive over a small alphabet up to a stated length, seeded long histories beyond; '
                    'distinct = history; non-trivial = contains a removal',
                    f'exhaustive length <= {4 if tier == "quick" else 5} over 12 moves; {300 if tier == "quick" else 5000} seeded histories of length <= 60')
    moves = [('cell', 0), ('cell', 3), ('fork',), ('line', 0, 1), ('line', 1, 2), ('line', 2, 0), ('xline', 0, 1, 1, 1), ('rmline', 0), ('rmline', 1), ('rmnode', 0),
             ('rmnode', 1), ('elim',)]
    maxlen = 4 if tier == 'quick' else 5
    prefix = [('cell', 0), ('fork',), ('cell', 2)]
    for n in range(1, maxlen + 1):
        for tail in itertools.product(moves, repeat=n):
            steps = prefix + list(tail)
            check_history(b, steps, exhaustive=True)
    rng = random.Random(seed)
    for k in range(300 if tier == 'quick' else 5000):
        steps = []
        for _ in range(rng.randrange(5, 60)):
            op = rng.choices(['cell', 'fork', 'line', 'xline', 'rmline', 'rmnode', 'io', 'copy', 'pickle', 'elim'], [6, 4, 10, 4, 5, 4, 2, 1, 1, 1])[0]
            steps.append((op,) + tuple(rng.randrange(0, 50) for _ in range(4)))
        check_history(b, steps)
        # the same history observed rarely: derived data (statistics) is read at the start and then only at a few later points, so that anything cached
        # across edits shows up
        pts = sorted(set([len(steps) - 1] + [rng.randrange(len(steps)) for _ in range(2)]))
        check_history(b, steps, observe_at=pts)
    for n in range(1, min(maxlen, 4) + 1):
        for tail in itertools.product(moves, repeat=n):
            steps = prefix + list(tail)
            check_history(b, steps, exhaustive=True, observe_at=[len(steps) - 1])
    return b


def check_history(b, steps, exhaustive=False, observe_at=None):
    h = History()
    nontrivial = False
    if observe_at is not None:
        _ = h.c.stats
    for k, s in enumerate(steps):
        try:
            done = h.step(s)
        except Exception as e:  # noqa
            b.case(tuple(steps[:k + 1]), True)
            b.violation(f'bounded:C09:exception:{s[0]}', f'history {steps[:k + 1]}: step {s} raised {e!r}', 'bounded.graph_drv:run_history',
                        {'steps': [list(x) for x in steps[:k + 1]]}, function='kyupy.circuit')
            return
        if done and s[0] in ('rmline', 'rmnode', 'elim'):
            nontrivial = True
        if observe_at is not None and k not in observe_at:
            continue
        bad = wf(h.c)
        if bad:
            b.case(tuple(steps[:k + 1]), True)
            args = {'steps': [list(x) for x in steps[:k + 1]]}
            if observe_at is not None:
                args['observe_at'] = [x for x in observe_at if x <= k]
            b.violation(f'bounded:C09:wf-after:{s[0]}' + (':observed-rarely' if observe_at is not None else ''), f'history {steps[:k + 1]}: after {s}: {bad[0]}',
                        'bounded.graph_drv:run_history', args, function='kyupy.circuit')
            return
    b.case(tuple(steps), nontrivial, sample={'steps': [list(s) for s in steps[:8]], 'length': len(steps)})


# ------------------------------------------------------------------------------------------------------------ C10 oracle
class HierEval(evaln.Eval):
    """netlist oracle for circuits that still contain library cells: a cell instance evaluates its implementation circuit
    (unconnected instance inputs read 0); a cell whose implementation holds a state element *is* that state element"""

    def __init__(self, circuit, assign_by_name, lib, m=2):
        self.lib = lib
        self.by_name = assign_by_name
        super().__init__(circuit, {}, m)
        self.impl_cache = {}

    def state_of(self, n):
        return self.by_name.get(n.name, evaln.zero(self.m))

    def impl_eval(self, n):
        if id(n) in self.impl_cache:
            return self.impl_cache[id(n)]
        impl, pins = self.lib.cells[n.kind]
        in_nodes = [x for x in impl.io_nodes if len(x.ins) == 0]
        assign = {}
        isn = evaln.s_nodes(impl)
        for j, x in enumerate(in_nodes):
            assign[isn.index(x)] = self.line(n.ins[j] if j < len(n.ins) else None)
        for k, x in enumerate(isn):
            if k >= len(impl.io_nodes):
                assign[k] = self.state_of(n)          # the cell's own state element carries the instance's state
        e = evaln.Eval(impl, assign, self.m, passthrough_outputs=True)
        self.impl_cache[id(n)] = (impl, e, isn)
        return self.impl_cache[id(n)]

    def driver_value(self, n, pin):
        if n.kind in self.lib.cells and n.kind != '__fork__':
            impl, e, isn = self.impl_eval(n)
            outs = [x for x in impl.io_nodes if len(x.ins) > 0]
            if pin >= len(outs):
                return evaln.zero(self.m)
            return e.line(outs[pin].ins[0])
        if id(n) in self.sidx:
            v = self.by_name.get(n.name, evaln.zero(self.m))
            if evaln.is_dff(n) and pin == 1:
                return A.OPS[self.m]['not'](v)
            return v
        return super().driver_value(n, pin)

    def observed(self):
        """dict name -> captured value at every output port and state element (by name)"""
        out = {}
        for n in self.c.nodes:
            is_port = any(n is x for x in self.c.io_nodes)
            if n.kind in self.lib.cells and n.kind != '__fork__':
                impl, e, isn = self.impl_eval(n)
                st = [x for k, x in enumerate(isn) if k >= len(impl.io_nodes)]
                if st:
                    s0 = st[0]
                    out['state:' + n.name] = e.line(s0.ins[0]) if len(s0.ins) > 0 and s0.ins[0] is not None else evaln.zero(self.m)
                continue
            if is_port or evaln.is_dff(n) or evaln.is_latch(n):
                key = n.name if is_port else 'state:' + n.name      # a port fork and a cell may share a name
                if len(n.ins) > 0 and n.ins[0] is not None:
                    out[key] = self.line(n.ins[0])
                elif not is_port:
                    out[key] = evaln.zero(self.m)
        return out


def equivalent(c1, c2, lib, names_inputs):
    """z3: for all 0/1 values of the (pseudo) inputs named in names_inputs, both circuits observe the same values at the same names"""
    sym = {nm: (SBool(z3.Bool('v_' + nm)),) for nm in names_inputs}
    o1 = HierEval(c1, sym, lib).observed()
    o2 = HierEval(c2, sym, lib).observed()
    if set(o1) != set(o2):
        return f'observed names differ: {sorted(set(o1) ^ set(o2))}'
    for nm in sorted(o1):
        a, b_ = o1[nm][0], o2[nm][0]
        if not isinstance(a, SBool) and not isinstance(b_, SBool):
            if bool(a) != bool(b_):
                return f'{nm}: constant {a} vs {b_}'
            continue
        s = z3.Solver()
        from pyvc.values import to_bool
        s.add(to_bool(a) != to_bool(b_))
        if s.check() == z3.sat:
            m = s.model()
            return f'{nm} differs for inputs { {str(d): str(m[d]) for d in m.decls()} }'
    return None


def input_names(c):
    names = []
    for n in c.nodes:
        if any(n is x for x in c.io_nodes) and len(n.outs) > 0:
            names.append(n.name)
        elif evaln.is_dff(n) or evaln.is_latch(n):
            names.append(n.name)
    return names


def lib_by_name(name):
    from kyupy import techlib
    return getattr(techlib, name)


class EmptyLib:
    cells = {}


def instance_circuit(lib, kind, conn_in, conn_out):
    """one instance of a library cell: connected input pins get their own ports, connected outputs are observed"""
    from kyupy.circuit import Circuit, Node, Line
    impl, pins = lib.cells[kind]
    ins = [p for p, (i, o) in sorted(pins.items(), key=lambda kv: kv[1][0]) if not o]
    outs = [p for p, (i, o) in sorted(pins.items(), key=lambda kv: kv[1][0]) if o]
    c = Circuit('inst')
    u = Node(c, 'u1', kind)
    for j, p in enumerate(ins):
        if j in conn_in:
            i = Node(c, f'i_{p}', 'input')
            c.io_nodes.append(i)
            f = Node(c, f'n_{p}')
            Line(c, i, f)
            Line(c, f, (u, j))
            # second reader so that the input fork is a real fan-out point
            if j == min(conn_in):
                o2 = Node(c, f'obs_{p}', 'output')
                c.io_nodes.append(o2)
                Line(c, f, o2)
    for j, p in enumerate(outs):
        if j in conn_out:
            o = Node(c, f'o_{p}', 'output')
            c.io_nodes.append(o)
            Line(c, (u, j), o)
    return c, ins, outs


def snames(c):
    return [n.name for n in c.s_nodes]


def run_cell(args):
    lib = lib_by_name(args['lib'])
    c, ins, outs = instance_circuit(lib, args['kind'], set(args['conn_in']), set(args['conn_out']))
    v = check_resolve(c, lib)
    return {'reproduced': bool(v), 'violated': v}


def check_resolve(c, lib):
    out = []
    before = c.copy()
    names_before = snames(c)
    try:
        c.resolve_tlib_cells(lib)
    except Exception as e:  # noqa
        return [('resolve:exception', repr(e))]
    bad = wf(c)
    if bad:
        out.append(('resolve:wf', bad[0]))
    if ports_ok(c):
        out.append(('resolve:ports-stay-nodes', ports_ok(c)))
    oc = order_clause(names_before, c, len(before.nodes))
    if oc:
        out.append((f'resolve:{oc}', f'{names_before} -> {snames(c)}'))
    if any(n.kind in lib.cells for n in c.nodes):
        out.append(('resolve:complete', 'library cells remain after resolving'))
    try:
        d = equivalent(before, c, lib, input_names(before))
    except Exception as e:  # noqa
        d = f'oracle failed: {e!r}'
    if d:
        out.append(('resolve:function', d))
    return out


def check_datasheet(lib, libname, kind):
    """a fully connected instance of a datasheet-family cell, resolved, computes the datasheet function at every output (real LogicSim, all input combinations)"""
    from spec import datasheet
    from bounded import techlib_drv
    impl, pins = lib.cells[kind]
    ins = [p for p, (i, o) in sorted(pins.items(), key=lambda kv: kv[1][0]) if not o]
    outs = [p for p, (i, o) in sorted(pins.items(), key=lambda kv: kv[1][0]) if o]
    fam = datasheet.family(kind, ins, outs)
    if fam is None or '__error__' in fam or len(ins) > 6:
        return []
    try:
        tt = techlib_drv.truth_table(impl, pins, ins, outs)
    except Exception as e:  # noqa
        return [('resolve:datasheet-function', f'{libname}.{kind}: {e!r}')]
    for o, f in fam.items():
        for k in range(1 << len(ins)):
            env = {p: bool((k >> j) & 1) for j, p in enumerate(ins)}
            if int(bool(f(env))) != tt[o][k]:
                return [('resolve:datasheet-function', f'{libname}.{kind} pin {o}: inputs {env} give {tt[o][k]} after substitution, the datasheet function gives {int(bool(f(env)))}')]
    return []


def cells_part(tier):
    from kyupy import techlib
    b = BoundedPart('C10-resolve-every-library-cell', ['kyupy.circuit.Circuit.substitute', 'kyupy.circuit.Circuit.resolve_tlib_cells', 'kyupy.techlib.*'],
                    'every cell of GSC180, NANGATE, NANGATE_ZN, SAED32, SAED90 (one representative per distinct implementation and pin table in quick tier, every name in '
                    'thorough) instantiated with all pins connected, and with every subset of connected pins for cells with <= 4 pins (sampled subsets above): resolve must not '
                    'raise, wf holds, port/state names and order unchanged, no library cell remains, and the observed function equals the instance semantics '
                    '(z3 over symbolic inputs through the hierarchical spec evaluator); plus netlists of several instances with 0..12 empty-implementation cells (fillers) before / between / after three chained logic cells; distinct = (library, implementation, connected pins)',
                    'all cells x pin subsets as stated', exhaustive=(tier == 'thorough'))
    rng = random.Random(5)
    for libname in ('GSC180', 'NANGATE', 'NANGATE_ZN', 'SAED32', 'SAED90'):
        lib = getattr(techlib, libname)
        seen = set()
        for kind, (impl, pins) in lib.cells.items():
            sig = (id(impl),)
            if tier == 'quick' and sig in seen:
                continue
            seen.add(sig)
            ins = [p for p, (i, o) in pins.items() if not o]
            outs = [p for p, (i, o) in pins.items() if o]
            subsets = [(set(range(len(ins))), set(range(len(outs))))]
            allsub = [(set(a), set(o)) for ra in range(len(ins) + 1) for a in itertools.combinations(range(len(ins)), ra)
                      for ro in range(len(outs) + 1) for o in itertools.combinations(range(len(outs)), ro)]
            if len(ins) + len(outs) <= 4:
                subsets += allsub
            else:
                subsets += rng.sample(allsub, min(len(allsub), 4 if tier == 'quick' else 24))
            for clause, msg in check_datasheet(lib, libname, kind):
                b.violation(f'bounded:C10:{clause}:{libname}.{kind}', msg, 'bounded.graph_drv:run_datasheet', {'lib': libname, 'kind': kind}, function='kyupy.techlib')
            for ci, co in subsets:
                c, _, _ = instance_circuit(lib, kind, ci, co)
                b.case((libname, sig, tuple(sorted(ci)), tuple(sorted(co))), True, sample={'lib': libname, 'cell': kind, 'connected_inputs': sorted(ci), 'connected_outputs': sorted(co)})
                for clause, msg in check_resolve(c, lib):
                    key = f'bounded:C10:{clause}:{libname}.{kind}'
                    if clause in ('resolve:port-and-state-names', 'resolve:function') and 'latch' not in kind.lower() and \
                            any('latch' in x.kind.lower() for x in impl.nodes):
                        key = f'bounded:C10:{clause}:latch-cell-without-latch-in-its-name'
                    b.violation(key, f'{libname}.{kind} inputs {sorted(ci)} outputs {sorted(co)}: {msg}', 'bounded.graph_drv:run_cell',
                                {'lib': libname, 'kind': kind, 'conn_in': sorted(ci), 'conn_out': sorted(co)}, function='kyupy.circuit.Circuit.substitute')
    # several instances in one netlist: cells with an empty implementation (fillers, decaps: resolving removes them and re-numbers the node list) listed before,
    # between and after logic cells that feed each other
    for libname in ('GSC180', 'NANGATE', 'NANGATE_ZN', 'SAED32', 'SAED90'):
        lib = getattr(techlib, libname)
        empty = [k for k, (impl, pins) in lib.cells.items() if len(pins) == 0 and len(impl.nodes) == 0]
        logic_cells = [k for k, (impl, pins) in lib.cells.items() if sum(1 for p, (i, o) in pins.items() if o) == 1 and 1 <= sum(1 for p, (i, o) in pins.items() if not o) <= 3
                       and not any('dff' in x.kind.lower() or 'latch' in x.kind.lower() for x in impl.nodes)]
        if not logic_cells:
            continue
        for nfill, where in ((0, 'front'), (3, 'front'), (12, 'front'), (5, 'mixed'), (9, 'back')):
            if nfill and not empty:
                continue
            args = {'lib': libname, 'nfill': nfill, 'where': where, 'seed': rng.randrange(1 << 30)}
            c = multi_instance_circuit(lib, empty, logic_cells, nfill, where, random.Random(args['seed']))
            b.case((libname, 'multi', nfill, where), True, sample={'lib': libname, 'fillers': nfill, 'placement': where, 'nodes': len(c.nodes)})
            for clause, msg in check_resolve(c, lib):
                b.violation(f'bounded:C10:{clause}:multi-instance', f'{libname} netlist with {nfill} empty cells ({where}): {msg}', 'bounded.graph_drv:run_multi', args,
                            function='kyupy.circuit.Circuit.resolve_tlib_cells')
    return b


def multi_instance_circuit(lib, empty, logic_cells, nfill, where, rng):
    from kyupy.circuit import Circuit, Node, Line
    c = Circuit('multi')
    fills = [rng.choice(empty) for _ in range(nfill)] if empty else []
    kinds = [rng.choice(logic_cells) for _ in range(3)]
    plan = {'front': fills + kinds, 'back': kinds + fills}.get(where)
    if plan is None:
        plan = kinds + fills
        rng.shuffle(plan)
    srcs = []
    k = 0
    for kind in plan:
        k += 1
        u = Node(c, f'u{k}', kind)
        if kind in fills and kind in empty and len(lib.cells[kind][1]) == 0:
            continue
        pins = lib.cells[kind][1]
        ins = [p for p, (i, o) in sorted(pins.items(), key=lambda kv: kv[1][0]) if not o]
        for j, p in enumerate(ins):
            if srcs and rng.random() < 0.5:
                f = rng.choice(srcs)
            else:
                i = Node(c, f'i{k}_{p}', 'input')
                c.io_nodes.append(i)
                f = Node(c, f'n{k}_{p}')
                Line(c, i, f)
            Line(c, f, (u, j))
        f = Node(c, f'z{k}')
        Line(c, (u, 0), f)
        o = Node(c, f'o{k}', 'output')
        c.io_nodes.append(o)
        Line(c, f, o)
        srcs.append(f)
    return c


def run_datasheet(args):
    lib = lib_by_name(args['lib'])
    v = check_datasheet(lib, args['lib'], args['kind'])
    return {'reproduced': bool(v), 'violated': v}


def run_multi(args):
    lib = lib_by_name(args['lib'])
    empty = [k for k, (impl, pins) in lib.cells.items() if len(pins) == 0 and len(impl.nodes) == 0]
    logic_cells = [k for k, (impl, pins) in lib.cells.items() if sum(1 for p, (i, o) in pins.items() if o) == 1 and 1 <= sum(1 for p, (i, o) in pins.items() if not o) <= 3
                   and not any('dff' in x.kind.lower() or 'latch' in x.kind.lower() for x in impl.nodes)]
    c = multi_instance_circuit(lib, empty, logic_cells, args['nfill'], args['where'], random.Random(args['seed']))
    v = check_resolve(c, lib)
    return {'reproduced': bool(v), 'violated': v}


# ------------------------------------------------------------------------------------------------------------ C10 transformations
def synthetic_impls():
    """implementation shapes: multi-output, output read internally, inputs with 0/1/many readers, empty"""
    from kyupy import bench
    srcs = {
        'MULTI': 'input(A,B) output(X,Y) X=AND2(A,B) Y=XOR2(A,B)',
        'FEEDBACKOUT': 'input(A,B) output(X,Y) X=NAND2(A,B) Y=INV1(X)',
        'IGNORED': 'input(A,B,C) output(X) X=OR2(A,C)',
        'FANIN': 'input(A,B) output(X) T=AND2(A,B) U=OR2(A,B) X=XOR2(T,U)',
        'EMPTY': 'input(A)',
        'CONST': 'output(X) X=__const1__()',
        'CHAIN': 'input(A) output(X) T=INV1(A) U=INV1(T) X=BUF1(U)',
        'IGNOREDMID': 'input(S,A,TE,B) output(Y) Y=MUX21(A,B,S)',
        'IGNOREDFIRST': 'input(X0,A,B) output(Y) Y=NAND2(A,B)',
        'TWOIGNORED': 'input(A,E1,B,E2) output(Y,Z) Y=XOR2(A,B) Z=INV1(B)',
        'SAMEREADERTWICE': 'input(A,B) output(Y) Y=MUX21(A,B,A)',            # one cell reads the same input at two pins
        'SAMEREADERALL': 'input(A) output(Y) Y=XOR2(A,A)',
        'TWICEANDOTHER': 'input(A,B) output(Y,Z) Y=AO21(A,B,A) Z=INV1(A)',
        'OUTREADTWICE': 'input(A,B) output(X,Y,Z) X=NAND2(A,B) Y=INV1(X) Z=AND2(X,B)',   # an output with two internal readers
    }
    out = {}
    for k, s in srcs.items():
        c = bench.parse(s)
        c.name = k
        c.eliminate_1to1_forks()
        i_idx = o_idx = 0
        pins = {}
        for n in c.io_nodes:
            if len(n.ins) == 0:
                pins[n.name] = (i_idx, False)
                i_idx += 1
            else:
                pins[n.name] = (o_idx, True)
                o_idx += 1
        out[k] = (c, pins)

    class L:
        cells = out
    return L


def run_transform(args):
    c = G.build(args['desc'])
    v = check_transforms(c, args.get('which'))
    return {'reproduced': bool(v), 'violated': v}


def check_transforms(c, which=None):
    out = []
    names = snames(c)
    inputs = input_names(c)
    orig = G.build(G.describe(c))
    for nm, f in (('copy', lambda x: x.copy()), ('pickle', lambda x: pickle.loads(pickle.dumps(x))),
                  ('eliminate_1to1_forks', lambda x: (x.eliminate_1to1_forks(), x)[1]),
                  ('copy+eliminate+pickle', lambda x: pickle.loads(pickle.dumps((x.copy().eliminate_1to1_forks(), x)[1])))):
        if which and nm != which:
            continue
        try:
            work = G.build(G.describe(c))
            t = f(work)
        except Exception as e:  # noqa
            out.append((f'{nm}:exception', repr(e)))
            continue
        bad = wf(t)
        if bad:
            out.append((f'{nm}:wf', bad[0]))
            continue
        if ports_ok(t):
            out.append((f'{nm}:ports-stay-nodes', ports_ok(t)))
            continue            # the port list points outside the circuit: the function oracle has nothing well-defined to walk
        oc = order_clause(names, t, len(orig.nodes))
        if oc:
            out.append((f'{nm}:{oc}', f'{names} -> {snames(t)}'))
        try:
            d = equivalent(orig, t, EmptyLib, inputs)
        except Exception as e:  # noqa
            d = f'the netlist oracle cannot evaluate the transformed circuit: {e!r}'
        if d:
            out.append((f'{nm}:function', d))
        if nm in ('copy', 'pickle') and not (t == orig):
            out.append((f'{nm}:structure', 'copy is not structurally equal to the original'))
    return out


def transforms_part(tier, seed, skip=()):
    """skip: clause suffixes that are not a matter of the calling property (C09 shares this part with C10 for the wf clause; the order of state elements is C10's)"""
    from . import logic_drv
    b = BoundedPart('C10-transformations', ['kyupy.circuit.Circuit.copy', '__getstate__/__setstate__', 'eliminate_1to1_forks', 'substitute'],
                    'shared circuit space (incl. unconnected pins, DFF Q/QN, latches, fork chains; half of the seeded circuits also with a flip-flop created last, behind every fork) x {copy, pickle round trip, eliminate_1to1_forks, their composition}: wf, '
                    'names/order of ports and state elements, and function (z3 over symbolic inputs via the spec evaluator) preserved; synthetic implementation shapes '
                    '(multi-output, output read internally, ignored input, input with many readers, empty, constant, chain) substituted with every subset of connected pins; '
                    'distinct = (circuit, transformation)', f'exhaustive-small family (sampled) + {80 if tier == "quick" else 1500} seeded circuits')
    k = 0
    for c, sig in logic_drv.circuit_cases(tier, seed):
        k += 1
        if sig[0] == 'single' and k % (8 if tier == 'quick' else 2):
            continue
        if sig[0] == 'random' and sig[2] >= (80 if tier == 'quick' else 1500):
            break
        if logic_drv.has_arity_gap(c):
            continue
        desc = G.describe(c)
        b.case((desc['nodes'], desc['lines']), len(c.forks) > 0, sample={'circuit': str(sig)})
        for clause, msg in check_transforms(c):
            b.violation(f'bounded:C10:{clause}', f'{clause} on {sig}: {msg}', 'bounded.graph_drv:run_transform', {'desc': desc}, function='kyupy.circuit.Circuit')
        # the same circuit with a state element created last (behind every fork): a flip-flop fed by an existing signal, observed at a new port
        if sig[0] == 'random' and len(c.forks) > 0 and sig[2] % 2 == 0:
            from kyupy.circuit import Node, Line
            c2 = G.build(desc)
            src = next((f for f in c2.nodes if f.kind == '__fork__' and len(f.ins) == 1 and f.ins[0] is not None), None)
            if src is not None:
                o = Node(c2, 'late_o', 'output')
                c2.io_nodes.append(o)
                x = Node(c2, 'late_ff', 'DFF')
                Line(c2, src, x)
                Line(c2, x, o)
                desc2 = G.describe(c2)
                b.case((desc2['nodes'], desc2['lines']), True, sample={'circuit': str(sig) + ' + state element created last'})
                for clause, msg in check_transforms(c2):
                    if any(clause.endswith(x) for x in skip):
                        continue
                    b.violation(f'bounded:C10:{clause}', f'{clause} on {sig} + a flip-flop created last: {msg}', 'bounded.graph_drv:run_transform', {'desc': desc2}, function='kyupy.circuit.Circuit')
    lib = synthetic_impls()
    for kind, (impl, pins) in lib.cells.items():
        ins = [p for p, (i, o) in pins.items() if not o]
        outs = [p for p, (i, o) in pins.items() if o]
        for ra in range(len(ins) + 1):
            for ci in itertools.combinations(range(len(ins)), ra):
                for ro in range(len(outs) + 1):
                    for co in itertools.combinations(range(len(outs)), ro):
                        c, _, _ = instance_circuit(lib, kind, set(ci), set(co))
                        b.case(('synthetic', kind, ci, co), True, sample={'impl': kind, 'connected_inputs': list(ci), 'connected_outputs': list(co)})
                        for clause, msg in check_resolve(c, lib):
                            b.violation(f'bounded:C10:substitute:{clause}:{kind}', f'substitute {kind} inputs {ci} outputs {co}: {msg}', function='kyupy.circuit.Circuit.substitute')
    return b
