"""C08 / C07 bounded stand-in for the signal-memory map and the level schedule of sim.SimOps: the predicates MapValid
(M1 in range, M2 NoClobber by token simulation, M3 aliasing of stripped branches and output slots, M4 capacities, c_len)
and SchedValid (S1 level bounds, S2 operands produced in earlier levels, S3 single producer) of DESIGN.md section 4 are
evaluated on real SimOps instances.  Bounded evidence only."""
import numpy as np


def producers(ops):
    prod = {}
    dup = None
    for k, op in enumerate(ops):
        o = int(op[1])
        if o in prod and dup is None:
            dup = o
        prod[o] = k
    return prod, dup


def check_map(sim, circuit, strip_forks, c_reuse, c_caps_req=None, c_caps_min=1, scratch=True):
    """-> list of (clause, message)"""
    out = []
    ops = np.asarray(sim.ops)
    cl = np.asarray(sim.c_locs)
    cc = np.asarray(sim.c_caps)
    nl = len(circuit.lines)
    zero, tmp, tmp2 = sim.zero_idx, sim.tmp_idx, sim.tmp2_idx
    c_len = int(sim.c_len)
    snodes = circuit.s_nodes
    # stems (spec side): a stripped fan-out branch stands for the non-fork signal that feeds its fork chain
    stem = {}
    if strip_forks:
        for f in circuit.forks.values():
            l = f.ins[0] if len(f.ins) > 0 else None
            while l is not None and l.driver.kind == '__fork__' and len(l.driver.ins) > 0 and l.driver.ins[0] is not None:
                l = l.driver.ins[0]
            if l is None:
                continue
            for ol in f.outs:
                if ol is not None:
                    stem[ol.index] = l.index
    # M1
    for x in range(len(cl)):
        if cl[x] >= 0 and not (0 <= cl[x] and cl[x] + max(int(cc[x]), 1) <= c_len):
            out.append(('M1:in-range', f'slot {x}: [{cl[x]}, +{cc[x]}) outside [0,{c_len})'))
            break
    used_max = max([int(cl[x] + cc[x]) for x in range(len(cl)) if cl[x] >= 0] + [0])
    if c_len < used_max:
        out.append(('M1:c_len', f'c_len {c_len} < highest used address {used_max}'))
    # M4 capacities
    if c_caps_req is not None:
        for k, op in enumerate(ops):
            o = int(op[1])
            if o in (tmp, tmp2):
                continue
            want = max(c_caps_min, int(c_caps_req[o]))
            if int(cc[o]) != want:
                out.append(('M4:capacity', f'line {o}: capacity {cc[o]}, requested max({c_caps_min},{c_caps_req[o]})'))
                break
    # M3 aliasing
    for b, s in stem.items():
        if cl[s] >= 0 and (cl[b], cc[b]) != (cl[s], cc[s]):
            out.append(('M3:stem-alias', f'stripped branch {b} at ({cl[b]},{cc[b]}), its stem {s} at ({cl[s]},{cc[s]})'))
            break
    for i, n in enumerate(snodes):
        if len(n.ins) > 0 and n.ins[0] is not None:
            l = n.ins[0].index
            if (cl[sim.ppo_offset + i], cc[sim.ppo_offset + i]) != (cl[l], cc[l]):
                out.append(('M3:output-alias', f'output slot of {n.name} at ({cl[sim.ppo_offset + i]},{cc[sim.ppo_offset + i]}), its line {l} at ({cl[l]},{cc[l]})'))
                break
    # M2 NoClobber by token simulation
    content = {}

    def write(loc, cap, tok):
        for a in range(int(loc), int(loc) + max(int(cap), 1)):
            content[a] = tok

    def read_ok(loc, cap, tok):
        return all(content.get(a) == tok for a in range(int(loc), int(loc) + max(int(cap), 1)))
    prod, dup = producers(ops)
    if dup is not None and dup not in (tmp,):
        out.append(('S3:single-producer', f'line {dup} is the output of more than one op'))

    def token_of(x):
        x = int(x)
        if x == zero:
            return 'zero'
        if x >= sim.ppi_offset:
            return ('ppi', x)
        if x in prod and not (strip_forks and x in stem):
            return ('op', prod[x])
        if x in stem:
            s = stem[x]
            return ('op', prod[s]) if s in prod else None
        return None
    write(cl[zero], cc[zero], 'zero')
    for i, n in enumerate(snodes):
        x = sim.ppi_offset + i
        if cl[x] >= 0:
            write(cl[x], cc[x], ('ppi', x))
    clob = None
    for k, op in enumerate(ops):
        for x in op[2:6]:
            x = int(x)
            tok = token_of(x)
            if tok is None:
                if clob is None:
                    clob = ('M2:operand-never-produced', f'op {k} reads slot {x} that no earlier op / input produces')
                continue
            if tok[0] == 'op' and tok[1] >= k:
                if clob is None:
                    clob = ('S2:topological', f'op {k} reads line {x} produced by the later/same op {tok[1]}')
                continue
            if cl[x] < 0 or not read_ok(cl[x], cc[x], tok):
                if clob is None:
                    clob = ('M2:no-clobber', f'op {k} reads line {x} at ({cl[x]},{cc[x]}) but that memory was overwritten '
                                            f'(holds {content.get(int(cl[x]))}, expected {tok})')
        o = int(op[1])
        if scratch:
            write(cl[tmp], cc[tmp], ('scratch', k))
            write(cl[tmp2], cc[tmp2], ('scratch', k))
        write(cl[o], cc[o], ('op', k))      # also for a gate without output line (its result goes to the slot of tmp_idx)
    if clob:
        out.append(clob)
    for i, n in enumerate(snodes):
        if len(n.ins) > 0 and n.ins[0] is not None:
            l = n.ins[0].index
            tok = token_of(l)
            x = sim.ppo_offset + i
            if tok is not None and cl[x] >= 0 and not read_ok(cl[x], cc[x], tok):
                out.append(('M2:captured-intact', f'captured line {l} of {n.name} at ({cl[x]},{cc[x]}) was overwritten before capture (holds {content.get(int(cl[x]))}, expected {tok})'))
                break
    for i, n in enumerate(snodes):
        x = sim.ppi_offset + i
        if cl[x] >= 0 and not read_ok(cl[x], cc[x], ('ppi', x)):
            out.append(('M2:inputs-intact', f'input slot of {n.name} was overwritten'))
            break
    if not c_reuse:
        # without reuse every line keeps its own memory: all produced lines intact at the end
        for o, k in prod.items():
            if o in (tmp, tmp2):
                continue
            if not read_ok(cl[o], cc[o], ('op', k)):
                out.append(('M2:no-reuse-all-intact', f'line {o} was overwritten although c_reuse is off'))
                break
    return out


def check_sched(sim, circuit, strip_forks):
    out = []
    ops = np.asarray(sim.ops)
    ls, le = [int(x) for x in sim.level_starts], [int(x) for x in sim.level_stops]
    n = len(ops)
    if ls[0] != 0 or le[-1] != n or any(a >= b for a, b in zip(ls, le)) and n > 0 or any(le[i] != ls[i + 1] for i in range(len(ls) - 1)):
        if not (n == 0 and ls == [0] and le == [0]):
            out.append(('S1:level-bounds', f'level_starts {ls} level_stops {le} for {n} ops'))
    level_of_op = {}
    for lv, (a, b) in enumerate(zip(ls, le)):
        for k in range(a, b):
            level_of_op[k] = lv
    prod, _ = producers(ops)
    stem = {}
    if strip_forks:
        for f in circuit.forks.values():
            l = f.ins[0] if len(f.ins) > 0 else None
            while l is not None and l.driver.kind == '__fork__' and len(l.driver.ins) > 0 and l.driver.ins[0] is not None:
                l = l.driver.ins[0]
            if l is None:
                continue
            for ol in f.outs:
                if ol is not None:
                    stem[ol.index] = l.index
    for k, op in enumerate(ops):
        for x in op[2:6]:
            x = int(x)
            x = stem.get(x, x)
            if x in prod and x not in (sim.tmp_idx, sim.tmp2_idx):
                if level_of_op.get(prod[x], -1) >= level_of_op.get(k, -1):
                    out.append(('S2:operand-from-earlier-level', f'op {k} (level {level_of_op.get(k)}) reads line {x} produced by op {prod[x]} (level {level_of_op.get(prod[x])})'))
                    return out
    # outputs of one level and their operands are pairwise disjoint in memory (threads of a level may run in any order)
    cl, cc = np.asarray(sim.c_locs), np.asarray(sim.c_caps)
    for lv, (a, b) in enumerate(zip(ls, le)):
        regions = []
        for k in range(a, b):
            o = int(ops[k][1])
            regions.append((int(cl[o]), int(cl[o]) + max(1, int(cc[o])), ('w', k)))
        reads = []
        for k in range(a, b):
            for x in ops[k][2:6]:
                x = int(x)
                if cl[x] >= 0:
                    reads.append((int(cl[x]), int(cl[x]) + max(1, int(cc[x])), ('r', k)))
        for i, (s1, e1, t1) in enumerate(regions):
            for (s2, e2, t2) in regions[i + 1:]:
                if s1 < e2 and s2 < e1 and not (int(ops[t1[1]][1]) in (sim.tmp_idx,) and int(ops[t2[1]][1]) in (sim.tmp_idx,)):
                    out.append(('S4:level-outputs-disjoint', f'level {lv}: outputs of ops {t1[1]} and {t2[1]} overlap'))
                    return out
            for (s2, e2, t2) in reads:
                if s1 < e2 and s2 < e1:
                    out.append(('S4:level-write-read-disjoint', f'level {lv}: op {t1[1]} writes memory that op {t2[1]} reads in the same level'))
                    return out
    return out


def check_live_hypotheses(sim, circuit, strip_forks):
    """the memory-map hypotheses A2-A5 of the composition contract (contracts.logic_sim_c.composition_config) for the concrete
    liveness  LIVE(x, k) := x is produced before k (source slot, or output of an op < k, or stripped alias of such) and x is read by
    an op >= k or captured.  A3 holds by construction; A2 needs topological order; A4 is NoClobber; A5 keeps live slots off the
    scratch rows.  -> list of (clause, message)"""
    out = []
    ops = np.asarray(sim.ops)
    cl = np.asarray(sim.c_locs)
    n = len(ops)
    zero, tmp, tmp2 = sim.zero_idx, sim.tmp_idx, sim.tmp2_idx
    prod, _ = producers(ops)
    stem = {}
    if strip_forks:
        for f in circuit.forks.values():
            l = f.ins[0] if len(f.ins) > 0 else None
            while l is not None and l.driver.kind == '__fork__' and len(l.driver.ins) > 0 and l.driver.ins[0] is not None:
                l = l.driver.ins[0]
            if l is None:
                continue
            for ol in f.outs:
                if ol is not None:
                    stem[ol.index] = l.index
    root = lambda x: stem.get(x, x)
    last_read = {}
    for k, op in enumerate(ops):
        for x in op[2:6]:
            last_read[int(x)] = k
    captured = set()
    for i, node in enumerate(circuit.s_nodes):
        if len(node.ins) > 0 and node.ins[0] is not None:
            captured.add(node.ins[0].index)          # (the output slot itself is an alias of this line, M3)

    def produced_at(x):
        x = int(x)
        if x == zero or x >= sim.ppi_offset:
            return -1
        r = root(x)
        return prod.get(r, None)

    def live(x, k):
        p = produced_at(x)
        if p is None or p >= k:
            return False
        return last_read.get(x, -1) >= k or x in captured or x == zero
    slots = [x for x in range(sim.ppo_offset) if cl[x] >= 0 and x not in (tmp, tmp2)]
    cc = np.asarray(sim.c_caps)
    for x in slots:
        if cc[x] < 1:
            out.append(('A4w:positive-capacity', f'mapped slot {x} has capacity {int(cc[x])}'))
            return out
    overlap = lambda a, b: cl[a] < cl[b] + cc[b] and cl[b] < cl[a] + cc[a]
    for k, op in enumerate(ops):
        o = int(op[1])
        # hypotheses of the waveform composition contract (contracts.wave_comp_c): regions instead of locations
        for x in op[2:6]:
            if cl[int(x)] >= 0 and overlap(int(x), o):
                out.append(('A4w:output-region-overlaps-operand', f'op {k}: the region of output slot {o} overlaps the region of operand slot {int(x)}'))
                return out
        if o != tmp:
            for x in slots:
                if live(x, k + 1) and overlap(x, o) and not ((cl[x], cc[x]) == (cl[o], cc[o]) and root(x) == root(o)):
                    out.append(('A4w:no-clobber-region', f'op {k} writes region ({int(cl[o])},{int(cc[o])}) of slot {o}, which overlaps the region of slot {x} that is still live'))
                    return out
        for x in op[2:6]:
            if not live(int(x), k) and produced_at(int(x)) is not None and produced_at(int(x)) >= k:
                out.append(('A2:operands-live', f'op {k} reads slot {int(x)} before it is produced'))
                return out
        for x in slots:
            if live(x, k) and cl[x] in (cl[tmp], cl[tmp2]):
                out.append(('A5:live-slot-on-scratch-row', f'slot {x} is live at op {k} and shares its location with a scratch slot'))
                return out
            if live(x, k + 1) and cl[x] == cl[o] and not (x == o or root(x) == root(o)) and o != tmp:
                out.append(('A4:no-clobber', f'op {k} overwrites the location of slot {x}, which is still live'))
                return out
            if live(x, k + 1) and o == tmp and cl[x] == cl[tmp]:
                out.append(('A4:no-clobber', f'the result of op {k} (node without output line) lands on the location of live slot {x}'))
                return out
    return out


def spec_stems(circuit, strip_forks):
    """branch line index -> stem line index, computed independently of sim.py (walk back through driving forks with an input)"""
    stem = {}
    if strip_forks:
        for f in circuit.forks.values():
            l = f.ins[0] if len(f.ins) > 0 else None
            while l is not None and l.driver.kind == '__fork__' and len(l.driver.ins) > 0 and l.driver.ins[0] is not None:
                l = l.driver.ins[0]
            if l is None:
                continue
            for ol in f.outs:
                if ol is not None:
                    stem[ol.index] = l.index
    return stem


def check_phase_requires(sim, circuit, strip_forks):
    """the *requires* of the levelisation / allocation phase contracts (contracts.simops_c, contracts.alloc_c) that the translation
    phase of SimOps.__init__ has to establish, evaluated on a real instance: the assume/guarantee chain between the tier-P phases and
    the bounded translation is closed here"""
    out = []
    ops = np.asarray(sim.ops)
    nlines, n = len(circuit.lines), len(ops)
    zero, tmp, tmp2, ppi, ppo, nlocs = sim.zero_idx, sim.tmp_idx, sim.tmp2_idx, sim.ppi_offset, sim.ppo_offset, sim.c_locs_len
    if not (zero == nlines and tmp == nlines + 1 and tmp2 == nlines + 2 and ppi == nlines + 3 and ppo == ppi + sim.s_len and nlocs == ppo + sim.s_len):
        out.append(('REQ:slot-layout', f'special slot layout {zero, tmp, tmp2, ppi, ppo, nlocs} for {nlines} lines, {sim.s_len} interface nodes'))
        return out
    stem = spec_stems(circuit, strip_forks)
    res = lambda x: stem.get(x, x)
    prod = {}
    for k, op in enumerate(ops):
        o = int(op[1])
        if not (0 <= o < nlines or o == tmp):
            out.append(('REQ:output-is-line-or-tmp', f'op {k} writes slot {o}'))
        if o != tmp:
            if o in prod:
                out.append(('REQ:single-production', f'slot {o} written by ops {prod[o]} and {k}'))
            prod[o] = k
    s_nodes = list(circuit.s_nodes)
    for k, op in enumerate(ops):
        for x in op[2:6]:
            x = int(x)
            if not 0 <= x < nlocs:
                out.append(('REQ:operand-in-range', f'op {k} reads slot {x}'))
                continue
            x = res(x)
            if x in (tmp, tmp2) or x >= ppo:
                out.append(('REQ:operand-not-scratch-or-output-slot', f'op {k} reads slot {x}'))
            if x in prod:
                if prod[x] >= k:
                    out.append(('REQ:TopoOps', f'op {k} reads slot {x} produced by op {prod[x]}'))
            elif not (x == zero or (ppi <= x < ppo and len(s_nodes[x - ppi].outs) > 0)):
                out.append(('REQ:source-is-preallocated', f'op {k} reads slot {x} that no op produces and that is neither the zero slot nor an interface input with outputs'))
    for b, s_ in stem.items():
        if b in prod:
            out.append(('REQ:stripped-branch-has-no-producer', f'branch {b} (stem {s_}) is written by op {prod[b]}'))
        if s_ in stem:
            out.append(('REQ:stem-of-stem', f'stem {s_} of branch {b} is itself a stripped branch'))
    return out[:5]
