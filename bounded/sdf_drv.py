"""C14 bounded stand-in: round-trip contract of the SDF parser / annotator with a spec-side SDF printer.
Ghost ground truth G = list of IOPATH / INTERCONNECT entries; text = print(G, grouping style).
ensures  iopaths()[ds, line feeding the named pin, input polarity, output polarity] = value of the entry (empty = 0, edge
         qualifier -> that input polarity only, single list -> both output polarities) and every other entry is 0;
         interconnects()[ds, branch-fork (or sole) line between the two pins, :, polarity] = value, every other entry 0."""
import random

import numpy as np

from vk.common import sseed, BoundedPart
from . import netlist_gen as NG, parse_drv


def triple_text(t, rng):
    if t is None:
        return rng.choice(['()', '(::)'])
    return '(' + ':'.join(('%g' % v) if v is not None else '' for v in t) + ')'


def tval(t):
    return [0.0, 0.0, 0.0] if t is None else [0.0 if v is None else float(v) for v in t]


def rand_triple(rng, allow_empty=True, allow_negative=False):
    if allow_empty and rng.random() < 0.12:
        return None
    if allow_negative and rng.random() < 0.15:
        base = -rng.randrange(20, 60) / 8            # negative delays are legal SDF and are annotated as written
        return [base, base + rng.randrange(0, 8) / 8, base + rng.randrange(8, 16) / 8]
    base = rng.randrange(1, 40) / 8
    t = [base, base + rng.randrange(0, 8) / 8, base + rng.randrange(8, 16) / 8]
    if allow_empty and rng.random() < 0.1:
        t[rng.randrange(3)] = None
    return t


def sdf_name(n):
    return n.replace('[', '\\[').replace(']', '\\]')


def make_truth(N, c, lib, rng):
    """ghost entries for the netlist N / parsed circuit c"""
    dff, dpin, ckpin = NG.DFF_CELLS[N.libname]
    io, ic = [], []
    for inst, ct, pins in N.insts:
        if ct == dff:
            outs = [o for o in ('Q',) if pins.get(o)]
            if pins.get(ckpin) and outs and rng.random() < 0.8:
                edge = rng.choice(['posedge', 'negedge', None])
                io.append((inst, ckpin, edge, outs[0], rand_triple(rng), rand_triple(rng) if rng.random() < 0.8 else 'same'))
            continue
        ins, outs, fam = N.cells[ct]
        if len(outs) != 1:
            continue
        for p in ins:
            if pins.get(p) is None or pins[p].startswith("1'b"):
                continue
            if rng.random() < 0.85:
                # an edge qualifier on any input restricts that entry (and only that entry) to one input polarity
                edge = rng.choice(['posedge', 'negedge']) if rng.random() < 0.3 else None
                io.append((inst, p, edge, outs[0], rand_triple(rng, True, True), rand_triple(rng, True, True) if rng.random() < 0.8 else 'same'))
    # interconnects: from the driver of a signal (instance output pin or input port) to a reading instance pin
    drivers = {}
    for inst, ct, pins in N.insts:
        outs = ['Q', 'QN'] if ct == dff else N.cells[ct][1]
        for o in outs:
            if pins.get(o):
                drivers[pins[o]] = f'{inst}/{o}'
    for b in N.inputs():
        drivers[b] = b
    for inst, ct, pins in N.insts:
        ins = [dpin, ckpin] if ct == dff else N.cells[ct][0]
        for p in ins:
            s = pins.get(p)
            if s in drivers and rng.random() < 0.6:
                if rng.random() < 0.2:
                    # empty (or all-zero) rise list with a real fall list, and the other way round
                    r_, f_ = (None, rand_triple(rng, False)) if rng.random() < 0.6 else (rand_triple(rng, False), None)
                    if rng.random() < 0.3 and r_ is None:
                        r_ = [0.0, 0.0, 0.0]
                    ic.append((drivers[s], f'{inst}/{p}', r_, f_))
                else:
                    ic.append((drivers[s], f'{inst}/{p}', rand_triple(rng, False), rand_triple(rng, False) if rng.random() < 0.8 else 'same'))
    # interconnects that end at an output port (ports never get a branch fork)
    for b in N.outputs():
        if b in drivers and rng.random() < 0.7:
            ic.append((drivers[b], b, rand_triple(rng, False), rand_triple(rng, False) if rng.random() < 0.8 else 'same'))
    return io, ic


def render_sdf(N, io, ic, rng, style):
    """style: 'one-block-per-instance' | 'repeated-blocks' | 'split-interconnect-blocks'"""
    out = ['(DELAYFILE', ' (SDFVERSION "3.0")', f' (DESIGN "{N.name}")', ' (DATE "today")', ' (VENDOR "x")', ' (PROGRAM "gen")', ' (VERSION "1")',
           ' (DIVIDER /)', ' (VOLTAGE 1.0:1.0:1.0)', ' (PROCESS "typ")', ' (TEMPERATURE 25:25:25)', ' (TIMESCALE 1ns)']

    def ic_block(entries):
        b = [f' (CELL (CELLTYPE "{N.name}") (INSTANCE)', '  (DELAY (ABSOLUTE']
        cut = rng.randrange(1, len(entries)) if len(entries) >= 2 and rng.random() < 0.35 else None
        for k_, (a, d, r, f) in enumerate(entries):
            if k_ == cut:
                # a second DELAY section inside the same CELL block
                b += ['  ))', '  (DELAY (ABSOLUTE']
            fl = '' if f == 'same' else ' ' + triple_text(f, rng)
            b.append(f'   (INTERCONNECT {sdf_name(a)} {sdf_name(d)} {triple_text(r, rng)}{fl})')
        b.append('  ))')
        b.append(' )')
        return b
    if ic:
        if style == 'split-interconnect-blocks' and len(ic) >= 2:
            k = rng.randrange(1, len(ic))
            out += ic_block(ic[:k]) + ic_block(ic[k:])
        else:
            out += ic_block(ic)
    types = {inst: ct for inst, ct, pins in N.insts}
    by_inst = {}
    for e in io:
        by_inst.setdefault(e[0], []).append(e)
    blocks = []
    for inst, es in by_inst.items():
        groups = [es]
        if style == 'repeated-blocks' and len(es) >= 2:
            k = rng.randrange(1, len(es))
            groups = [es[:k], es[k:]]
        for g in groups:
            b = [f' (CELL (CELLTYPE "{types[inst]}") (INSTANCE {sdf_name(inst)})', '  (DELAY (ABSOLUTE']
            cut = rng.randrange(1, len(g)) if len(g) >= 2 and rng.random() < 0.35 else None
            for k_, (_, ip, edge, op, r, f) in enumerate(g):
                if k_ == cut:
                    # several DELAY sections in one CELL block, here split by a TIMINGCHECK
                    b += ['  ))', '  (TIMINGCHECK (HOLD D (posedge CK) (0.05:0.05:0.05)))', '  (DELAY (ABSOLUTE']
                ipt = f'({edge} {ip})' if edge else ip
                fl = '' if f == 'same' else ' ' + triple_text(f, rng)
                b.append(f'   (IOPATH {ipt} {op} {triple_text(r, rng)}{fl})')
            b.append('  ))')
            if rng.random() < 0.3:
                b.append('  (TIMINGCHECK (SETUP D (posedge CK) (0.1:0.1:0.1)))')
            b.append(' )')
            blocks.append(b)
    rng.shuffle(blocks)
    for b in blocks:
        out += b
    out.append(')')
    return '\n'.join(out) + '\n'


def expected_arrays(c, lib, io, ic, branchforks):
    nl = len(c.lines)
    eio = np.zeros((3, nl, 2, 2))
    eic = np.zeros((3, nl, 2, 2))
    notes = []
    for inst, ip, edge, op, r, f in io:
        cell = c.cells[inst]
        line = cell.ins[lib.pin_index(cell.kind, ip)]
        if line is None:
            continue
        pols = [0] if edge == 'posedge' else [1] if edge == 'negedge' else [0, 1]
        rv, fv = tval(r), tval(r if f == 'same' else f)
        for ds in range(3):
            for p in pols:
                eio[ds, line.index, p, 0] = rv[ds]
                eio[ds, line.index, p, 1] = fv[ds]
    for a, d, r, f in ic:
        if '/' in d:
            cn, pn = d.split('/')
            c2 = c.cells[cn]
            l2 = c2.ins[lib.pin_index(c2.kind, pn)]
            to_port = False
        else:
            c2 = c.cells[d]
            l2 = c2.ins[0] if len(c2.ins) > 0 else None
            to_port = True
        if l2 is None:
            continue
        fork = l2.driver
        if branchforks and not to_port:
            line = fork.ins[0]            # the branch fork's input line
        else:
            if len(fork.outs) != 1:
                notes.append('fanout without branch forks: entry cannot be annotated')
                continue
            line = fork.ins[0]
        rv, fv = tval(r), tval(r if f == 'same' else f)
        for ds in range(3):
            eic[ds, line.index, :, 0] = rv[ds]
            eic[ds, line.index, :, 1] = fv[ds]
    return eio, eic


def check_case(N, vtext, stext, lib, branchforks, io, ic):
    from kyupy import verilog, sdf
    out = []
    try:
        c = verilog.parse(vtext, tlib=lib, branchforks=branchforks)
        df = sdf.parse(stext)
    except Exception as e:  # noqa
        return [('parse:exception', repr(e))]
    eio, eic = expected_arrays(c, lib, io, ic, branchforks)
    try:
        gio = df.iopaths(c, lib)
    except Exception as e:  # noqa
        gio = None
        out.append(('iopaths:exception', repr(e)))
    if gio is not None:
        if gio.shape != eio.shape:
            out.append(('iopaths:shape', f'{gio.shape} != {eio.shape}'))
        elif not np.allclose(gio, eio):
            idx = tuple(int(x) for x in np.argwhere(~np.isclose(gio, eio))[0])
            lost = (gio[idx] == 0 and eio[idx] != 0)
            out.append(('iopaths:entry-lost' if lost else 'iopaths:value', f'iopaths[ds,line,ipol,opol]{idx} = {gio[idx]}, SDF file says {eio[idx]}'))
    try:
        gic = df.interconnects(c, lib)
    except Exception as e:  # noqa
        gic = None
        if ic:
            out.append(('interconnects:exception', repr(e)))
    if gic is not None:
        if not np.allclose(gic, eic):
            idx = tuple(int(x) for x in np.argwhere(~np.isclose(gic, eic))[0])
            lost = (gic[idx] == 0 and eic[idx] != 0)
            out.append(('interconnects:entry-lost' if lost else 'interconnects:value', f'interconnects[ds,line,ipol,opol]{idx} = {gic[idx]}, SDF file says {eic[idx]}'))
    return out


def run_case(args):
    N = parse_drv.build_from_args(args['netlist'])
    lib = parse_drv.lib_of(args['netlist']['lib'])
    io = [tuple(e) for e in args['io']]
    ic = [tuple(e) for e in args['ic']]
    v = check_case(N, args['netlist']['text'], args['sdf'], lib, args['branchforks'], io, ic)
    return {'reproduced': bool(v), 'violated': v}


def part(tier, seed):
    b = BoundedPart('C14-sdf-round-trip', ['kyupy.sdf.parse', 'kyupy.sdf.SdfTransformer.start/cell/triple', 'kyupy.sdf.DelayFile.iopaths', 'kyupy.sdf.DelayFile.interconnects',
                                          'kyupy.verilog.parse (branch forks)'],
                    'seeded netlists (NANGATE, SAED32; no buses) x SDF files printed from ghost entries: IOPATH per connected input pin (rise / fall triples, single list, empty '
                    'triples and empty fields, posedge / negedge qualifiers on flip-flop clocks), INTERCONNECT from driver pin or input port to reader pin (incl. empty / zero rise with a real fall list and vice versa), TIMINGCHECK blocks, several DELAY sections in one CELL block, '
                    'shuffled CELL blocks; grouping styles: one block per instance, repeated blocks for one instance, several anonymous top-level interconnect blocks; x both '
                    'branchforks; ensures every entry at its [dataset, line, input polarity, output polarity] and all other entries zero; distinct = (netlist, style, branchforks)',
                    f'{25 if tier == "quick" else 400} netlists per library x 3 grouping styles x 2 branchforks')
    for libname in ('NANGATE', 'SAED32'):
        lib = parse_drv.lib_of(libname)
        for k in range(25 if tier == 'quick' else 400):
            rng = random.Random(sseed((seed, 'sdf', libname, k)))
            N = NG.random_netlist(rng, lib, libname, n_inst=rng.randrange(2, 8), with_buses=False, with_consts=False, escaped=False)
            if rng.random() < 0.3 and N.insts:
                # an instance name that needs escaping in both formats
                i0 = N.insts[0]
                N.insts[0] = (i0[0] + '[3]', i0[1], i0[2])
            vtext = NG.render_verilog(N, rng)
            from kyupy import verilog
            for bf in (False, True):
                try:
                    c = verilog.parse(vtext, tlib=lib, branchforks=bf)
                except Exception as e:  # noqa
                    b.violation('bounded:C14:verilog-parse', f'{libname} netlist {k}: {e!r}', function='kyupy.verilog.parse')
                    continue
                io, ic = make_truth(N, c, lib, random.Random(sseed((seed, 'truth', libname, k))))
                for style in ('one-block-per-instance', 'repeated-blocks', 'split-interconnect-blocks'):
                    stext = render_sdf(N, io, ic, random.Random(sseed((seed, style, k))), style)
                    b.case((libname, k, style, bf), bool(io or ic), sample={'lib': libname, 'netlist': k, 'style': style, 'branchforks': bf, 'sdf': stext[:500]})
                    args = {'netlist': parse_drv.to_args(N, vtext, bf, False), 'sdf': stext, 'branchforks': bf, 'io': [list(e) for e in io], 'ic': [list(e) for e in ic]}
                    for clause, msg in check_case(N, vtext, stext, lib, bf, io, ic):
                        b.violation(f'bounded:C14:{clause}:{style}', f'{libname} netlist {k} ({style}, branchforks={bf}): {msg}', 'bounded.sdf_drv:run_case', args, function='kyupy.sdf')
    return b
