"""Circuit generators for the bounded stand-ins (real kyupy.circuit API; /repo's working tree).

small_circuits(): exhaustive family of 1- and 2-gate circuits over every primitive kind name x every subset of
unconnected pins.  random_circuit(): seeded larger circuits with forks, reconvergence, direct gate-to-gate lines,
flip-flops (both outputs), latches, unconnected pins and outputs, interleaved port order."""
import itertools
import random

from kyupy.circuit import Circuit, Node, Line

# kind name -> number of input pins
GATE_KINDS = {}
for fam in ('AND', 'NAND', 'OR', 'NOR', 'XOR', 'XNOR'):
    for n in (2, 3, 4):
        GATE_KINDS[f'{fam}{n}'] = n
GATE_KINDS.update({'INV1': 1, 'BUF1': 1, 'NOT': 1, 'buf': 1, 'inv': 1,
                   'AO21': 3, 'AOI21': 3, 'OA21': 3, 'OAI21': 3, 'AO22': 4, 'AOI22': 4, 'OA22': 4, 'OAI22': 4,
                   'AO211': 4, 'AOI211': 4, 'OA211': 4, 'OAI211': 4, 'MUX21': 3,
                   'and': 2, 'nand': 3, 'or': 4, 'nor': 2, 'xor': 3, 'xnor': 2})
KIND_LIST = sorted(GATE_KINDS)


def describe(c):
    """canonical structural description (used for distinct counting and replay)"""
    return {'nodes': [(n.name, n.kind) for n in c.nodes],
            'lines': [(l.driver.index, l.driver_pin, l.reader.index, l.reader_pin) for l in c.lines],
            'io': [n.index for n in c.io_nodes]}


def build(desc):
    c = Circuit('replay')
    for name, kind in desc['nodes']:
        Node(c, name, kind)
    for d, dp, r, rp in desc['lines']:
        Line(c, (c.nodes[d], dp), (c.nodes[r], rp))
    for i in desc['io']:
        c.io_nodes.append(c.nodes[i])
    return c


def single_gate(kind, npins, connected, with_fork_ports=False):
    """one gate; pins in ``connected`` driven by own inputs, the others left unconnected"""
    c = Circuit(f'g_{kind}')
    g = Node(c, 'g', kind)
    for p in range(npins):
        if p in connected:
            i = Node(c, f'i{p}', '__fork__' if with_fork_ports else 'input')
            c.io_nodes.append(i)
            Line(c, i, (g, p))
    o = Node(c, 'o', '__fork__' if with_fork_ports else 'output')
    c.io_nodes.append(o)
    Line(c, g, o)
    return c


def small_circuits():
    for x in special_circuits():
        yield x
    for kind in KIND_LIST:
        n = GATE_KINDS[kind]
        for r in range(n + 1):
            for conn in itertools.combinations(range(n), r):
                yield single_gate(kind, n, set(conn)), ('single', kind, conn)
    # two-gate chains with a fork and reconvergence
    for k1, k2 in itertools.product(('AND2', 'XOR2', 'NOR2', 'INV1', 'MUX21', 'AOI21'), ('NAND2', 'OR3', 'XNOR2', 'OA211', 'BUF1')):
        c = Circuit(f'{k1}_{k2}')
        ins = [Node(c, f'i{j}', 'input') for j in range(3)]
        for n in ins:
            c.io_nodes.append(n)
        fk = [Node(c, f'f{j}') for j in range(3)]
        for a, b in zip(ins, fk):
            Line(c, a, b)
        g1 = Node(c, 'g1', k1)
        for j in range(GATE_KINDS[k1]):
            Line(c, fk[j % 3], (g1, j))
        f1 = Node(c, 'n1')
        Line(c, g1, f1)
        g2 = Node(c, 'g2', k2)
        srcs = [f1, fk[0], f1, fk[2]]
        for j in range(GATE_KINDS[k2]):
            Line(c, srcs[j], (g2, j))
        o = Node(c, 'o', 'output')
        c.io_nodes.append(o)
        Line(c, g2, o)
        o2 = Node(c, 'o2', 'output')
        c.io_nodes.append(o2)
        Line(c, f1, o2)
        yield c, ('chain', k1, k2)


def special_circuits():
    """hand-picked shapes that random generation reaches rarely"""
    # flip-flop used through its inverted output only (Q unconnected), toggling
    c = Circuit('qn_only')
    a, o, ff = Node(c, 'a', 'input'), Node(c, 'o', 'output'), Node(c, 'ff', 'DFF')
    c.io_nodes.append(a); c.io_nodes.append(o)
    fq = Node(c, 'fq')
    Line(c, (ff, 1), fq)
    g = Node(c, 'g', 'XOR2')
    Line(c, a, (g, 0)); Line(c, fq, (g, 1))
    fg = Node(c, 'fg')
    Line(c, g, fg)
    Line(c, fg, o); Line(c, fg, (ff, 0))
    yield c, ('special', 'dff-qn-only')
    # latch with data and enable pins, enable wired to a port
    c = Circuit('latch_en')
    d, en, o = Node(c, 'd', 'input'), Node(c, 'en', 'input'), Node(c, 'o', 'output')
    for n in (d, en, o):
        c.io_nodes.append(n)
    g = Node(c, 'g', 'INV1')
    Line(c, d, g)
    lt = Node(c, 'lt', 'LATCH')
    Line(c, g, (lt, 0)); Line(c, en, (lt, 1))          # enable pin driven directly by the port node
    g2 = Node(c, 'g2', 'BUF1')
    Line(c, (lt, 0), (g2, 0))
    Line(c, g2, o)
    yield c, ('special', 'latch-enable-from-port')
    # bench style: ports are forks; an OUTPUT signal also feeds further gates and a flip-flop
    c = Circuit('out_read_inside')
    a, b, x, y = Node(c, 'a'), Node(c, 'b'), Node(c, 'x'), Node(c, 'y')
    for n in (a, b, x, y):
        c.io_nodes.append(n)
    g1 = Node(c, 'x', 'NAND')
    Line(c, g1, x)
    Line(c, a, g1); Line(c, b, g1)
    g2 = Node(c, 'y', 'XOR')
    Line(c, g2, y)
    Line(c, x, g2); Line(c, a, g2)
    ff = Node(c, 'q', 'DFF')
    fq = Node(c, 'q')
    Line(c, ff, fq)
    Line(c, y, ff)
    g3 = Node(c, 'z', 'AND')
    fz = Node(c, 'z')
    c.io_nodes.append(fz)
    Line(c, g3, fz)
    Line(c, fq, g3); Line(c, x, g3)
    yield c, ('special', 'output-fork-read-inside')
    # fork chains three deep: stem read by a gate, deep branch read by a later gate and captured by an output
    for depth in (2, 3, 4):
        c = Circuit(f'chain{depth}')
        a, b, o, o2 = Node(c, 'a', 'input'), Node(c, 'b', 'input'), Node(c, 'o', 'output'), Node(c, 'o2', 'output')
        for n in (a, b, o, o2):
            c.io_nodes.append(n)
        g0 = Node(c, 'g0', 'NAND2')
        Line(c, a, (g0, 0)); Line(c, b, (g0, 1))
        f = Node(c, 's0')
        Line(c, g0, f)
        forks = [f]
        for k in range(depth - 1):
            f2 = Node(c, f's{k+1}')
            Line(c, forks[-1], f2)
            forks.append(f2)
        g1 = Node(c, 'g1', 'INV1')
        Line(c, forks[0], g1)
        g2 = Node(c, 'g2', 'BUF1')
        Line(c, g1, g2)
        g3 = Node(c, 'g3', 'BUF1')
        Line(c, g2, g3)
        g4 = Node(c, 'g4', 'XOR2')
        Line(c, g3, (g4, 0)); Line(c, forks[-1], (g4, 1))
        Line(c, g4, o)
        Line(c, forks[-1], o2)
        yield c, ('special', f'fork-chain-{depth}')
    # the same shape with the forks *created* downstream-first (as after substitute(), or by API users): tables filled per fork in creation order must not
    # assume that the upstream fork has been handled already; the branch lines get lower indices than the fork-to-fork lines
    for depth in (2, 3):
        c = Circuit(f'chainrev{depth}')
        a, b, o, o2 = Node(c, 'a', 'input'), Node(c, 'b', 'input'), Node(c, 'o', 'output'), Node(c, 'o2', 'output')
        for n in (a, b, o, o2):
            c.io_nodes.append(n)
        forks = [Node(c, f's{k}') for k in range(depth - 1, -1, -1)][::-1]          # s_{depth-1} is created first, s0 (the stem fork) last
        g4 = Node(c, 'g4', 'XOR2')
        g1 = Node(c, 'g1', 'INV1')
        Line(c, forks[-1], (g4, 1))
        Line(c, forks[-1], o2)
        Line(c, g4, o)
        Line(c, g1, (g4, 0))
        for k in range(depth - 1, 0, -1):
            Line(c, forks[k - 1], forks[k])
        Line(c, forks[0], g1)
        g0 = Node(c, 'g0', 'NAND2')
        Line(c, a, (g0, 0)); Line(c, b, (g0, 1))
        Line(c, g0, forks[0])
        yield c, ('special', f'fork-chain-downstream-first-{depth}')
    # a stem captured through a fan-out branch (flip-flop / output) whose sibling branch is consumed early, followed by a level that is wide
    # enough to re-use the stem's memory (c_reuse + strip_forks: the captured line must stay pinned through its stem)
    for capt in ('DFF', 'output'):
        for width in (4, 6):
            c = Circuit(f'stemcap_{capt}_{width}')
            ins = [Node(c, nm, 'input') for nm in ['a', 'b'] + [f'x{k}' for k in range(width)]]
            for n in ins:
                c.io_nodes.append(n)
            outs = [Node(c, f'o{k}', 'output') for k in range(width)]
            for n in outs:
                c.io_nodes.append(n)
            g = Node(c, 'n1', 'AND2')
            Line(c, ins[0], (g, 0)); Line(c, ins[1], (g, 1))
            f = Node(c, 'n1f')
            Line(c, g, f)
            if capt == 'DFF':
                q = Node(c, 'q', 'DFF')
                Line(c, f, (q, 0))
            else:
                q = Node(c, 'oq', 'output')
                c.io_nodes.append(q)
                Line(c, f, q)
            inv = Node(c, 'n2', 'INV1')
            Line(c, f, inv)
            f2 = Node(c, 'n2f')
            Line(c, inv, f2)
            for k in range(width):
                m = Node(c, f'm{k}', 'OR2')
                Line(c, f2, (m, 0)); Line(c, ins[2 + k], (m, 1))
                r = Node(c, f'r{k}', 'INV1')
                Line(c, m, r)
                Line(c, r, outs[k])
            yield c, ('special', f'stem-captured-{capt}-wide{width}')


def wide_circuit(n=150, depth=2):
    """n parallel chains (input -> BUF1 -> INV1 ...): very wide levels with single-use operands"""
    c = Circuit(f'wide{n}x{depth}')
    for i in range(n):
        a = Node(c, f'i{i}', 'input')
        c.io_nodes.append(a)
        prev = a
        for d in range(depth):
            g = Node(c, f'g{i}_{d}', 'INV1' if d % 2 else 'BUF1')
            Line(c, prev, g)
            prev = g
        o = Node(c, f'o{i}', 'output')
        c.io_nodes.append(o)
        Line(c, prev, o)
    return c


def random_circuit(rng, n_gates=8, n_in=3, n_ff=1, n_latch=0, p_unconn=0.1, p_direct=0.3, p_dangling=0.1, kinds=None,
                   p_arity_gap=0.0, p_chain=0.25):
    """p_arity_gap: probability that the *trailing* pin(s) of a gate whose kind carries a digit are left unconnected
    (the case in which 'arity by name' and 'arity by highest connected pin' differ)"""
    kinds = kinds or KIND_LIST
    c = Circuit(f'rnd{rng.randrange(1 << 30)}')
    sources = []       # callables that return a (driver, pin) able to take one more reader

    def fork_source(f):
        return lambda: f

    def add_source(f):
        """register fork f as a signal; sometimes extend it by a chain of further forks (f -> f' -> f'')"""
        sources.append(fork_source(f))
        depth = 0
        while rng.random() < p_chain and depth < 3:
            f2 = Node(c, f'{f.name}_c{depth}')
            Line(c, f, f2)
            sources.append(fork_source(f2))
            f = f2
            depth += 1

    ports = []
    for i in range(n_in):
        n = Node(c, f'in{i}', 'input')
        ports.append(n)
        f = Node(c, f'in{i}_f')
        Line(c, n, f)
        add_source(f)
    input_forks = list(sources)
    ffs = []
    for i in range(n_ff):
        kind = rng.choice(['DFF', 'dffx1', 'SDFFARX1'])
        n = Node(c, f'ff{i}', kind)
        ffs.append(n)
        qn_only = rng.random() < 0.25
        if not qn_only:
            f = Node(c, f'ff{i}_q')
            Line(c, (n, 0), f)
            add_source(f)
        if qn_only or rng.random() < 0.6:
            f2 = Node(c, f'ff{i}_qn')
            Line(c, (n, 1), f2)
            add_source(f2)
    for i in range(n_latch):
        n = Node(c, f'lt{i}', 'LATCH')
        ffs.append(n)
        f = Node(c, f'lt{i}_q')
        Line(c, (n, 0), f)
        add_source(f)
        r = rng.random()
        if r < 0.4:       # enable pin wired to a port signal through its fork
            Line(c, input_forks[rng.randrange(len(input_forks))](), (n, 1))
        elif r < 0.8:     # enable pin driven directly by a dedicated port node
            en = Node(c, f'lt{i}_en', 'input')
            ports.append(en)
            Line(c, en, (n, 1))
    pending_direct = []    # gates whose single output is still free for a direct connection
    gate_forks = []
    for g in range(n_gates):
        kind = rng.choice(kinds)
        npins = GATE_KINDS[kind]
        node = Node(c, f'g{g}', kind)
        gap_from = npins
        if rng.random() < p_arity_gap and npins > 2 and kind[-1].isdigit():
            gap_from = rng.randrange(2, npins)
        for p in range(npins):
            if p >= gap_from or rng.random() < p_unconn:
                continue
            if pending_direct and rng.random() < p_direct:
                d = pending_direct.pop(rng.randrange(len(pending_direct)))
                Line(c, d, (node, p))
            else:
                Line(c, sources[rng.randrange(len(sources))](), (node, p))
        r = rng.random()
        if r < p_dangling:
            pass                                   # output left unconnected
        elif r < p_dangling + p_direct:
            pending_direct.append(node)
        else:
            f = Node(c, f'g{g}_o')
            Line(c, node, f)
            add_source(f)
            gate_forks.append(f)
    # outputs
    outs = []
    n_out = max(1, rng.randrange(1, 4))
    for i in range(n_out):
        o = Node(c, f'out{i}', 'output')
        outs.append(o)
        if pending_direct and rng.random() < 0.5:
            Line(c, pending_direct.pop(), o)
        else:
            src = gate_forks[rng.randrange(len(gate_forks))] if gate_forks and rng.random() < 0.8 else sources[rng.randrange(len(sources))]()
            Line(c, src, o)
    for n in ffs:
        if rng.random() < 0.9:
            src = gate_forks[rng.randrange(len(gate_forks))] if gate_forks and rng.random() < 0.8 else sources[rng.randrange(len(sources))]()
            Line(c, src, (n, 0))
    # leftover direct outputs feed extra output ports so that they are observable
    for i, d in enumerate(pending_direct):
        o = Node(c, f'xout{i}', 'output')
        outs.append(o)
        Line(c, d, o)
    # forks must be gap-free and every fork needs an input (they have); forks without readers are allowed
    io = ports + outs
    rng.shuffle(io)
    for n in io:
        c.io_nodes.append(n)
    return c


def rng_for(seed, k):
    return random.Random(seed * 1000003 + k)
