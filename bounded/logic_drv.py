"""Bounded stand-in for the circuit-level clauses of C01 / C02 / C16 (and the LogicSim part of C06): the real LogicSim
is run on generated circuits and every captured value is compared with the netlist oracle spec.evaln.  Also evaluates
the *requires* of the tier-P loop contract (scratch rows, output row != operand rows, op codes) on every real SimOps
instance, i.e. the call-site precondition of LogicSim.c_prop.  Bounded evidence only."""
import numpy as np

from spec import evaln, algebra as A, gates
from vk.common import sseed,  BoundedPart
from . import gen_circuits as G


def pack(codes):
    """codes: (s_len, n) ints 0..7 -> (s_len, 3, nbytes) uint8 bit-parallel (independent of kyupy.logic)"""
    s_len, n = codes.shape
    nb = (n - 1) // 8 + 1
    out = np.zeros((s_len, 3, nb), dtype=np.uint8)
    for p in range(3):
        bits = ((codes >> p) & 1).astype(np.uint8)
        pad = np.zeros((s_len, nb * 8 - n), dtype=np.uint8)
        out[:, p, :] = np.packbits(np.concatenate([bits, pad], axis=1).reshape(s_len, nb, 8), axis=2, bitorder='little')[:, :, 0]
    return out


def unpack(bp, n):
    s_len = bp.shape[0]
    codes = np.zeros((s_len, n), dtype=np.int64)
    for p in range(bp.shape[1]):
        bits = np.unpackbits(bp[:, p, :][:, :, None], axis=2, bitorder='little').reshape(s_len, -1)[:, :n]
        codes |= bits.astype(np.int64) << p
    return codes


def to_sim_code(v, m):
    c = A.code_of(v)
    if m == 2:
        return 3 if (c & 1) else 0
    return c


def expected(c, stim, m, override=None):
    """stim: (s_len, n) codes -> dict s_index -> list of expected captured codes per pattern"""
    n = stim.shape[1]
    res = {}
    for j in range(n):
        assign = {i: A.val_of(int(stim[i, j]), 8)[:{2: 1, 4: 2, 8: 3}[m]] for i in range(stim.shape[0])}
        ov = None
        if override:
            ov = {l: A.val_of(int(vals[j]), 8)[:{2: 1, 4: 2, 8: 3}[m]] for l, vals in override.items()}
        cap = evaln.evalN(c, assign, m, ov)
        for i, v in cap.items():
            res.setdefault(i, []).append(to_sim_code(v, m))
    return res


def check_requires(b, sim, sig):
    """call-site precondition of the evaluation loop (contracts.logic_sim_c) on a real SimOps instance"""
    ops, cl = np.asarray(sim.ops), np.asarray(sim.c_locs)
    if len(ops) == 0:
        return
    from kyupy import sim as ksim
    codes = {int(getattr(ksim, nme)) for nme in gates.PRIMS}
    t0, t1 = cl[sim.tmp_idx], cl[sim.tmp2_idx]
    bad = None
    for k, op in enumerate(ops):
        if int(op[0]) & 0xffff not in codes:
            bad = f'op {k} has unknown code {op[0]}'
        locs = cl[op[1:6]]
        if (locs < 0).any() or (locs >= sim.c_len).any():
            bad = f'op {k} has a location outside [0,c_len)'
        dangling = int(op[1]) == sim.tmp_idx
        if t0 in locs[1:] or t1 in locs[1:] or (not dangling and locs[0] in (t0, t1)):
            bad = f'op {k} uses a scratch row as operand/output'
        if int(op[0]) & 0xffff not in (int(ksim.BUF1), int(ksim.INV1)) and not dangling and locs[0] in locs[1:]:
            bad = f'op {k}: output row aliases an operand row'
    if t0 == t1:
        bad = 'scratch rows coincide'
    if bad:
        b.violation('bounded:c_prop-requires', f'SimOps violates the precondition of the evaluation loop: {bad}',
                    'bounded.logic_drv:run_case', sig, function='kyupy.sim.SimOps.__init__')


def apply_history(c, hist):
    """in-place edits after the circuit has been observed: a circuit is whatever its nodes / ports / kinds say *now*"""
    for step in hist or ():
        if step[0] == 'observe':
            _ = len(c.s_nodes), len(c.io_nodes), len(c.nodes), len(c.lines)
            try:
                _ = c.stats
            except Exception:  # noqa
                pass
        elif step[0] == 'swapio':
            i, j = step[1], step[2]
            c.io_nodes[i], c.io_nodes[j] = c.io_nodes[j], c.io_nodes[i]
        elif step[0] == 'retype':
            c.nodes[step[1]].kind = step[2]
    return c


def edit_history(rng, c):
    """-> list of steps (observe first) that keep the numbers of nodes, lines and ports, or None if the circuit offers none"""
    hist = [('observe',)]
    io = {id(n) for n in c.io_nodes}
    if len(c.io_nodes) >= 2 and rng.random() < 0.6:
        i, j = rng.sample(range(len(c.io_nodes)), 2)
        hist.append(('swapio', i, j))
    cand = [n for n in c.nodes if id(n) not in io and n.kind != '__fork__' and len(n.outs) <= 1 and len(n.ins) == 1 and n.ins[0] is not None
            and 'dff' not in n.kind.lower() and 'latch' not in n.kind.lower()]        # cell -> state element only (the other way can close a combinational loop)
    if cand and (len(hist) == 1 or rng.random() < 0.7):
        n = rng.choice(cand)
        k = n.kind.lower()
        hist.append(('retype', n.index, rng.choice(['DFF', 'LATCH'])))
    return hist if len(hist) > 1 else None


def run_case(args):
    """replay: args = {'desc', 'm', 'stim', 'opts', 'cycles', 'inject', 'history'}"""
    c = apply_history(G.build(args['desc']), args.get('history'))
    stim = np.array(args['stim'], dtype=np.int64)
    r = compare(c, args['m'], stim, args.get('opts', {}), args.get('cycles', 0), args.get('inject'))
    return {'reproduced': bool(r), 'mismatches': r[:5]}


class _FalsyProbe(list):
    """a callable that evaluates to false (an empty list subclass used as a probe object)"""

    def __init__(self, fn):
        super().__init__()
        self.fn = fn

    def __call__(self, line, values):
        return self.fn(line, values)


def simulate(c, m, stim, opts, cycles=0, inject=None, calls=None, cb_style='plain'):
    from kyupy.logic_sim import LogicSim
    n = stim.shape[1]
    sim = LogicSim(c, sims=n, m=m, **opts)
    sim.s[0] = pack(stim)
    cb = None
    if inject is not None or calls is not None:
        inj = {int(k): np.array(v) for k, v in (inject or {}).items()}

        def cb(line, values):
            if calls is not None:
                calls.append((line, values))
            idx = getattr(line, 'index', None)
            if idx in inj:
                values[...] = pack(inj[idx][None, :])[0][:values.shape[0]]
            if cb_style == 'returns-false':
                return False            # a status ("nothing more to do"); the return value of a callback is not part of its interface
            if cb_style == 'returns-count':
                return len(inj)
        if cb_style == 'falsy-callable':
            cb = _FalsyProbe(cb)
    if cycles:
        sim.cycle(cycles, cb) if cb is not None else sim.cycle(cycles)
    else:
        sim.s_to_c()
        sim.c_prop(cb) if cb is not None else sim.c_prop()
        sim.c_to_s()
    return sim


def compare(c, m, stim, opts, cycles=0, inject=None, cb_style='plain'):
    """-> list of mismatch descriptions (empty = contract held)"""
    n = stim.shape[1]
    mism = []
    try:
        sim = simulate(c, m, stim, opts, cycles, inject, cb_style=cb_style)
    except Exception as e:  # noqa
        return [f'exception {e!r}']
    got = unpack(np.asarray(sim.s[1]), n)
    sn = evaln.s_nodes(c)
    if cycles:
        # oracle: next-state function applied `cycles` times with the primary inputs held
        cur = stim.copy()
        nio = len(c.io_nodes)
        for _ in range(cycles):
            exp = expected(c, cur, m)
            nxt = cur.copy()
            for i in range(nio, len(sn)):
                # a state element whose data pin is unconnected reads constant 0
                nxt[i] = exp[i] if i in exp else [0] * n
            last_exp = exp
            cur = nxt
        gs0 = unpack(np.asarray(sim.s[0]), n)
        for i in range(nio, len(sn)):
            if True:
                want = np.array(cur[i])
                have = gs0[i] if m != 2 else np.where(gs0[i] & 1, 3, 0)
                if m == 2:
                    want = np.where(want & 1, 3, 0)
                if not np.array_equal(have, want):
                    mism.append(f'state {sn[i].name} after {cycles} cycles: got {have.tolist()} want {want.tolist()}')
        exp = last_exp
    else:
        override = {int(k): v for k, v in (inject or {}).items()} or None
        exp = expected(c, stim, m, override)
    for i, want in exp.items():
        have = got[i]
        if m == 4:
            have = have & 3
        if not np.array_equal(have, np.array(want)):
            mism.append(f'{sn[i].name}: got {have.tolist()} want {list(want)}')
    return mism


def stimulus(rng, c, m, n):
    s_len = len(evaln.s_nodes(c))
    alphabet = {2: [0, 3], 4: [0, 1, 2, 3], 8: list(range(8))}[m]
    return np.array([[rng.choice(alphabet) for _ in range(n)] for _ in range(s_len)], dtype=np.int64).reshape(s_len, n)


def circuit_cases(tier, seed):
    """the shared circuit space: (circuit, signature)"""
    for c, sig in G.small_circuits():
        yield c, sig
    nrand = 120 if tier == 'quick' else 2500
    for k in range(nrand):
        rng = G.rng_for(seed, k)
        c = G.random_circuit(rng, n_gates=rng.randrange(1, 14 if tier == 'quick' else 40), n_in=rng.randrange(1, 5),
                             n_ff=rng.randrange(0, 3), n_latch=rng.randrange(0, 2))
        yield c, ('random', seed, k)


def logic_part(pid, ms, tier, seed, with_cycles=False, options=({},)):
    b = BoundedPart(f'{pid}-circuits-vs-netlist-oracle', ['kyupy.logic_sim.LogicSim (s_to_c, c_prop, c_to_s, cycle)', 'kyupy.sim.SimOps.__init__'],
                    'every 1-gate circuit over all primitive kind names x all subsets of unconnected pins, 30 two-gate reconvergent chains (exhaustive family), '
                    f'plus seeded random circuits (<= {14 if tier == "quick" else 40} gates, forks, direct lines, DFF Q/QN, latches, unconnected pins/outputs, shuffled ports); '
                    'each seeded circuit also after an observation (s_nodes, stats read) followed by in-place edits that keep all counts (two ports swapped, a one-input cell retyped to DFF/LATCH); stimuli random over the logic alphabet, batch sizes 1..17; distinct = distinct (circuit structure, m, options); non-trivial = circuit has >= 1 gate and >= 1 captured signal',
                    f'circuits: exhaustive-small family + {120 if tier == "quick" else 2500} seeded; logics {ms}; options {list(options)}')
    import random
    for c, sig in circuit_cases(tier, seed):
        desc = G.describe(c)
        for m in ms:
            for opts in options:
                rng = random.Random(sseed((seed, str(sig), m)) & 0xffffffff)
                n = rng.choice([1, 2, 3, 5, 7, 8, 9, 13, 16, 17])
                stim = stimulus(rng, c, m, n)
                key = f'bounded:{pid}:m={m}' + (':' + ','.join(f'{k}={v}' for k, v in sorted(opts.items())) if opts else '')
                args = {'desc': desc, 'm': m, 'stim': stim.tolist(), 'opts': opts}
                mism = compare(c, m, stim, opts)
                nontrivial = any(n_.kind != '__fork__' for n_ in c.nodes) and any(len(n_.ins) > 0 for n_ in evaln.s_nodes(c))
                b.case((desc['nodes'], desc['lines'], desc['io'], m, tuple(sorted(opts.items()))), nontrivial,
                       sample={'circuit': str(sig), 'm': m, 'patterns': n, 'nodes': len(c.nodes), 'options': opts})
                if mism:
                    k2 = classify(key, c, mism)
                    if k2.endswith('declared-arity-above-highest-connected-pin'):
                        # only the known reading difference?  re-judge with arity by highest connected pin
                        evaln.ARITY_BY_HIGHEST_PIN = True
                        try:
                            if compare(c, m, stim, opts):
                                k2 = key + ':value'
                        finally:
                            evaln.ARITY_BY_HIGHEST_PIN = False
                    b.violation(k2, f'LogicSim(m={m}, {opts}) on {sig}: {mism[0]}', 'bounded.logic_drv:run_case', args,
                                function='kyupy.logic_sim.LogicSim')
                    continue
                if with_cycles and m == 2 and len(evaln.s_nodes(c)) > len(c.io_nodes):
                    cyc = rng.choice([1, 2, 3, 4])
                    mism = compare(c, m, stim, opts, cycles=cyc)
                    if mism:
                        a2 = dict(args, cycles=cyc)
                        k2 = key + ':cycle'
                        if has_arity_gap(c):
                            # only the known reading difference (arity by name vs by highest connected pin)?
                            evaln.ARITY_BY_HIGHEST_PIN = True
                            try:
                                if not compare(c, m, stim, opts, cycles=cyc):
                                    k2 = ':'.join(key.split(':')[:3]) + ':declared-arity-above-highest-connected-pin'
                            finally:
                                evaln.ARITY_BY_HIGHEST_PIN = False
                        b.violation(k2, f'LogicSim.cycle({cyc}) on {sig}: {mism[0]}', 'bounded.logic_drv:run_case', a2,
                                    function='kyupy.logic_sim.LogicSim.cycle')
        # the same circuit after it has been observed and then edited in place (counts of nodes / lines / ports unchanged)
        if sig[0] == 'random':
            rng = random.Random(sseed((seed, str(sig), 'edit')) & 0xffffffff)
            c2 = G.build(desc)
            hist = edit_history(rng, c2)
            if hist is not None:
                apply_history(c2, hist)
                m, opts = ms[0], options[-1]
                if len(evaln.s_nodes(c2)) > 0:
                    stim = stimulus(rng, c2, m, rng.choice([1, 3, 8, 9]))
                    mism = compare(c2, m, stim, opts)
                    b.case(('edited', desc['nodes'], desc['lines'], desc['io'], tuple(hist), m), True, sample={'circuit': str(sig), 'history': [list(h) for h in hist], 'm': m})
                    if mism and not has_arity_gap(c2):
                        b.violation(f'bounded:{pid}:m={m}:edited-after-observation', f'LogicSim(m={m}, {opts}) on {sig} observed, then edited in place by {hist}: {mism[0]}',
                                    'bounded.logic_drv:run_case', {'desc': desc, 'history': [list(h) for h in hist], 'm': m, 'stim': stim.tolist(), 'opts': opts},
                                    function='kyupy.logic_sim.LogicSim')
        if tier == 'quick' or True:
            try:
                from kyupy.logic_sim import LogicSim
                check_requires(b, LogicSim(c, sims=1, m=8), {'desc': desc, 'm': 8, 'stim': [[0]] * len(evaln.s_nodes(c)), 'opts': {}})
            except Exception:  # noqa
                pass
    return b


def has_arity_gap(c):
    """a gate whose kind carries an arity digit above its highest connected pin (the case in which the property's
    'unconnected pins read as constant 0' and the scheduler's 'arity by highest connected pin' differ)"""
    sn = {id(x) for x in evaln.s_nodes(c)}
    for n in c.nodes:
        if n.kind == '__fork__' or id(n) in sn:
            continue
        prim, arity = evaln.primitive_of(n)
        conn = [j for j in range(len(n.ins)) if n.ins[j] is not None]
        if arity is not None and n.kind[-1:].isdigit() and arity > 2 and (not conn or max(conn) + 1 < arity):
            return True
    return False


def classify(key, c, mism):
    """refine the violation key by the structural feature that distinguishes known findings from new violations"""
    feats = []
    for n in c.nodes:
        if n.kind == '__fork__' or id(n) in {id(x) for x in evaln.s_nodes(c)}:
            continue
        prim, arity = evaln.primitive_of(n)
        conn = [j for j in range(len(n.ins)) if n.ins[j] is not None]
        if arity is not None and n.kind[-1:].isdigit() and (not conn or max(conn) + 1 < arity) and arity > 2:
            feats.append('declared-arity-above-highest-connected-pin')
        if any(l is None for l in n.ins) or len(n.ins) == 0:
            feats.append('unconnected-pin')
    if 'exception' in mism[0]:
        return key + ':exception'
    if 'declared-arity-above-highest-connected-pin' in feats:
        return ':'.join(key.split(':')[:3]) + ':declared-arity-above-highest-connected-pin'
    if 'unconnected-pin' in feats:
        return key + ':unconnected-pin'
    return key + ':value'
