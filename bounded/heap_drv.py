"""Bounded stand-in / CPython cross-check for the sim.Heap contract: HeapInv and the abstract-view postconditions evaluated
on the REAL Heap after every step of every alloc/free history up to a stated length (exhaustive)."""
import itertools

from vk.common import BoundedPart


def heap_inv(h, live, hwm):
    """-> list of violated clauses; ``live``: dict loc -> size expected live (abstract view)"""
    bad = []
    ch, rel = h.chunks, h.released
    if any(s <= 0 for s in ch.values()):
        bad.append('sizes>0')
    locs = sorted(ch)
    pos = 0
    for l in locs:
        if l != pos:
            bad.append('chunks tile [0,current_size)')
            break
        pos = l + ch[l]
    else:
        if pos != h.current_size:
            bad.append('chunks tile [0,current_size)')
    if list(rel) != sorted(set(rel)):
        bad.append('released strictly sorted')
    if any(r not in ch for r in rel):
        bad.append('released subset of chunks')
    else:
        for r in rel:
            if r + ch[r] == h.current_size:
                bad.append('no free chunk at the end (tail trimmed)')
            if r + ch[r] in rel:
                bad.append('adjacent free chunks coalesced')
    view = {l: s for l, s in ch.items() if l not in rel}
    if view != live:
        bad.append(f'live view {view} != expected {live}')
    if h.max_size != hwm:
        bad.append(f'max_size {h.max_size} != high-water mark {hwm}')
    return bad


def run_history(args):
    from kyupy.sim import Heap
    r = play(Heap(), args['history'])
    return {'reproduced': bool(r), 'violated': r}


def play(h, history):
    live, hwm = {}, 0
    for step, (op, x) in enumerate(history):
        if op == 'a':
            try:
                loc = h.alloc(x)
            except Exception as e:  # noqa
                return [f'step {step}: alloc({x}) raised {e!r}']
            for l, s in live.items():
                if loc < l + s and l < loc + x:
                    return [f'step {step}: alloc({x}) returned {loc} overlapping live chunk ({l},{s})']
            if loc in live:
                return [f'step {step}: alloc returned a live location']
            live[loc] = x
            hwm = max(hwm, h.current_size)
        else:
            locs = sorted(live)
            if x >= len(locs):
                continue
            loc = locs[x]
            try:
                h.free(loc)
            except Exception as e:  # noqa
                return [f'step {step}: free({loc}) raised {e!r}']
            del live[loc]
        bad = heap_inv(h, live, hwm)
        if bad:
            return [f'step {step} ({op},{x}): {b}' for b in bad]
    return []


def part(tier):
    from kyupy.sim import Heap
    maxlen = 6 if tier == 'quick' else 8
    b = BoundedPart('Heap-histories-exhaustive', ['kyupy.sim.Heap.alloc', 'kyupy.sim.Heap.free'],
                    f'all alloc/free histories of length <= {maxlen}: alloc sizes {{1,2,3}}, free of the i-th live chunk (address order, i < 4); after every step HeapInv '
                    '(tiling, sorted/coalesced/trimmed free list, max_size = high-water mark) and the abstract live view are compared; distinct = history; non-trivial = history contains a free',
                    f'length <= {maxlen}, sizes 1..3', exhaustive=True)
    moves = [('a', 1), ('a', 2), ('a', 3), ('f', 0), ('f', 1), ('f', 2), ('f', 3)]
    for n in range(1, maxlen + 1):
        for hist in itertools.product(moves, repeat=n):
            if hist[0][0] == 'f':
                continue
            r = play(Heap(), hist)
            b.case(hist, any(o == 'f' for o, _ in hist), sample={'history': [list(x) for x in hist]})
            if r:
                b.violation('bounded:Heap:' + r[0].split(': ', 1)[-1].split(' ')[0], f'history {hist}: {r[0]}', 'bounded.heap_drv:run_history',
                            {'history': [list(x) for x in hist]}, function='kyupy.sim.Heap')
    return b
