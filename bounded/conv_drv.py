"""C15 bounded stand-in: contracts of the encoding conversions of kyupy.logic (and popcount) evaluated on the real functions
over every shape with <= 3 axes and small extents, all short strings over the value alphabet incl. aliases, all integer dtypes."""
import itertools
import random

import numpy as np

from vk.common import sseed, BoundedPart

CHARS = '0X-1PRFN'
ALIASES = {0: [0, '0', False, 'L', 'l'], 3: [1, '1', True, 'H', 'h'], 2: [None, '-', 'Z', 'z'], 5: ['R', 'r', '/'], 6: ['F', 'f', '\\'], 4: ['P', 'p', '^'],
           7: ['N', 'n', 'v'], 1: ['X', 'x', '?', 'q', 2, 7, 'U']}


def oracle_bp(mva):
    """(..., signals, patterns) -> (..., signals, 3, ceil(patterns/8)), bit b of byte j in plane k = bit k of pattern 8j+b"""
    *lead, s, n = mva.shape
    nb = (n + 7) // 8
    out = np.zeros((*lead, s, 3, nb), dtype=np.uint8)
    for idx in np.ndindex(*lead, s, n):
        v = int(mva[idx])
        *li, si, pi = idx
        for k in range(3):
            if (v >> k) & 1:
                out[(*li, si, k, pi // 8)] |= (1 << (pi % 8))
    return out


def run_case(args):
    r = check_case(args)
    return {'reproduced': bool(r), 'violated': r}


def check_case(a):
    from kyupy import logic
    import kyupy
    kind = a['kind']
    try:
        if kind == 'bp':
            mva = np.array(a['mva'], dtype=np.uint8).reshape(a['shape'])
            bp = logic.mv_to_bp(mva)
            m2 = mva if mva.ndim > 1 else mva[..., np.newaxis]
            want = oracle_bp(m2)
            if bp.shape != want.shape or bp.dtype != np.uint8 or not np.array_equal(bp, want):
                return [('mv_to_bp', f'shape {mva.shape}: got shape {bp.shape}, expected {want.shape} with patterns on the last axis / padding lanes 0')]
            back = logic.bp_to_mv(bp)
            n = m2.shape[-1]
            if back.shape[:-1] != m2.shape[:-1] or not np.array_equal(back[..., :n], m2) or back[..., n:].any():
                return [('bp_to_mv', f'shape {mva.shape}: round trip lost data or padding lanes are not 0')]
            # rendering: one line per pattern (last axis), one character per signal (second-to-last axis); a vector is one line
            if mva.ndim <= 2:
                txt = str(logic.mv_str(mva))
                if mva.ndim == 1:
                    want_lines = [''.join(CHARS[int(v)] for v in mva)]
                else:
                    want_lines = [''.join(CHARS[int(mva[i, j])] for i in range(mva.shape[0])) for j in range(mva.shape[1])]
                if txt.split('\n') != want_lines:
                    return [('mv_str:axis-convention', f'mv_str of an array of shape {mva.shape} gives {txt!r}, expected the lines {want_lines}')]
        elif kind == 'str':
            strs = a['strings']
            mva = logic.mvarray(*strs)
            codes = [[CHARS.index(ch) for ch in s] for s in strs]
            if len(strs) == 1:
                want = np.array(codes[0], dtype=np.uint8)
            else:
                want = np.array(codes, dtype=np.uint8).T          # signals on the second-to-last axis, patterns on the last
            if mva.shape != want.shape or not np.array_equal(mva, want):
                return [('mvarray', f'mvarray{tuple(strs)}: shape {mva.shape} values {mva.tolist()}, expected {want.tolist()}')]
            txt = logic.mv_str(mva)
            if list(str(txt).split('\n')) != list(strs):
                return [('mv_str', f'mv_str(mvarray{tuple(strs)}) = {txt!r}')]
            bp = logic.bparray(*strs)
            if not np.array_equal(bp, logic.mv_to_bp(mva)):
                return [('bparray', f'bparray{tuple(strs)} differs from mv_to_bp(mvarray(..))')]
        elif kind == 'nested':
            # nested argument lists: k arguments, each a list of s strings of length n -> losslessly (k, n, s): characters (patterns) last,
            # the strings of one argument (signals) second-to-last; for s == 1 the singleton axis may be dropped ((k, n)) or kept ((k, n, 1))
            groups = a['groups']
            k, s_, n = len(groups), len(groups[0]), len(groups[0][0])
            mva = logic.mvarray(*groups)
            codes = np.array([[[CHARS.index(ch) for ch in st] for st in g] for g in groups], dtype=np.uint8)       # (k, s, n)
            ok_shapes = [(k, n, s_)] + ([(k, n)] if s_ == 1 else [])
            if mva.shape not in ok_shapes:
                return [('mvarray:nested-lossless', f'mvarray{tuple(groups)}: shape {mva.shape}, expected one of {ok_shapes} ({k * s_ * n} values given)')]
            got = mva.reshape(k, n, s_)
            if not np.array_equal(got, codes.swapaxes(-1, -2)):
                return [('mvarray:nested-lossless', f'mvarray{tuple(groups)} = {mva.tolist()}')]
        elif kind == 'pop':
            arr = np.array(a['data'], dtype=np.uint8).reshape(a['shape'])
            if a.get('signed'):
                arr = arr.view(np.int8)          # the same packed bytes seen as int8: the one bits are those of the two's complement representation
            if a.get('strided'):
                arr = np.repeat(arr, 2, axis=-1)[..., ::2]
            pc = kyupy.popcount(arr)
            want = sum(bin(int(x) & 0xff).count('1') for x in arr.ravel())
            if int(pc) != want:
                return [('popcount', f'popcount of a {arr.dtype} array of shape {arr.shape} = {int(pc)}, it has {want} one bits')]
        elif kind == 'alias':
            for code, vals in ALIASES.items():
                for v in vals:
                    g = logic.interpret(v)
                    if g != code:
                        return [('interpret', f'interpret({v!r}) = {g}, documented value {code}')]
            g = logic.interpret(['01', ('X', None), [True, 'r']])
            if g != [[0, 3], [1, 2], [3, 5]]:
                return [('interpret:nested', f'{g}')]
            for k, ch in enumerate(CHARS):
                if str(logic.mv_str(np.array([k], dtype=np.uint8))) != ch or int(logic.mvarray(ch)[0]) != k:
                    return [('value-character', f'value {k} <-> {ch!r}')]
        elif kind == 'bits':
            dt = np.dtype(a['dtype'])
            arr = np.array(a['data'], dtype=dt).reshape(a['shape'])
            u = logic.unpackbits(arr)
            if u.shape != (*arr.shape, 8 * dt.itemsize):
                return [('unpackbits:shape', f'{u.shape}')]
            native = dt.isnative or dt.itemsize == 1
            for idx in np.ndindex(*arr.shape):
                if not native:
                    break           # the documented bit order is claimed for native byte order only; the inverse clause below is for every dtype
                v = int(arr[idx]) & ((1 << (8 * dt.itemsize)) - 1)
                if [int(b) for b in u[idx]] != [(v >> k) & 1 for k in range(8 * dt.itemsize)]:
                    return [('unpackbits:little-endian-bits', f'{arr[idx]} -> {u[idx].tolist()}')]
            p = logic.packbits(u, dt)
            if p.shape != arr.shape or p.dtype != dt or not np.array_equal(p, arr):
                return [('packbits:inverse', f'dtype {dt}: packbits(unpackbits(a)) != a')]
            # documented padding / truncation: fewer bits than the dtype -> signed dtypes repeat the last given bit, others pad with 0; more bits are cut
            w = 8 * dt.itemsize
            for nb in sorted({1, 3, w // 2, w - 1, w + 3}):
                if nb < 1 or not native:
                    continue
                part = u[..., :nb] if nb <= w else np.concatenate([u, np.ones((*u.shape[:-1], nb - w), dtype=u.dtype)], axis=-1)
                pp = logic.packbits(part, dt)
                for idx in np.ndindex(*arr.shape):
                    bits = [int(b) for b in part[idx]][:w]
                    if len(bits) < w:
                        bits = bits + [bits[-1] if dt.kind == 'i' else 0] * (w - len(bits))
                    val = sum(b << k for k, b in enumerate(bits))
                    if dt.kind == 'i' and val >= 1 << (w - 1):
                        val -= 1 << w
                    if pp.shape != arr.shape or int(pp[idx]) != val:
                        return [('packbits:padding', f'dtype {dt}: {nb} bits {[int(b) for b in part[idx]][:12]} pack to {int(pp[idx]) if pp.shape == arr.shape else pp.shape}, documented {val}')]
            if dt == np.uint8:
                pc = kyupy.popcount(arr)
                want = sum(bin(int(x)).count('1') for x in arr.ravel())
                if int(pc) != want:
                    return [('popcount', f'{int(pc)} != {want}')]
    except Exception as e:  # noqa
        return [(f'{kind}:exception', repr(e))]
    return []


def part(tier, seed):
    b = BoundedPart('C15-conversions', ['kyupy.logic.interpret/mvarray/mv_str', 'mv_to_bp/bp_to_mv/bparray', 'unpackbits/packbits', 'kyupy.popcount'],
                    'mv_to_bp / bp_to_mv on every shape with 1-3 axes and extents 1..10 (so every pattern count 1..10 and some up to 17) against an independent bit-by-bit oracle '
                    '(patterns on the last axis, signals on the second-to-last, padding lanes 0, lossless round trip); mvarray / mv_str / bparray on all strings of length <= 2 over '
                    'the 8 value characters as single vectors and all pairs / triples of equal-length strings up to length 3 (sampled); every alias of interpret; unpackbits / packbits '
                    'on 9 integer dtypes x shapes in native and explicit big/little-endian byte order (inverse clause for every one, documented bit order and padding for native); nested argument lists (k arguments x s strings x n characters); popcount on 1-3 axis uint8 arrays up to 48 bytes incl. all-ones, high-bit and non-contiguous data; distinct = case', 'shapes <= 3 axes, extents <= 10 (+17); strings <= 4; 17 dtype spellings', exhaustive=False)
    rng = random.Random(seed)
    cases = [{'kind': 'alias'}]
    shapes = [(n,) for n in range(1, 11)] + [(s, n) for s in range(1, 5) for n in list(range(1, 11)) + [16, 17]] + \
             [(a, s, n) for a in (1, 2, 3) for s in (1, 3) for n in (1, 7, 8, 9, 10)]
    for sh in shapes:
        cases.append({'kind': 'bp', 'shape': list(sh), 'mva': [rng.randrange(8) for _ in range(int(np.prod(sh)))]})
    for L in (1, 2):
        for s in itertools.product(CHARS, repeat=L):
            cases.append({'kind': 'str', 'strings': [''.join(s)]})
    for L in (2, 3, 4):      # several 1-character strings are indistinguishable from one vector of scalars (documented API ambiguity, not claimed)
        for k in (2, 3):
            for _ in range(40 if tier == 'quick' else 400):
                cases.append({'kind': 'str', 'strings': [''.join(rng.choice(CHARS) for _ in range(L)) for _ in range(k)]})
    for L in (2, 3, 4):             # 1-character strings are characters, not strings (documented ambiguity, not claimed)
        for k in (1, 2, 3):
            for s_ in (1, 2, 3):
                cases.append({'kind': 'nested', 'groups': [[''.join(rng.choice(CHARS) for _ in range(L)) for _ in range(s_)] for _ in range(k)]})
    for sh in ((1,), (7,), (8,), (9,), (16,), (17,), (40,), (3, 8), (8, 3), (2, 3, 8), (5, 5)):
        nel = int(np.prod(sh))
        for data in ([255] * nel, [0x80] * nel, [rng.randrange(256) for _ in range(nel)], [rng.choice((0x80, 0xff, 0x7f, 1)) for _ in range(nel)]):
            cases.append({'kind': 'pop', 'shape': list(sh), 'data': data})
            cases.append({'kind': 'pop', 'shape': list(sh), 'data': data, 'strided': True})
            cases.append({'kind': 'pop', 'shape': list(sh), 'data': data, 'signed': True})
    for dt in ('uint8', 'int8', 'uint16', 'int16', 'uint32', 'int32', 'uint64', 'int64', 'bool', '>u2', '>i2', '>u4', '>i4', '>u8', '>i8', '<u2', '<i8'):
        for sh in ((3,), (2, 3), (1, 2, 2)):
            info = np.iinfo(dt) if dt != 'bool' else None
            data = [(rng.randrange(info.min, info.max + 1) if info else rng.randrange(2)) for _ in range(int(np.prod(sh)))]
            if info:
                data[0], data[-1] = info.min, info.max
            cases.append({'kind': 'bits', 'dtype': dt, 'shape': list(sh), 'data': data})
    for a in cases:
        b.case(repr(a)[:200], a['kind'] != 'alias', sample=a if len(repr(a)) < 300 else {'kind': a['kind'], 'shape': a.get('shape')})
        for clause, msg in check_case(a):
            b.violation(f'bounded:C15:{clause}', msg[:300], 'bounded.conv_drv:run_case', a, function='kyupy.logic')
    return b
