"""C17 -- contracts of the graph traversals and name lookups of kyupy.circuit.Circuit, evaluated at run time on the real
generators over the shared circuit space (bounded stand-in; Kahn's algorithm over an object graph with reachability in
the postcondition is outside pyvc's reach, DESIGN.md 5-C17)."""
import itertools
import random

from vk.common import sseed,  BoundedPart
from spec import evaln
from . import gen_circuits as G


def is_state(n):
    return evaln.is_dff(n) or evaln.is_latch(n)


def connected_ins(n):
    return [l for l in n.ins if l is not None]


def connected_outs(n):
    return [l for l in n.outs if l is not None]


def is_source(n):
    return is_state(n) or not connected_ins(n)


def spec_levels(c):
    lv = {}

    def level(n, stack=()):
        if id(n) in lv:
            return lv[id(n)]
        if is_source(n):
            r = 0
        else:
            r = 1 + max(level(l.driver) for l in connected_ins(n))
        lv[id(n)] = r
        return r
    for n in c.nodes:
        level(n)
    return lv


def comb_fanin(c, origins):
    """nodes with a path to an origin that does not pass *through* a state element (a state element may start it)"""
    seen = {id(o): o for o in origins}
    work = list(origins)
    first = {id(o) for o in origins}
    while work:
        n = work.pop()
        if is_state(n) and id(n) not in first:
            continue                        # do not walk through a state element
        if is_state(n) and id(n) in first:
            # an origin that is a state element: its own fan-in is the cone feeding its data pins
            pass
        for l in connected_ins(n):
            d = l.driver
            if id(d) not in seen:
                seen[id(d)] = d
                work.append(d)
    return seen


def any_fanin(c, origins):
    seen = {id(o): o for o in origins}
    work = list(origins)
    while work:
        n = work.pop()
        for l in connected_ins(n):
            if id(l.driver) not in seen:
                seen[id(l.driver)] = l.driver
                work.append(l.driver)
    return seen


def check_circuit(c):
    """-> list of (clause, message)"""
    out = []
    nodes = list(c.nodes)
    # ---- topological_order
    try:
        order = list(c.topological_order())
    except Exception as e:  # noqa
        return [('topological_order:exception', repr(e))]
    pos = {}
    for i, n in enumerate(order):
        if id(n) in pos:
            out.append(('topological_order:once', f'node {n.name} yielded twice'))
        pos[id(n)] = i
    missing = [n for n in nodes if id(n) not in pos]
    if missing:
        out.append(('topological_order:complete', f'node {missing[0].name} (kind {missing[0].kind}, ins {[None if l is None else l.index for l in missing[0].ins]}) never yielded'))
    if not missing:
        for l in c.lines:
            if not is_state(l.reader) and not pos[id(l.driver)] < pos[id(l.reader)]:
                out.append(('topological_order:driver-before-reader', f'line {l.index}: {l.driver.name} after {l.reader.name}'))
                break
        srcs = [pos[id(n)] for n in nodes if is_source(n)]
        rest = [pos[id(n)] for n in nodes if not is_source(n)]
        if srcs and rest and max(srcs) > min(rest):
            out.append(('topological_order:sources-first', 'a node with connected inputs precedes an input/state element'))
    # ---- with_level
    try:
        wl = list(c.topological_order_with_level())
        lv = spec_levels(c)
        if [id(n) for n, _ in wl] != [id(n) for n in order]:
            out.append(('with_level:same-order', 'order differs from topological_order'))
        for n, l in wl:
            if int(l) != lv[id(n)]:
                out.append(('with_level:level', f'{n.name}: level {int(l)}, longest combinational distance {lv[id(n)]}'))
                break
    except Exception as e:  # noqa
        out.append(('with_level:exception', repr(e)))
    # ---- line order
    try:
        lo = list(c.topological_line_order())
        if sorted(l.index for l in lo) != list(range(len(c.lines))):
            out.append(('line_order:complete-once', f'{len(lo)} lines yielded, circuit has {len(c.lines)}'))
        elif not missing:
            dp = [pos[id(l.driver)] for l in lo]
            if dp != sorted(dp):
                out.append(('line_order:order', 'lines not ordered by the position of their driver'))
    except Exception as e:  # noqa
        out.append(('line_order:exception', repr(e)))
    # ---- reversed
    rpos = {}
    try:
        rorder = list(c.reversed_topological_order())
        for i, n in enumerate(rorder):
            if id(n) in rpos:
                out.append(('reversed:once', f'node {n.name} yielded twice'))
            rpos[id(n)] = i
        rmissing = [n for n in nodes if id(n) not in rpos]
        if rmissing:
            out.append(('reversed:complete', f'node {rmissing[0].name} never yielded'))
        else:
            for l in c.lines:
                if not is_state(l.driver) and not rpos[id(l.reader)] < rpos[id(l.driver)]:
                    out.append(('reversed:reader-before-driver', f'line {l.index}'))
                    break
            sinks = [rpos[id(n)] for n in nodes if is_state(n) or not connected_outs(n)]
            rest = [rpos[id(n)] for n in nodes if not (is_state(n) or not connected_outs(n))]
            if sinks and rest and max(sinks) > min(rest):
                out.append(('reversed:sinks-first', 'a node with connected outputs precedes an output/state element'))
    except Exception as e:  # noqa
        out.append(('reversed:exception', repr(e)))
    return out


def check_fanin(c, origins):
    out = []
    try:
        got = list(c.fanin(origins))
    except Exception as e:  # noqa
        return [('fanin:exception', repr(e))]
    ids = [id(n) for n in got]
    if len(ids) != len(set(ids)):
        out.append(('fanin:once', 'a node yielded twice'))
    must = comb_fanin(c, origins)
    may = any_fanin(c, origins)
    for k, n in must.items():
        if k not in set(ids):
            out.append(('fanin:complete', f'{n.name} ({n.kind}) has a combinational path to an origin but is not yielded'))
            break
    for n in got:
        if id(n) not in may:
            out.append(('fanin:sound', f'{n.name} yielded without any path to an origin'))
            break
    return out


# ------------------------------------------------------------------------------------------------ name lookups
def naming_cases(rng):
    """-> (list of port names in io order, prefix, expected result) built by construction"""
    cases = []

    def place(names_with_keys):
        names = [n for n, _ in names_with_keys]
        order = names[:]
        rng.shuffle(order)
        return order, {n: order.index(n) for n in names}

    for style in ('a[{}]', 'a_{}', 'a{}'):
        for idxs in ([0, 1, 2, 3], [3, 2, 1, 0], [0, 2, 5, 11], [9, 10, 11], [7]):
            extra = ['clk', 'zz[0]', 'zz[1]']
            names = [style.format(i) for i in idxs]
            order = names + extra
            rng.shuffle(order)
            want = [order.index(style.format(i)) for i in sorted(idxs)]
            want = want[0] if len(want) == 1 else want
            cases.append((order, 'a', want, f'{style} idx {idxs}'))
    for style in ('m[{}][{}]', 'm_{}_{}'):
        dims = [(i, j) for i in range(3) for j in range(2)]
        names = [style.format(i, j) for i, j in dims]
        order = names + ['q']
        rng.shuffle(order)
        want = [[order.index(style.format(i, j)) for j in range(2)] for i in range(3)]
        cases.append((order, 'm', want, f'2-D {style}'))
    # ragged 2-D names: a row with a single member stays a one-element list (only the outermost level is unwrapped)
    for style in ('m[{}][{}]', 'm_{}_{}'):
        dims = [(0, 0), (1, 0), (1, 1), (2, 3)]
        names = [style.format(i, j) for i, j in dims]
        order = names + ['q', 'clk']
        rng.shuffle(order)
        want = [[order.index(style.format(0, 0))], [order.index(style.format(1, 0)), order.index(style.format(1, 1))], [order.index(style.format(2, 3))]]
        cases.append((order, 'm', want, f'ragged 2-D {style} with one-member rows'))
    order = ['ab[1]', 'a[0]', 'ab[0]', 'y']
    cases.append((order, 'a', [[1], [2, 0]], 'prefix collision with a one-bit bus'))
    # prefix collision: 'a' also matches bus 'ab' -> documented: alphanumerically sorted list of lists
    order = ['a[1]', 'ab[0]', 'a[0]', 'ab[1]', 'x']
    cases.append((order, 'a', [[2, 0], [1, 3]], 'prefix collision a / ab'))
    cases.append((order, 'ab', [1, 3], 'longer prefix'))
    cases.append((order, 'x', 4, 'scalar'))
    cases.append((order, 'nomatch', None, 'no match'))
    return cases


def locs_part(seed):
    from kyupy.circuit import Circuit, Node
    b = BoundedPart('C17-name-lookups', ['kyupy.circuit.Circuit.io_locs', 'kyupy.circuit.Circuit.s_locs', 'kyupy.circuit.Circuit._locs'],
                    'bus/prefix lookups on generated port lists: index styles a[i], a_i, ai; ascending/descending/gapped/2-digit indices; 2-D names; '
                    'prefix collisions; scalar; no match; ports shuffled; s_locs additionally with flip-flops named like buses; expected value by construction',
                    '5 index sets x 3 styles + 2-D + collisions, 3 shuffles each', exhaustive=False)
    for rep in range(3):
        rng = random.Random(seed * 7 + rep)
        for order, prefix, want, what in naming_cases(rng):
            c = Circuit('names')
            for nme in order:
                c.io_nodes.append(Node(c, nme, 'input'))
            # state elements for s_locs: a bus of flip-flops r[0..2] after the ports
            for i in (2, 0, 1):
                Node(c, f'r[{i}]', 'DFF')
            b.case((tuple(order), prefix), sample={'ports': order, 'prefix': prefix, 'expected': want})
            try:
                got = c.io_locs(prefix)
                gs = c.s_locs(prefix)
                gr = c.s_locs('r')
            except Exception as e:  # noqa
                b.violation('bounded:C17:locs:exception', f'io_locs({prefix!r}) on {order}: {e!r}', 'bounded.traversal_drv:run_locs',
                            {'order': order, 'prefix': prefix, 'want': want}, function='kyupy.circuit.Circuit._locs')
                continue
            n = len(order)
            want_r = [n + 1, n + 2, n + 0]
            if got != want or gs != want:
                b.violation('bounded:C17:locs:value', f'io_locs({prefix!r}) on {order} [{what}] = {got}, expected {want}', 'bounded.traversal_drv:run_locs',
                            {'order': order, 'prefix': prefix, 'want': want}, function='kyupy.circuit.Circuit._locs')
            if gr != want_r:
                b.violation('bounded:C17:s_locs:state-elements', f's_locs("r") = {gr}, expected {want_r}', 'bounded.traversal_drv:run_locs',
                            {'order': order, 'prefix': 'r', 'want': want_r}, function='kyupy.circuit.Circuit.s_locs')
    return b


def run_locs(args):
    from kyupy.circuit import Circuit, Node
    c = Circuit('names')
    for nme in args['order']:
        c.io_nodes.append(Node(c, nme, 'input'))
    for i in (2, 0, 1):
        Node(c, f'r[{i}]', 'DFF')
    try:
        got = c.s_locs(args['prefix'])
    except Exception as e:  # noqa
        return {'reproduced': True, 'observed': repr(e)}
    return {'reproduced': got != args['want'], 'observed': got, 'expected': args['want']}


def edited(desc, victim):
    """observe every traversal, then remove node ``victim`` with its lines (the node with the highest index takes over its index) and add an
    unconnected node, so that the node count is what it was: traversals must not depend on anything remembered from before the edit"""
    from kyupy.circuit import Node
    c = G.build(desc)
    for nm in ('topological_order', 'topological_order_with_level', 'reversed_topological_order', 'topological_line_order'):
        f = getattr(c, nm, None)
        if f is not None:
            list(f())
    list(c.fanin([c.nodes[-1]]))
    v = c.nodes[victim]
    for l in [l for l in list(v.ins) + list(v.outs) if l is not None]:
        l.remove()
    v.remove()
    Node(c, '__extra', 'BUF')
    return c


def history_shapes():
    """a flip-flop in a feedback loop created last, an unused cell before it"""
    for kind in ('DFF', 'latch', 'SDFFX1'):
        yield {'nodes': [('a', 'input'), ('spare', 'BUF'), ('g', 'AND'), ('fk', '__fork__'), ('o', 'output'), ('ff', kind)],
               'lines': [(0, 0, 2, 0), (5, 0, 2, 1), (2, 0, 3, 0), (3, 0, 5, 0), (3, 1, 4, 0)], 'io': [0, 4]}, 1, ('history', 'state-element-moves-into-freed-index', kind)


def run_traversal(args):
    c = G.build(args['desc']) if 'edit' not in args else edited(args['desc'], args['edit'])
    v = check_circuit(c)
    if 'origins' in args:
        v += check_fanin(c, [c.nodes[i] for i in args['origins']])
    return {'reproduced': bool(v), 'violated': v[:5]}


def extra_circuits(seed, tier):
    """circuits with unconnected pins in every position (incl. pin 0, all pins, trailing None after Line.remove)"""
    from kyupy.circuit import Circuit, Node, Line
    for npins in (1, 2, 3):
        for conn in itertools.chain.from_iterable(itertools.combinations(range(npins), r) for r in range(npins + 1)):
            c = Circuit('unconn')
            g = Node(c, 'g', 'AND')
            for p in conn:
                i = Node(c, f'i{p}', 'input')
                c.io_nodes.append(i)
                Line(c, i, (g, p))
            o = Node(c, 'o', 'output')
            c.io_nodes.append(o)
            Line(c, g, o)
            yield c, ('unconn', npins, conn)
    # a gate that lost all of its lines again (ins = [None, None])
    c = Circuit('removed')
    i0, i1, g, o = Node(c, 'i0', 'input'), Node(c, 'i1', 'input'), Node(c, 'g', 'OR'), Node(c, 'o', 'output')
    l0, l1 = Line(c, i0, g), Line(c, i1, g)
    Line(c, g, o)
    l0.remove()
    l1.remove()
    yield c, ('removed-lines',)
    # output pins with gaps: a cell driving only its second output
    c = Circuit('outgap')
    i0, g, o = Node(c, 'i0', 'input'), Node(c, 'g', 'HADD'), Node(c, 'o', 'output')
    Line(c, i0, g)
    Line(c, (g, 1), o)
    yield c, ('output-gap',)
    # counters must not wrap: a net with several hundred readers (clock / enable fork) and a gate with several hundred inputs
    for width in (255, 256, 300, 520):
        c = Circuit('widefork')
        i0, f = Node(c, 'clk', 'input'), Node(c, 'clk_fork', '__fork__')
        c.io_nodes.append(i0)
        Line(c, i0, f)
        for k in range(width):
            g = Node(c, f'b{k}', 'BUF')
            Line(c, (f, k), g)
            o = Node(c, f'o{k}', 'output')
            c.io_nodes.append(o)
            Line(c, g, o)
        yield c, ('wide-fork', width)
    for width in (256, 300):
        c = Circuit('widegate')
        g, o = Node(c, 'g', 'AND'), Node(c, 'o', 'output')
        for k in range(width):
            i = Node(c, f'i{k}', 'input')
            c.io_nodes.append(i)
            Line(c, i, (g, k))
        c.io_nodes.append(o)
        Line(c, g, o)
        yield c, ('wide-gate', width)


def traversal_part(tier, seed):
    from . import logic_drv
    b = BoundedPart('C17-traversals', ['kyupy.circuit.Circuit.topological_order', 'topological_order_with_level', 'topological_line_order',
                                       'reversed_topological_order', 'fanin'],
                    'the shared circuit space (all 1-gate circuits x all subsets of unconnected pins, 2-gate chains, seeded random circuits with DFF/latch/forks/dangling '
                    'outputs) plus dedicated unconnected-pin shapes (pin 0 / all pins / removed lines / output gaps) and wide shapes (a fork with 255..520 readers, a gate with 256 / 300 inputs); fan-in for every single origin and random origin sets; edit histories (all traversals observed, a node removed so that the last node takes its index, a node added, all traversals checked again); '
                    'distinct = circuit structure; non-trivial = >= 1 line',
                    f'exhaustive-small family + {120 if tier == "quick" else 2500} seeded circuits')
    cases = itertools.chain(extra_circuits(seed, tier), logic_drv.circuit_cases(tier, seed))
    for c, sig in cases:
        desc = G.describe(c)
        b.case((desc['nodes'], desc['lines']), len(c.lines) > 0, sample={'circuit': str(sig), 'nodes': len(c.nodes), 'lines': len(c.lines)})
        for clause, msg in check_circuit(c):
            b.violation(f'bounded:C17:{clause}', f'{clause} on {sig}: {msg}', 'bounded.traversal_drv:run_traversal', {'desc': desc},
                        function='kyupy.circuit.Circuit.' + clause.split(':')[0])
        rng = random.Random(sseed(str(sig)) & 0xffff)
        origin_sets = [[n] for n in list(c.nodes)[:12]] + [rng.sample(list(c.nodes), min(len(c.nodes), 2))]
        for origins in origin_sets:
            for clause, msg in check_fanin(c, origins):
                b.violation(f'bounded:C17:{clause}', f'{clause} on {sig}, origins {[o.name for o in origins]}: {msg}', 'bounded.traversal_drv:run_traversal',
                            {'desc': desc, 'origins': [o.index for o in origins]}, function='kyupy.circuit.Circuit.fanin')
    # edit histories: every traversal observed, one node removed (the last node moves into its index), one node added, traversals checked again
    hist = list(history_shapes())
    for c, sig in itertools.chain(extra_circuits(seed, tier), logic_drv.circuit_cases(tier, seed)):
        if len(c.nodes) > 60:
            continue
        desc = G.describe(c)
        rng = random.Random(sseed('edit' + str(sig)) & 0xffff)
        cand = [n.index for n in list(c.nodes)[:-1] if not any(n is p for p in c.io_nodes)]
        for vi in rng.sample(cand, min(len(cand), 2 if tier == 'quick' else 6)):
            hist.append((desc, vi, ('edited', str(sig), vi)))
    for desc, vi, sig in hist:
        try:
            c2 = edited(desc, vi)
            viol = check_circuit(c2)
        except Exception as e:  # noqa
            viol = [('history:exception', repr(e))]
        b.case(('edit', tuple(map(tuple, desc['nodes'])), tuple(map(tuple, desc['lines'])), vi), True, sample={'circuit': str(sig), 'removed_node': vi})
        for clause, msg in viol:
            b.violation(f'bounded:C17:after-edit:{clause}', f'{clause} after observing, removing node {vi} and adding a node on {sig}: {msg}', 'bounded.traversal_drv:run_traversal',
                        {'desc': desc, 'edit': vi}, function='kyupy.circuit.Circuit.' + clause.split(':')[0])
    return b
