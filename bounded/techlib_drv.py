"""C19: postcondition of TechLib.__init__ evaluated on the five built-in library texts -- a finite configuration space that
is enumerated completely (every definition, every brace alternative, every input combination of every family cell)."""
import ast
import itertools
import re

import numpy as np

from vk.common import BoundedPart
from spec import datasheet
from pyvc import source

LIBS = ('GSC180', 'NANGATE', 'NANGATE_ZN', 'SAED32', 'SAED90')


def library_texts():
    """the source text handed to TechLib(...) for each built-in library, re-evaluated from techlib.py's AST"""
    text, tree = source.module_ast('techlib')
    ns, out = {}, {}
    for node in tree.body:
        if isinstance(node, ast.Assign) and len(node.targets) == 1 and isinstance(node.targets[0], ast.Name):
            nm = node.targets[0].id
            v = node.value
            if isinstance(v, ast.Call) and isinstance(v.func, ast.Name) and v.func.id == 'TechLib':
                out[nm] = eval(compile(ast.Expression(v.args[0]), 'techlib', 'eval'), {}, dict(ns))
            elif isinstance(v, ast.Constant) and isinstance(v.value, str):
                ns[nm] = v.value
    return out


def expand(head):
    parts = [s[1:-1].split(',') if s[0] == '{' else [s] for s in re.split(r'({[^}]+})', head) if len(s) > 0]
    return [''.join(item) for item in itertools.product(*parts)]


def definitions(text):
    """spec-side reading of a library text: (head, declared inputs, declared outputs, body) per definition"""
    for d in re.split(r';\s+', text):
        d = d.strip()
        if not d:
            continue
        head = d.split()[0]
        rest = d[len(head):]
        ins, outs = [], []
        for kind, args in re.findall(r'\b(input|output)\(([^)]*)\)', rest):
            pins = [p.strip() for p in args.split(',') if p.strip()]
            (ins if kind == 'input' else outs).extend(pins)
        yield head, ins, outs, rest


def truth_table(impl, pin_dict, ins, outs):
    """simulate the implementation circuit with the real LogicSim (2-valued) on all input combinations"""
    from kyupy.logic_sim import LogicSim
    from bounded.logic_drv import pack, unpack
    n = len(ins)
    npat = 1 << n
    sim = LogicSim(impl, sims=npat, m=2)
    snames = [x.name for x in impl.s_nodes]
    codes = np.zeros((len(snames), npat), dtype=np.int64)
    for j, p in enumerate(ins):
        codes[snames.index(p)] = [3 if (k >> j) & 1 else 0 for k in range(npat)]
    sim.s[0] = pack(codes)
    sim.s_to_c(); sim.c_prop(); sim.c_to_s()
    got = unpack(np.asarray(sim.s[1]), npat)
    return {o: [int(got[snames.index(o), k] & 1) for k in range(npat)] for o in outs}


def run_cell(args):
    from kyupy import techlib
    lib = getattr(techlib, args['lib'])
    v = check_cell(lib, args['lib'], args['name'], args['ins'], args['outs'])
    return {'reproduced': bool(v), 'violated': v}


def check_cell(lib, libname, name, ins, outs):
    out = []
    if name not in lib.cells:
        return [('name-expands', f'{libname}: name {name} has no entry in cells')]
    impl, pin_dict = lib.cells[name]
    want = {p: (i, False) for i, p in enumerate(ins)}
    want.update({p: (i, True) for i, p in enumerate(outs)})
    if len(set(ins + outs)) != len(ins + outs):
        out.append(('pins-once', f'{libname}.{name}: a pin is declared twice: {ins + outs}'))
    if dict(pin_dict) != want:
        out.append(('pin-table', f'{libname}.{name}: pin table {dict(pin_dict)} != declaration order {want}'))
    io = [n.name for n in impl.io_nodes]
    if len(set(io)) != len(io):
        out.append(('REQ:port-names-distinct', f'{libname}.{name}: the ports of the implementation circuit share a name: {io} (requires of the pin-numbering contract)'))
    if sorted(io) != sorted(ins + outs) or [p for p in io if p in ins] != ins or [p for p in io if p in outs] != outs:
        out.append(('pins-agree-with-implementation', f'{libname}.{name}: implementation ports {io} vs declared {ins} / {outs}'))
    fam = datasheet.family(name, ins, outs)
    if fam is None or out:
        return out
    if '__error__' in fam:
        return [('family-pins', fam['__error__'])]
    try:
        tt = truth_table(impl, pin_dict, ins, outs)
    except Exception as e:  # noqa
        return [('simulate', f'{libname}.{name}: {e!r}')]
    for o, f in fam.items():
        for k in range(1 << len(ins)):
            env = {p: bool((k >> j) & 1) for j, p in enumerate(ins)}
            if int(bool(f(env))) != tt[o][k]:
                out.append((f'function:{datasheet.strip_drive(name)}.{o}', f'{libname}.{name} pin {o}: inputs {env} give {tt[o][k]}, datasheet function gives {int(bool(f(env)))}'))
                break
    return out


def part():
    from kyupy import techlib
    b = BoundedPart('C19-libraries-exhaustive', ['kyupy.techlib.TechLib.__init__ (on the five built-in library texts)'],
                    'every definition of GSC180, NANGATE, NANGATE_ZN, SAED32, SAED90 (library text re-read from techlib.py): every brace alternative is a key of cells; pin table = '
                    'declaration order (inputs 0.., outputs 0..), each pin once, agreeing with the implementation ports; for every cell whose name is in a datasheet family '
                    '(AND/OR/NAND/NOR/XOR/XNOR k, BUF/INV, AO/OA/AOI/OAI groupings, MUX2/MUX4, HA/FA) the truth table of the implementation, simulated by the real LogicSim on '
                    'all 2^n input combinations, equals the family function per output pin; distinct = (library, cell name); non-trivial = cell in a family',
                    'all cells of the five libraries x all input combinations', exhaustive=True)
    texts = library_texts()
    fam_cells = 0
    for libname in LIBS:
        if libname not in texts:
            b.violation(f'bounded:C19:library-missing:{libname}', f'library {libname} not defined in techlib.py', function='kyupy.techlib')
            continue
        lib = getattr(techlib, libname)
        declared = set()
        for head, ins, outs, rest in definitions(texts[libname]):
            for name in expand(head):
                declared.add(name)
                fam = datasheet.family(name, ins, outs)
                fam_cells += fam is not None
                b.case((libname, name), fam is not None, sample={'lib': libname, 'cell': name, 'inputs': ins, 'outputs': outs, 'family': fam is not None})
                for clause, msg in check_cell(lib, libname, name, ins, outs):
                    key = f'bounded:C19:{clause}' if clause.startswith('function:') else f'bounded:C19:{clause}:{libname}.{datasheet.strip_drive(name)}'
                    b.violation(key + (f'@{libname}' if clause.startswith('function:') else ''), msg, 'bounded.techlib_drv:run_cell',
                                {'lib': libname, 'name': name, 'ins': ins, 'outs': outs}, function='kyupy.techlib.' + libname)
        extra = set(lib.cells) - declared
        if extra:
            b.violation(f'bounded:C19:undeclared-names:{libname}', f'{libname}: cells has names that no definition head expands to: {sorted(extra)[:5]}', function='kyupy.techlib.' + libname)
    b.notes.append(f'cells in a datasheet family: {fam_cells}')
    return b
