"""C04 -- transitions stay inside the static-timing window and move rigidly with inputs."""
from vk.common import PropertyResult
from bounded import wave_parts


def run(tier, seed):
    res = PropertyResult('C04', 'exploration',
                         'Bounded only in this build: static-timing window, rigid shift, power-of-two scaling and strict monotonicity (polarity-independent delays) are '
                         'checked on real runs over a stated space of circuits, delay arrays and multi-transition stimuli on a dyadic grid. The provenance invariant of '
                         '_wave_eval (stage 3) and the relational (two-run) shift/scale clauses are not discharged by pyvc (no product-program mode), so nothing is claimed as proved.')
    res.bounded = [wave_parts.part_c04(tier, seed)]
    res.assumptions = ['bounded: only the enumerated/seeded cases; dyadic grid so that float32 arithmetic is exact', 'static timing analysis oracle written from the property (min/max over the four polarity entries of each line)']
    res.trusted_base = ['bounded/wave_parts.py, bounded/wave_drv.py']
    return res
