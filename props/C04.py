"""C04 -- transitions stay inside the static-timing window and move rigidly with inputs."""
from contracts import wave_c, wave_comp_c, wave_kernels_c
from pyvc.verify import verify
from vk.common import PropertyResult
from bounded import wave_parts


def run(tier, seed):
    res = PropertyResult('C04', 'other',
                         'Tier P (unbounded, per operation, from the current source of _wave_eval): (Q8) one-op static-timing step -- if every finite operand entry plus any '
                         'delay entry of its line lies in [LO, HI] then every finite output entry lies in [LO, HI] (the pulse filter only removes edges; every stored edge is a '
                         'pending operand event); (Q9) with polarity-independent delays and strictly increasing operand waveforms the stored time stamps strictly increase '
                         '(the forced-emission rule cannot fire). The netlist-level window is the induction over the op list (on paper / bounded). The relational clauses '
                         '(rigid shift, power-of-two scaling) need a two-run product and are bounded only. Tier B (bounded): STA window, shift by +-2^k, scaling by 2^+-k (down to '
                         '2^-24), monotonicity on real runs over the circuit space on a dyadic grid.')
    res.report = verify(wave_c.targets(stage3=True) + wave_comp_c.targets() + wave_kernels_c.targets_c13(), timeout_s=30 if tier == 'quick' else 120)
    res.bounded = [wave_parts.part_c04(tier, seed)]
    res.assumptions = ['A-float (extended-real time stamps, exact finite arithmetic); the stage-1/2 invariants of _wave_eval are assumed in this configuration (they are proved in C03 '
                       'under weaker requires)', 'shift / scale invariance: bounded only (relational)', 'induction from the per-op window to the netlist-level STA window: paper + bounded']
    res.trusted_base = ['pyvc', 'z3 5.1.0, cvc5 1.0.3, z3 4.8.12 (portfolio for unknowns)', 'bounded/wave_parts.py']
    return res
