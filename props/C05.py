"""C05 -- 8-valued logic simulation conservatively predicts timing simulation."""
import z3

from contracts import logic_sim_c, logic_c, wave_c, wave_comp_c
from pyvc.verify import verify, Lemmas
from pyvc.values import SBool
from pyvc.logic import And, Or, Not, implies, iff
from spec import gates, algebra as A
from vk.common import PropertyResult
from bounded import wave_parts


def act_lemmas():
    """L-act (finite, over the spec and the real LUT constants' names): if the 8-valued composition of a primitive yields a
    hazard-free constant, then the Boolean function has that value for ALL bit vectors that agree with the operands on their
    hazard-free-constant positions -- so no input event order can toggle the output (the LUT lookup of _wave_eval only ever
    sees such vectors)."""
    def build():
        for name in logic_sim_c.NAMES:
            v8 = [(SBool(z3.Bool(f'F{j}')), SBool(z3.Bool(f'I{j}')), SBool(z3.Bool(f'A{j}'))) for j in range(4)]
            y = [SBool(z3.Bool(f'y{j}')) for j in range(4)]
            known = And(*[Not(A.is_unknown8(v)) for v in v8])
            agree = And(*[And(implies(A.is_zero8(v), Not(yy)), implies(A.is_one8(v), yy)) for v, yy in zip(v8, y)])
            r = gates.apply(name, 8, v8)
            b = gates.apply(name, 2, [(yy,) for yy in y])[0]
            yield f'L-act {name}', [known, agree], And(implies(A.is_zero8(r), Not(b)), implies(A.is_one8(r), b))
        yield 'mustfail: RISE and FALL give a hazard-free constant', [], A.is_zero8(A.and8((True, False, True), (False, True, True))), 'refuted'
    return Lemmas('L-act: hazard-free constants of the 8-valued algebra are stable under every completion (C05)', build)


def run(tier, seed):
    res = PropertyResult('C05', 'other',
                         'Tier P: the functions both simulators rest on are re-verified here -- logic.bp8v_* against the 8-valued algebra, the 8-valued loop of LogicSim.c_prop, and _wave_eval stages 1+2 (Q2 final / Q5 initial value also on the overflow path); per primitive the lemmas L-act (hazard-free constant => the Boolean function is constant over every vector compatible with the constant operands) '
                         'and L-8v2v (initial/final components are the 2-valued function), together with Q2/Q5 of _wave_eval (proved in C03) and the 8-valued loop contract (C02), '
                         'carry the per-op step; lifting to whole circuits (and "no transition at all") is a paper induction. Tier B (bounded): the pair (LogicSim(m=8), WaveSim) '
                         'on real runs for 0/1/R/F stimuli with arbitrary times over the option settings of both simulators.')
    bp8 = [t for t in logic_c.bp_targets() if 'bp8v' in t.qualname]
    res.report = verify([act_lemmas(), logic_sim_c.xsound_lemmas()] + bp8 + logic_sim_c.targets(ms=(8,), callback=(False,)) + wave_c.targets() + wave_comp_c.targets_c13(),
                        timeout_s=30 if tier == 'quick' else 120)
    res.bounded = [wave_parts.part_c05(tier, seed)]
    res.assumptions = ['stage 4 of _wave_eval (operand abstraction consistent with W(X) => output without finite entry) is not discharged; the circuit-level clause is bounded evidence',
                       'lemmas are over spec.gates/spec.algebra; the LUT constants are tied to the same gate functions in C01']
    res.trusted_base = ['z3 5.1.0', 'spec.gates, spec.algebra', 'bounded/wave_parts.py']
    return res
