"""C13 -- capture results and switching-activity counts faithfully summarise waveforms."""
from vk.common import PropertyResult
from bounded import wave_parts


def run(tier, seed):
    res = PropertyResult('C13', 'other', '')
    try:
        from contracts import wave_kernels_c, wave_c, wave_comp_c
        from pyvc.verify import verify
        res.report = verify(wave_kernels_c.targets_c13() + wave_kernels_c.targets_level() + wave_c.targets() + wave_comp_c.targets_c13(), timeout_s=30 if tier == 'quick' else 120)
    except ImportError:
        res.report = None
    res.explanation = ('Tier P (unbounded, from the current source): wave_capture_cpu and wave_capture_gpu are proved against folds over the waveform (initial value, earliest / latest '
                       'finite entry, parity = final value, value captured at T = parity of the entries strictly before T, overflow marker), for sd = 0; _wave_eval returns '
                       'nfall = floor(n/2) and nrise = ceil(n/2) - [first entry is TMIN] (Q4) and propagates the overflow marker as max of the operand terminators (Q6); '
                       'level_eval_cpu (two nested loops, ghost recurrence ACC) and one thread of wave_eval_gpu add nrise*wr + nfall*wf to abuf[a_loc, sim] and evaluate every (op, sim) pair of the range exactly once (ghost call counter), checked against the contract of _wave_eval at the call site; WaveSim.c_to_s (two nested loops, numpy gathers modelled as element functions) stores in rows 3..10 of every output / state-element row of s, in every lane, the eight results of wave_capture_cpu applied to that port\'s own output-slot region (callee by contract), rows 0..2 untouched. Tier B (bounded): the same on real runs incl. '
                       '"indicator clear => waveform identical to unlimited capacity" (relational in the capacity) and the a_ctrl plumbing through SimOps.')
    res.bounded = [wave_parts.part_c13(tier, seed)]
    res.assumptions = ['sd = 0 (the erf branch of the capture is outside the modelled subset)', 'extended-real model of float32 time stamps (A-float); integers mathematical',
                       'capacity-independence of non-overflowing runs and SimOps a_ctrl translation: bounded part only', 'integers mathematical (int32 accumulation overflow not modelled)', 'mock GPU only']
    res.trusted_base = ['pyvc', 'z3 5.1.0', 'bounded/wave_parts.py']
    return res
