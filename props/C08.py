"""C08 -- signal-memory map and allocator never let live data overlap."""
from vk.common import PropertyResult
from bounded import heap_drv, simops_drv


def run(tier, seed):
    res = PropertyResult('C08', 'other', 'see coverage.explanation parts')
    targets = []
    try:
        from contracts import heap_c
        from pyvc.verify import verify
        res.report = verify(heap_c.targets(), timeout_s=30 if tier == 'quick' else 120)
    except ImportError:
        res.report = None
    res.explanation = ('Tier P (unbounded, all alloc/free histories): sim.Heap.alloc and Heap.free are executed symbolically from their current source text on a '
                       'symbolic heap state satisfying the representation invariant HeapInv (chunks tile [0,current_size), free list strictly sorted, coalesced, '
                       'tail-trimmed, max_size >= current_size) and proved to re-establish it and to satisfy the abstract-view postconditions (result live, of the '
                       'requested size, disjoint from every previously live chunk, other live chunks untouched, max_size = max(old, current_size)); since HeapInv holds for '
                       'the empty heap this covers every history by induction. Tier B (bounded): the same invariant on the real class over all histories up to a '
                       'stated length, and MapValid (no live overlap by token simulation, aliases, capacities, c_len) on real SimOps instances.')
    res.bounded = [heap_drv.part(tier), simops_drv.part(tier, seed, which=('map',))]
    res.assumptions = ['bisect.bisect / bisect.insort_left by their defining axioms on sorted sequences (assumed library contracts); dict/list as finite map / sequence',
                       'integers mathematical (int32 overflow of locations not modelled)',
                       'the memory map built by SimOps.__init__ (allocation phase) is covered by the bounded part only',
                       '"HeapInv implies the chunks tile the range" is part of HeapInv itself (successor-closure + non-overlap + 0 in dom)']
    res.trusted_base = ['pyvc', 'z3 5.1.0', 'bounded/map_drv.py token simulation', 'bounded/heap_drv.py']
    return res
