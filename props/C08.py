"""C08 -- signal-memory map and allocator never let live data overlap."""
from vk.common import PropertyResult
from bounded import heap_drv, simops_drv


def run(tier, seed):
    res = PropertyResult('C08', 'other', 'see coverage.explanation parts')
    targets = []
    try:
        from contracts import heap_c, alloc_c, graph_c, simops_c
        from pyvc.verify import verify
        res.report = verify(heap_c.targets() + alloc_c.targets() + graph_c.targets_stems() + simops_c.targets_layout(), timeout_s=30 if tier == 'quick' else 120)
    except ImportError:
        res.report = None
    res.explanation = ('Tier P (unbounded, all alloc/free histories): sim.Heap.alloc and Heap.free are executed symbolically from their current source text on a '
                       'symbolic heap state satisfying the representation invariant HeapInv (chunks tile [0,current_size), free list strictly sorted, coalesced, '
                       'tail-trimmed, max_size >= current_size) and proved to re-establish it and to satisfy the abstract-view postconditions (result live, of the '
                       'requested size, disjoint from every previously live chunk, other live chunks untouched, max_size = max(old, current_size)); Heap.__init__ is proved to establish HeapInv with an '
                       'empty live view, so this covers every history by induction. The allocation phase of SimOps.__init__ (statements from `self.c_locs = np.full(..)` to '
                       '`self.c_len = h.max_size`: special slots, interface pins, level-wise allocation with deferred release, stem and output-slot aliasing) is executed symbolically on a '
                       'symbolic op table / level partition / interface against the *contract* of Heap (modular) with ghost reference counting CNT(x,k) and ghost FREED: operands are '
                       'allocated and not freed when read, distinct live slots have disjoint regions, a slot is freed only when not pinned and its references are exhausted, pinned slots '
                       '(special, interface inputs, captured lines) are never freed, every region lies inside [0,c_len), stripped branches and output slots alias exactly, every '
                       'Heap.free gets a live chunk (no double free), every Heap.alloc a positive size -- under the requires established by the translation phase (checked on real '
                       'instances by map_drv.check_phase_requires) and the levelisation phase (proved in simops_c incl. ref_count = CNT). Tier B (bounded): the same invariant on the real class over all histories up to a '
                       'stated length, and MapValid (no live overlap by token simulation, aliases, capacities, c_len) on real SimOps instances.')
    res.bounded = [heap_drv.part(tier), simops_drv.part(tier, seed, which=('map',))]
    res.assumptions = ['bisect.bisect / bisect.insort_left by their defining axioms on sorted sequences (assumed library contracts); dict/list as finite map / sequence',
                       'integers mathematical (int32 overflow of locations not modelled)',
                       'stems table: the per-fork block (walk back through driving forks with a connected input, then one entry per connected output) is under contract on the object-heap '
                       'model of C09 with ghost ROOT / DEPTH (acyclic fork chains assumed): every branch maps to the index of the first upstream line not driven by a fork with input; the '
                       'loop over all forks and the rest of the translation are bounded: its guarantees (TopoOps, single production, sources pre-allocated, stems point to real stems) are the '
                       'requires of the allocation-phase contract, evaluated on real SimOps instances (REQ:* clauses)',
                       'Heap is used by contract at the call sites of the allocation phase (AbsInv = the live-chunk part of HeapInv)',
                       'CNT monotone in k: induction lemma proved as base+step obligations; the quantified statement is then assumed',
                       '"HeapInv implies the chunks tile the range" is part of HeapInv itself (successor-closure + non-overlap + 0 in dom)']
    res.trusted_base = ['pyvc', 'z3 5.1.0', 'bounded/map_drv.py token simulation', 'bounded/heap_drv.py']
    return res
