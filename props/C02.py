"""C02 -- 4-/8-valued simulation follows the documented algebra and is X-sound."""
from contracts import logic_sim_c, logic_io_c
from pyvc.verify import verify
from vk.common import PropertyResult
from bounded import logic_drv


def run(tier, seed):
    res = PropertyResult('C02', 'other',
                         'Tier P (unbounded): the 4- and 8-valued evaluation loops of LogicSim.c_prop are proved against the callee contracts of logic.bp4v_*/bp8v_* '
                         '(proved in C12): every op leaves in its output row the gate-by-gate composition of the documented operators, scratch rows and aliasing '
                         'obligations included; per primitive the lemmas L-Xsound (a 0/1 result is not contradicted by any completion) and L-8v2v (initial/final '
                         'components are the 2-valued function) are proved over the spec. Tier B (bounded): real LogicSim(m=4,8) vs the netlist oracle on the circuit space.')
    res.report = verify(logic_sim_c.targets(ms=(4, 8), callback=(False,)) + logic_sim_c.composition_targets(ms=(4, 8)) + [logic_sim_c.lifting_lemmas(), logic_sim_c.xsound_lemmas()] + logic_io_c.targets((2, 3)),
                        timeout_s=20 if tier == 'quick' else 120)
    res.bounded = [logic_drv.logic_part('C02', (4, 8), tier, seed, options=({}, {'c_reuse': True}))]
    res.assumptions = ['requires of the loop contract on real SimOps instances (scratch rows, output row != operand rows): bounded part only',
                       'lifting of L-Xsound / L-8v2v from primitives to whole circuits is a structural induction done on paper (DESIGN.md 5-C02)',
                       'translation, assign/capture and the composition to netlist level: bounded part only',
                       'numpy element-wise/view semantics; spec.algebra/spec.gates/spec.evaln are the oracle']
    res.trusted_base = ['pyvc', 'z3 5.1.0', 'spec.algebra, spec.gates, spec.evaln', 'bounded/logic_drv.py']
    return res
