"""C09 -- circuit graph stays consistent under every edit history."""
from vk.common import PropertyResult
from bounded import graph_drv


def run(tier, seed):
    res = PropertyResult('C09', 'other', '')
    try:
        from contracts import circuit_c, graph_c
        from pyvc.verify import verify
        res.report = verify(circuit_c.targets() + circuit_c.targets_free_index() + graph_c.targets(), timeout_s=20 if tier == 'quick' else 120)
    except ImportError:
        res.report = None
    res.explanation = ('Tier P (unbounded, small): the container primitives under the graph -- IndexList.__delitem__ (swap-with-last deletion that re-indexes the moved element) and '
                       'GrowingList.__setitem__ (grow on demand) -- are proved on a sequence/object-heap model against their abstract postconditions (see functions_under_contract for '
                       'what is discharged in this run). The graph surgery primitives Line.__init__ (explicit free pins / first free pins), Line.remove (incl. the squeeze and '
                       're-numbering loop of a fork\'s outputs) and Node.remove are executed symbolically on an object heap (fields as arrays id -> value, pin lists per node, node / line '
                       'lists, name tables; the container primitives by their contracts) from any state satisfying the well-formedness clauses W0-W6 (index = position, driver/reader '
                       'back-references, pins reference lines of the circuit, forks without gaps, name tables) and proved to re-establish them, to add / remove exactly the one object, and '
                       'to leave every other object\'s driver, reader, pins and position as stated (frame). Tier B (bounded, the deciding part for the class invariant): wf(circuit) is evaluated as a runtime class invariant after '
                       'every step of edit histories through the public API (exhaustive over a small alphabet up to a stated length, seeded long histories), and after copy / pickle / eliminate_1to1_forks / substitute on the shared circuit space (incl. chains of 1:1 forks, cells and forks sharing a name).')
    from vk.common import guarded_parts
    res.bounded = guarded_parts(res, lambda: graph_drv.history_part(tier, seed), lambda: graph_drv.transforms_part(tier, seed, skip=('state-order:last-node-moved-into-freed-index',)))
    res.assumptions = ['well-formed use as stated in the property: explicit pins only on free positions, nodes removed after their lines, forks have exactly one input',
                       'Node.__init__ and the rewiring transformations (eliminate_1to1_forks, substitute, copy, pickle) are covered by the bounded part only',
                       'IndexList.__delitem__ / GrowingList.__setitem__ / GrowingList.free_index (first None position or len) enter Node / Line by their contracts, each proved here on its own; for free_index the generator expression is evaluated symbolically at an arbitrary position and next() / enumerate() enter by their Python semantics',
                       'object identity: distinct ids are distinct objects; kinds abstracted to fork / not fork; names to integers']
    res.trusted_base = ['pyvc', 'z3 5.1.0', 'bounded/graph_drv.py (wf predicate)']
    return res
