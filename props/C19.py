"""C19 -- built-in library cells have consistent pins and datasheet Boolean functions."""
from vk.common import PropertyResult
from bounded import techlib_drv


def run(tier, seed):
    res = PropertyResult('C19', 'other',
                         'The postcondition of TechLib.__init__ -- every brace alternative of every definition head is a cell; pin tables follow the declaration order and '
                         'agree with the implementation ports; every purely combinational family cell computes its datasheet function on every output pin -- is evaluated on the '
                         'five built-in library texts (re-read from techlib.py on every run). The configuration space is finite and enumerated completely (all cells x all 2^n '
                         'input combinations, truth tables produced by the real LogicSim), so within the stated oracle this decides the property; it is a runtime-evaluated '
                         'contract, not a symbolic proof, and is labelled as such.')
    res.bounded = [techlib_drv.part()]
    res.assumptions = ['spec.datasheet (family functions by cell and pin name, vendor conventions) is the oracle',
                       'cells outside the named families (tri-state, isolation, clock gates, decoders, sequential cells, fillers) are checked for names and pins only',
                       'truth tables come from the real 2-valued LogicSim (C01 ties it to the gate functions)']
    res.trusted_base = ['bounded/techlib_drv.py', 'spec/datasheet.py', 'kyupy.logic_sim.LogicSim (see C01)']
    res.extra = {'exhaustive': True}
    return res
