"""C19 -- built-in library cells have consistent pins and datasheet Boolean functions."""
from vk.common import PropertyResult
from bounded import techlib_drv


def run(tier, seed):
    res = PropertyResult('C19', 'other',
                         'Tier P (one phase): the pin-numbering phase of TechLib.__init__ (inside the loop over the definitions: `i_idx, o_idx = 0, 0; pin_dict = dict(); for n in c.io_nodes: ...`) is '
                         'executed symbolically for any sequence of ports of the implementation circuit (cell inputs and outputs in any order, any number, distinct names) and proved to list every port '
                         'exactly once with its direction and its position among the ports of that direction (ghost counts CI/CO, monotone by an induction lemma): inputs and outputs are numbered '
                         '0..n-1 in declaration order, in agreement with the implementation circuit, and nothing else is listed. Tier B (exhaustive): the postcondition of TechLib.__init__ -- every brace alternative of every definition head is a cell; pin tables follow the declaration order and '
                         'agree with the implementation ports; every purely combinational family cell computes its datasheet function on every output pin -- is evaluated on the '
                         'five built-in library texts (re-read from techlib.py on every run). The configuration space is finite and enumerated completely (all cells x all 2^n '
                         'input combinations, truth tables produced by the real LogicSim), so within the stated oracle this decides the property; it is a runtime-evaluated '
                         'contract, not a symbolic proof, and is labelled as such.')
    try:
        from contracts import techlib_c
        from pyvc.verify import verify
        res.report = verify(techlib_c.targets(), timeout_s=20 if tier == 'quick' else 60)
    except ImportError:
        res.report = None
    res.bounded = [techlib_drv.part()]
    res.assumptions = ['proved part: port names of one implementation circuit are pairwise distinct (requires; circuit invariant W6 of C09, evaluated on every library cell in the bounded part); the text '
                       'splitting, bench.parse and eliminate_1to1_forks before the phase and the brace expansion after it are outside the verified statement range; a name is an opaque value (dict key)',
                       'spec.datasheet (family functions by cell and pin name, vendor conventions) is the oracle',
                       'cells outside the named families (tri-state, isolation, clock gates, decoders, sequential cells, fillers) are checked for names and pins only',
                       'truth tables come from the real 2-valued LogicSim (C01 ties it to the gate functions)']
    res.trusted_base = ['pyvc', 'z3 5.1.0', 'bounded/techlib_drv.py', 'spec/datasheet.py', 'kyupy.logic_sim.LogicSim (see C01)']
    res.extra = {'exhaustive': True}
    return res
