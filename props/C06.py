"""C06 -- results do not depend on performance options, lane position or code path."""
from vk.common import PropertyResult
from bounded import wave_parts


def run(tier, seed):
    res = PropertyResult('C06', 'other', '')
    try:
        from contracts import wave_comp_c, wave_kernels_c, alloc_c, graph_c, simops_c
        from pyvc.verify import verify
        res.report = verify(wave_kernels_c.targets_c06() + wave_comp_c.targets_cuda() + wave_comp_c.targets_cuda_io() + alloc_c.targets() + graph_c.targets_stems() + simops_c.targets(), timeout_s=20 if tier == 'quick' else 120)
    except ImportError:
        res.report = None
    res.explanation = ('Tier P (unbounded): lane independence is part of the kernel contracts -- every access of _wave_eval, wave_capture_cpu/gpu, wave_assign_gpu to '
                       'cbuf/s uses the own lane index (obligation on every subscript), the delay-dataset prelude selects exactly the requested dataset, the mock launcher '
                       'covers every (x,y) of the grid exactly once and cdiv rounds up (see coverage.functions_under_contract for what is discharged in this run). '
                       'Tier B (bounded): bit-identity of port-level results across {c_reuse} x {strip_forks} x {WaveSim, WaveSimCuda}, allocated lanes, lane permutations, '
                       'c_prop(sims=k), delay-dataset selection modes and LogicSim options on a stated circuit space.')
    res.bounded = [wave_parts.part_c06(tier, seed)]
    res.assumptions = ['the memory map behind c_reuse / strip_forks (levelisation, reference-counted allocation with deferred release, stems, aliasing) is under the contracts of C07 / C08, re-verified here; that two option settings give bit-identical port results is a relational clause',
                       'relational clauses (option / location independence) are bounded evidence only (no product-program mode in pyvc)',
                       'mock GPU only: numba compilation and a physical GPU are absent from the sandbox',
                       'float32 arithmetic exact on the dyadic grid used by the stimuli']
    res.trusted_base = ['pyvc', 'z3 5.1.0', 'bounded/wave_parts.py, bounded/wave_drv.py']
    return res
