"""C07 -- the published level partition is a valid parallel schedule."""
from vk.common import PropertyResult
from bounded import wave_parts, simops_drv


def run(tier, seed):
    res = PropertyResult('C07', 'other', '')
    try:
        from contracts import wave_kernels_c, wave_c
        from pyvc.verify import verify
        res.report = verify(wave_kernels_c.targets_c07() + wave_c.targets(), timeout_s=30 if tier == 'quick' else 120)
    except ImportError:
        res.report = None
    res.explanation = ('Tier P (unbounded): per-thread read/write frames -- _wave_eval reads only operand/own regions and writes only the own output region of the own lane (Q3, '
                       'obligation on every subscript); the launcher enumerates every thread exactly once. With SchedValid/MapValid (operands from earlier levels, per-level '
                       'write/write and write/read disjointness) any two threads of a level satisfy the Bernstein conditions; the commutation step itself is on paper. '
                       'Tier B (bounded): SchedValid and the per-level disjointness on real SimOps instances, and re-execution with reversed / shuffled ops inside every level '
                       'and shuffled (sim, op) threads of the GPU kernel, comparing c, s and abuf bit by bit.')
    res.bounded = [simops_drv.part(tier, seed, which=('sched',), pid='C07'), wave_parts.part_c07(tier, seed)]
    res.assumptions = ['pairwise non-interference => every interleaving equals the sequential result: standard commutation lemma, not machine-checked',
                       'levelisation loop of SimOps.__init__: bounded part only', 'atomic add contributions commute (integers)', 'mock GPU only']
    res.trusted_base = ['pyvc', 'z3 5.1.0', 'bounded/map_drv.py, bounded/wave_parts.py']
    return res
