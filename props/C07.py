"""C07 -- the published level partition is a valid parallel schedule."""
from vk.common import PropertyResult
from bounded import wave_parts, simops_drv


def run(tier, seed):
    res = PropertyResult('C07', 'other', '')
    try:
        from contracts import wave_comp_c, wave_kernels_c, wave_c
        from pyvc.verify import verify
        from contracts import simops_c
        res.report = verify(simops_c.targets() + wave_kernels_c.targets_c07() + wave_c.targets() + wave_comp_c.targets_cuda(), timeout_s=30 if tier == 'quick' else 120)
    except ImportError:
        res.report = None
    res.explanation = ('Tier P (unbounded): the levelisation phase of SimOps.__init__ (statements from `levels = ..` to `self.level_stops = ..`) is proved for any op table that is '
                       'topologically ordered with single production: level starts strictly increasing from 0, stops = next starts, last stop = number of ops, the published '
                       'ranges are exactly the level classes, and every operand (stem-resolved) is a source or produced in a strictly earlier level (S1, S2); per-thread read/write frames -- _wave_eval reads only operand/own regions and writes only the own output region of the own lane (Q3, '
                       'obligation on every subscript); the launcher enumerates every thread exactly once. With SchedValid/MapValid (operands from earlier levels, per-level '
                       'write/write and write/read disjointness) any two threads of a level satisfy the Bernstein conditions; the commutation step itself is on paper. '
                       'Tier B (bounded): SchedValid and the per-level disjointness on real SimOps instances, and re-execution with reversed / shuffled ops inside every level '
                       'and shuffled (sim, op) threads of the GPU kernel, comparing c, s and abuf bit by bit.')
    res.bounded = [simops_drv.part(tier, seed, which=('sched',), pid='C07'), wave_parts.part_c07(tier, seed)]
    res.assumptions = ['pairwise non-interference => every interleaving equals the sequential result: standard commutation lemma, not machine-checked',
                       'TopoOps / single production of the op list (requires of the levelisation contract) and the release discipline of the allocation phase: bounded part only', 'atomic add contributions commute (integers)', 'mock GPU only']
    res.trusted_base = ['pyvc', 'z3 5.1.0', 'bounded/map_drv.py, bounded/wave_parts.py']
    return res
