"""C20 -- DEF data is extracted as written, with wildcards and via arrays expanded."""
from vk.common import PropertyResult
from bounded import def_drv


def run(tier, seed):
    res = PropertyResult('C20', 'other',
                         'Tier P (unbounded, two functions): DefWire.vias, for point lists without via arrays, is proved to list every via once, per type in file order, at the location in force (same wildcard recurrence) with its orientation or N; DefWire.wire_points is executed symbolically on a point list of any length (locations with explicit or wildcard coordinates, with or '
                         'without extension values, via entries in between) and proved to list exactly the locations, in order, with every wildcard replaced by the coordinate in force (ghost '
                         'recurrences RX/RY, position = number of locations before), [] for fewer than two locations. Tier B: bounded round-trip contract with a spec-side DEF printer (the LALR parser is outside the VC generator): for generated designs every extracted section '
                         '(units, die area, rows, tracks, via definitions, components, pins, net connectivity) equals the ghost design, and DefNet.wires / DefNet.vias give the '
                         'per-layer wires with wildcards resolved and the per-type vias with arrays expanded for special and regular nets.')
    try:
        from contracts import def_c
        from pyvc.verify import verify
        res.report = verify(def_c.targets() + def_c.targets_vias(), timeout_s=20 if tier == 'quick' else 120)
    except ImportError:
        res.report = None
    res.bounded = [def_drv.part(tier, seed)]
    res.assumptions = ['bounded over generated DEF files; the via-array expansion (DefWire.vias: nested comprehension over symbolic ranges), the per-net aggregation and everything behind the '
                       'lark grammar are bounded only', 'points[0] of a wire is an explicit location (grammar); CNTL monotone (induction over its recurrence) assumed', 'ROUTED, FIXED and COVER wiring are all part of a net\'s geometry listing; an unrouted net has empty listings']
    res.trusted_base = ['pyvc', 'z3 5.1.0', 'bounded/def_drv.py']
    return res
