"""C20 -- DEF data is extracted as written, with wildcards and via arrays expanded."""
from vk.common import PropertyResult
from bounded import def_drv


def run(tier, seed):
    res = PropertyResult('C20', 'exploration',
                         'Bounded round-trip contract with a spec-side DEF printer (the LALR parser is outside the VC generator): for generated designs every extracted section '
                         '(units, die area, rows, tracks, via definitions, components, pins, net connectivity) equals the ghost design, and DefNet.wires / DefNet.vias give the '
                         'per-layer wires with wildcards resolved and the per-type vias with arrays expanded for special and regular nets.')
    res.bounded = [def_drv.part(tier, seed)]
    res.assumptions = ['bounded over generated DEF files', 'ROUTED, FIXED and COVER wiring are all part of a net\'s geometry listing; an unrouted net has empty listings']
    res.trusted_base = ['bounded/def_drv.py']
    return res
