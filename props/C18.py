"""C18 -- STIL patterns map scan data onto flip-flops by chain order and inversion."""
from vk.common import PropertyResult
from bounded import stil_drv


def run(tier, seed):
    res = PropertyResult('C18', 'other', '')
    try:
        from contracts import logic_c
        from pyvc.verify import verify
        res.report = verify(logic_c.transition_targets(), timeout_s=20)
    except (ImportError, AttributeError):
        res.report = None
    res.explanation = ('Tier P (small): logic.mv_transition is proved against its value-level spec for all value pairs (element abstraction) where discharged in this run. '
                       'Tier B (bounded, the deciding part): round-trip contract with a spec-side STIL printer -- tests(), responses() and tests_loc() equal the ghost ground truth '
                       '(intended value per flip-flop / port and pattern) for generated scan circuits, chain orders, inversion-marker placements, signal-group orders and pattern '
                       'sets with and without launch / capture clock pulses.')
    res.bounded = [stil_drv.part(tier, seed)]
    res.assumptions = ['bounded over circuits / chains / pattern sets', 'chain semantics written from the property: first shifted bit = cell nearest scan-out; load inversions counted '
                       'from scan-in, unload inversions from scan-out', 'tests_loc next state judged by the spec evaluator (4-valued)']
    res.trusted_base = ['bounded/stil_drv.py', 'spec/evaln.py']
    return res
