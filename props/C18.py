"""C18 -- STIL patterns map scan data onto flip-flops by chain order and inversion."""
from vk.common import PropertyResult
from bounded import stil_drv


def run(tier, seed):
    res = PropertyResult('C18', 'other', '')
    try:
        from contracts import logic_c, stil_c
        from pyvc.verify import verify
        res.report = verify(logic_c.transition_targets() + stil_c.targets(), timeout_s=20 if tier == 'quick' else 120)
    except (ImportError, AttributeError):
        res.report = None
    res.explanation = ('Tier P: logic.mv_transition is proved against its value-level spec for all value pairs (element abstraction); the per-chain body of StilFile._maps is executed '
                       'symbolically for a chain of any length with cells and inverter markers in any order (two loops, a list reversal): for every cell, at its distance t from the scan-out end, '
                       'scan_map[t] is its interface position, the scan-in inversion[t] is the parity of the markers between scan-in and the cell and the scan-out inversion[t] the parity of the '
                       'markers between the cell and scan-out; all three sequences have one entry per cell; both ports of the chain share the map. '
                       'Tier B (bounded, the deciding part): round-trip contract with a spec-side STIL printer -- tests(), responses() and tests_loc() equal the ghost ground truth '
                       '(intended value per flip-flop / port and pattern) for generated scan circuits, chain orders, inversion-marker placements, signal-group orders and pattern '
                       'sets with and without launch / capture clock pulses.')
    res.bounded = [stil_drv.part(tier, seed)]
    res.assumptions = ['bounded over circuits / chains / pattern sets', 'chain semantics written from the property: first shifted bit = cell nearest scan-out; load inversions counted '
                       'from scan-in, unload inversions from scan-out', 'tests_loc next state judged by the spec evaluator (4-valued)']
    res.trusted_base = ['bounded/stil_drv.py', 'spec/evaln.py']
    return res
