"""C10 -- copy, pickle, fork elimination and cell substitution preserve function."""
from vk.common import PropertyResult
from bounded import graph_drv


def run(tier, seed):
    res = PropertyResult('C10', 'other',
                         'Tier P (unbounded, one transformation step): the body of the loop of Circuit.eliminate_1to1_forks for one fork -- Node.remove and Line.remove inlined from their '
                         'current source on the object-heap model of C09 -- from any well-formed state (W0-W6) with a non-port fork that has one connected input and one output and does not '
                         'feed itself: W0-W6 hold again, exactly the fork and its output line are gone, the fork\'s input line now ends at the reader and pin where the output line ended, '
                         'every other line and node is untouched; a fork being the identity, the function is preserved. Tier B: for every cell of the five built-in libraries (per distinct implementation in the quick tier) '
                         'x subsets of connected instance pins, for synthetic implementation shapes, and for copy / pickle / eliminate_1to1_forks and their composition on the '
                         'shared circuit space: the transformation does not raise, wf holds, names and order of ports and state elements are unchanged, and the observed Boolean '
                         'function is unchanged -- the last clause is decided per instance by z3 over symbolic inputs through the spec evaluator (complete over valuations).')
    try:
        from contracts import graph_c
        from pyvc.verify import verify
        res.report = verify(graph_c.targets_c10(), timeout_s=30 if tier == 'quick' else 120)
    except ImportError:
        res.report = None
    from vk.common import guarded_parts
    res.bounded = guarded_parts(res, lambda: graph_drv.transforms_part(tier, seed), lambda: graph_drv.cells_part(tier))
    res.assumptions = ['substitute, resolve_tlib_cells, copy and pickle are bounded only; the selection of the forks (guards of the loop) and the iteration over a snapshot of the fork table are not part of the proved block', 'bounded over circuits / pin subsets; complete over input valuations (z3)', 'spec.evaln + the hierarchical instance semantics of bounded.graph_drv.HierEval are the oracle']
    res.trusted_base = ['pyvc', 'bounded/graph_drv.py', 'spec/evaln.py', 'z3 5.1.0']
    return res
