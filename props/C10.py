"""C10 -- copy, pickle, fork elimination and cell substitution preserve function."""
from vk.common import PropertyResult
from bounded import graph_drv


def run(tier, seed):
    res = PropertyResult('C10', 'exploration',
                         'Bounded (object-graph surgery is outside the VC generator): for every cell of the five built-in libraries (per distinct implementation in the quick tier) '
                         'x subsets of connected instance pins, for synthetic implementation shapes, and for copy / pickle / eliminate_1to1_forks and their composition on the '
                         'shared circuit space: the transformation does not raise, wf holds, names and order of ports and state elements are unchanged, and the observed Boolean '
                         'function is unchanged -- the last clause is decided per instance by z3 over symbolic inputs through the spec evaluator (complete over valuations).')
    res.bounded = [graph_drv.transforms_part(tier, seed), graph_drv.cells_part(tier)]
    res.assumptions = ['bounded over circuits / pin subsets; complete over input valuations (z3)', 'spec.evaln + the hierarchical instance semantics of bounded.graph_drv.HierEval are the oracle']
    res.trusted_base = ['bounded/graph_drv.py', 'spec/evaln.py', 'z3 5.1.0']
    return res
