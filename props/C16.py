"""C16 -- the fault-injection callback sees and controls every evaluated signal."""
from contracts import logic_sim_c
from pyvc.verify import verify
from vk.common import PropertyResult
from bounded import inject_drv


def run(tier, seed):
    res = PropertyResult('C16', 'other',
                         'Tier P (unbounded): the three evaluation loops of LogicSim.c_prop are executed symbolically with a ghost call log: in every '
                         'iteration (any op list, any memory map satisfying the stated requires) the callback is invoked exactly once for an evaluated '
                         'line, after the row holds the spec value, with (circuit.lines[out], basic-index view of c[c_locs[out]]); what the callback '
                         'writes becomes the spec memory read by all later ops (downstream sees it, nothing upstream changes: frame clause). '
                         'Tier B (bounded): the same contract plus the netlist-level equivalence with an overridden line on real runs.')
    res.report = verify(logic_sim_c.targets(callback=(True,)), timeout_s=20 if tier == 'quick' else 120)
    res.bounded = [inject_drv.part(tier, seed)]
    res.assumptions = ['requires of the loop contract (op codes among the 33 primitives, scratch rows distinct from operand/output rows, output row != operand rows for '
                       'non-unary ops) -- established for real SimOps instances only by the bounded part',
                       'numpy element-wise/view semantics (NP-elementwise, NP-view); callee contracts of logic.bp4v_*/bp8v_* are proved in C12',
                       'the callback only writes through the view it is given',
                       'netlist-level meaning of an overwritten line: bounded part only (spec.evaln oracle)']
    res.trusted_base = ['pyvc', 'z3 5.1.0', 'spec.gates / spec.algebra', 'bounded/inject_drv.py']
    return res
