"""C01 -- 2-valued logic simulation computes the netlist's Boolean function."""
from contracts import logic_sim_c, translate_c, logic_io_c
from pyvc.verify import verify
from vk.common import PropertyResult
from bounded import logic_drv


def run(tier, seed):
    res = PropertyResult('C01', 'other',
                         'Tier P (unbounded, from the current source text): (1) every LUT constant of kyupy.sim equals the truth table of the gate its name '
                         'denotes and kind_prefixes selects the right family member (ground); (2) the 2-valued evaluation loop in both copies (_prop_cpu and the '
                         'callback path of LogicSim.c_prop) is proved, for any op list and any memory map, to leave c equal to the fold of the per-op spec step '
                         '(lane-wise lifted gate function by name; all row aliasings; index bounds; frame; unknown-op arm unreachable); (3) composition over the op list: with ghost netlist values V along the '
                         'op list and an abstract liveness satisfying the memory-map hypotheses A2-A5 (operands live when read, liveness starts at production, no clobbering of live '
                         'slots, live slots off the scratch rows) every live slot holds its gate-by-gate value after every op, hence every captured line after the last. '
                         'Tier B (bounded): translation of the netlist into ops, assign/capture/state transfer/cycle and the composition to netlist level are checked '
                         'by running the real LogicSim against the gate-by-gate oracle on a stated circuit space.')
    res.report = verify(logic_sim_c.targets(ms=(2,)) + logic_sim_c.composition_targets(ms=(2,)) + [logic_sim_c.lut_lemmas(), logic_sim_c.lifting_lemmas()] + translate_c.targets_node() + logic_io_c.targets((1,)) + logic_io_c.targets_cycle(),
                        timeout_s=20 if tier == 'quick' else 120)
    from bounded import simops_drv
    res.bounded = [simops_drv.part(tier, seed, which=('map',), pid='C01'), logic_drv.logic_part('C01', (2,), tier, seed, with_cycles=True,
                                        options=({}, {'c_reuse': True}) if tier == 'quick' else ({}, {'c_reuse': True}))]
    res.assumptions = ['tier P requires (op codes among the 33 primitives, locations in range) hold for real SimOps instances: bounded part only',
                       'SimOps.__init__ translation: the body of the per-node loop is under contract for one symbolic node (which rows are appended: interface BUF1/INV1 rows from the interface '
                       'input slot, fork BUF1 rows unless stripped, one row per cell with the selected primitive, out0 or tmp, in0..in3 or the zero slot, the a_ctrl row of the output); that '
                       'the node sequence is a topological order, the loop over all nodes: bounded part only; cycle(k) is proved to be k times (s_to_c; c_prop(inject_cb); c_to_s; s_ppo_to_ppi) (call-sequence contract); s_to_c / c_to_s / s_ppo_to_ppi are under contract with numpy gather / scatter as assumed element-wise contracts (index tables pairwise distinct)',
                       'CNTO (number of connected output pins below k) monotone: induction lemma proved as base+step, then assumed',
                       'the memory-map hypotheses A2-A5 of the composition contract and single production / topological order of the op list (S2, S3) hold for real SimOps instances: bounded part (check_live_hypotheses, MapValid)',
                       'ghost values V equal the netlist semantics only if the op list is the translation of the netlist: bounded part',
                       'numpy element-wise/view semantics; integers mathematical; spec.gates/spec.evaln are the oracle']
    res.trusted_base = ['pyvc', 'z3 5.1.0', 'spec.gates, spec.evaln', 'bounded/logic_drv.py']
    return res
