"""C14 -- every SDF delay lands on the right line, polarity and dataset - none is lost."""
from vk.common import PropertyResult
from bounded import sdf_drv


def run(tier, seed):
    res = PropertyResult('C14', 'exploration',
                         'Bounded round-trip contract with a spec-side SDF printer (the lark-driven parser and the numpy annotation code are outside the VC generator): for '
                         'generated netlists and ghost IOPATH / INTERCONNECT entries under three CELL-block grouping styles and both branchforks settings, the arrays returned by '
                         'DelayFile.iopaths() / interconnects() equal the ghost ground truth entry by entry and are zero everywhere else.')
    res.bounded = [sdf_drv.part(tier, seed)]
    res.assumptions = ['bounded over netlists and SDF renderings; ground truth placement (line feeding the named pin; branch-fork or sole line between two pins) written from the property',
                       'the Verilog parser provides the circuit (its own round-trip contract is C11)']
    res.trusted_base = ['bounded/sdf_drv.py', 'bounded/netlist_gen.py']
    return res
