"""C14 -- every SDF delay lands on the right line, polarity and dataset - none is lost."""
from vk.common import PropertyResult
from bounded import sdf_drv


def run(tier, seed):
    res = PropertyResult('C14', 'other',
                         'Tier P (two functions): (1) the grouping phase of SdfTransformer.start is executed symbolically for any sequence of children of the DELAYFILE tree (CELL blocks with any instance '
                         'names incl. repeated and unnamed ones, any numbers of entries, other children in between) and proved to keep every entry of every block: cells[name] has exactly the '
                         'entries of all blocks of that name, entry j of block i at position (entries of earlier blocks of that name) + j, keys = names seen (ghost recurrences CNTE/HASB, '
                         'monotonicity lemma); (2) the clause "a single value list applies to both output polarities": kyupy.sdf.sanitize, through which every IOPATH / INTERCONNECT entry '
                         'passes, is executed symbolically for entries with one and with two value lists and proved to return [name, name, rise, fall] with fall = the second list if given and '
                         'otherwise the same single list. Tier B: bounded round-trip contract with a spec-side SDF printer (the lark-driven parser and the numpy annotation code are outside the VC generator): for '
                         'generated netlists and ghost IOPATH / INTERCONNECT entries under three CELL-block grouping styles and both branchforks settings, the arrays returned by '
                         'DelayFile.iopaths() / interconnects() equal the ghost ground truth entry by entry and are zero everywhere else.')
    try:
        from contracts import sdf_c
        from pyvc.verify import verify
        res.report = verify(sdf_c.targets() + sdf_c.targets_start(), timeout_s=20 if tier == 'quick' else 60)
    except ImportError:
        res.report = None
    res.bounded = [sdf_drv.part(tier, seed)]
    res.assumptions = ['proved part: the design-name lookup before and the DelayFile constructor after the grouping loop (which moves cells[None] to _interconnects) are outside the verified statement range; str() of a lark token is an uninterpreted function; entries without any value list (grammar allows `triple*`) are outside the contract (sanitize returns two names only)',
                       'bounded over netlists and SDF renderings; ground truth placement (line feeding the named pin; branch-fork or sole line between two pins) written from the property',
                       'the Verilog parser provides the circuit (its own round-trip contract is C11)']
    res.trusted_base = ['pyvc', 'z3 5.1.0', 'bounded/sdf_drv.py', 'bounded/netlist_gen.py']
    return res
