"""C11 -- parsed Verilog and bench netlists simulate as the described netlist."""
from vk.common import PropertyResult
from bounded import parse_drv


def run(tier, seed):
    res = PropertyResult('C11', 'other',
                         'Tier P (unbounded, one construction step): BenchTransformer.assignment -- what one statement name = TYPE(d_1..d_m) adds -- on the object heap of C09 with '
                         'Node(..) / Line(..) / get_or_add_fork inlined from circuit.py: from any well-formed circuit whose drivers are forks, a new cell of that name and type is registered, '
                         'its output drives the fork of the same name (created on demand), input pin p is driven by driver p for every p < m, every earlier line and node is untouched, '
                         'well-formedness holds again. The grammar, the Verilog transformer and techlib pin tables are bounded: bounded round-trip contract with spec-side printers (the LALR machinery is outside the VC generator): generated flat netlists are printed as Verilog '
                         '(many renderings) and as bench text; the parsed circuit must have the ports in port-list order with bus bits in declared range order and must observe, '
                         'for ALL input / state valuations (enumerated), exactly the values of the ghost netlist at every output and flip-flop input -- before and after '
                         'resolve_tlib_cells, with and without branch forks (which may only insert 1:1 forks) -- and the bench and Verilog renderings of one netlist agree.')
    try:
        from contracts import bench_c
        from pyvc.verify import verify
        res.report = verify(bench_c.targets(), timeout_s=30 if tier == 'quick' else 120)
    except ImportError:
        res.report = None
    from vk.common import guarded_parts
    res.bounded = guarded_parts(res, lambda: parse_drv.verilog_part(tier, seed), lambda: parse_drv.bench_part(tier, seed))
    res.assumptions = ['names and cell types are opaque tokens in the proved step; the cell type is not the reserved fork kind; no cell of the same name exists yet (bench: one assignment per signal)', 'GrowingList.free_index by an assumed contract', 'bounded over netlists / renderings, complete over valuations (enumeration <= 2^10)',
                       'the meaning of a parsed circuit is judged by the spec evaluator (spec.evaln + instance semantics); C01 ties the simulators to it',
                       'datasheet functions of the family cells (spec.datasheet) are the oracle for instances']
    res.trusted_base = ['pyvc', 'z3 5.1.0', 'bounded/parse_drv.py', 'bounded/netlist_gen.py', 'spec/evaln.py, spec/datasheet.py']
    return res
