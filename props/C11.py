"""C11 -- parsed Verilog and bench netlists simulate as the described netlist."""
from vk.common import PropertyResult
from bounded import parse_drv


def run(tier, seed):
    res = PropertyResult('C11', 'exploration',
                         'Bounded round-trip contract with spec-side printers (the LALR machinery is outside the VC generator): generated flat netlists are printed as Verilog '
                         '(many renderings) and as bench text; the parsed circuit must have the ports in port-list order with bus bits in declared range order and must observe, '
                         'for ALL input / state valuations (enumerated), exactly the values of the ghost netlist at every output and flip-flop input -- before and after '
                         'resolve_tlib_cells, with and without branch forks (which may only insert 1:1 forks) -- and the bench and Verilog renderings of one netlist agree.')
    res.bounded = [parse_drv.verilog_part(tier, seed), parse_drv.bench_part(tier, seed)]
    res.assumptions = ['bounded over netlists / renderings, complete over valuations (enumeration <= 2^10)',
                       'the meaning of a parsed circuit is judged by the spec evaluator (spec.evaln + instance semantics); C01 ties the simulators to it',
                       'datasheet functions of the family cells (spec.datasheet) are the oracle for instances']
    res.trusted_base = ['bounded/parse_drv.py', 'bounded/netlist_gen.py', 'spec/evaln.py, spec/datasheet.py']
    return res
