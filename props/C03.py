"""C03 -- timing simulation settles to the Boolean function for any delays/capacity."""
from contracts import wave_c, wave_kernels_c, wave_comp_c, alloc_c, graph_c
from pyvc.verify import verify
from vk.common import PropertyResult
from bounded import wave_parts


def run(tier, seed):
    res = PropertyResult('C03', 'other',
                         'Tier P (unbounded, from the current source of wave_sim._wave_eval -- the one body behind the CPU and the GPU kernel): for every LUT, every '
                         'well-formed operand waveform of any length, every capacity >= 4, every non-negative delay array and every delay-dataset selection mode the output '
                         'waveform is well formed and terminated inside its capacity (Q1), its final value (transition parity) is LUT[final operand values] (Q2) -- also on '
                         'the overflow path --, its initial value is LUT[initial operand values] (Q5), nothing outside the own output region of the own lane is written (Q3), '
                         'TMIN occurs only at index 0 (Q7); loop variant proves termination. wave_capture_cpu/gpu return [w0 <= TMIN] and the parity, wave_assign_gpu encodes '
                         '(initial, time, final). Composition (level_eval_cpu, WaveSim.c_prop): under the memory-map hypotheses every slot that is live after op k holds, in '
                         'every simulated lane, a well-formed waveform whose initial and final values are the gate-by-gate netlist values -- invariant over the two nested loops and the '
                         'level loop, callee by contract. WaveSim.s_to_c writes, for every (pseudo) primary input and lane, exactly the waveform encoding of its (initial, time, final) assignment into the first three entries of its slot and nothing else. Tier B (bounded): SimOps translation and the whole chain on real runs against the netlist oracle incl. '
                         'overflowing capacities.')
    res.report = verify(wave_c.targets() + wave_kernels_c.targets_c13() + wave_kernels_c.targets_assign() + wave_comp_c.targets() + wave_comp_c.targets_s_to_c() + wave_comp_c.targets_c13() + alloc_c.targets() + graph_c.targets_stems(), timeout_s=30 if tier == 'quick' else 120)
    res.bounded = [wave_parts.part_c03(tier, seed)]
    res.assumptions = ['A-float: time stamps are extended reals (TMIN=-inf, TMAX=+inf, TMAX_OVL a larger +inf; sentinel + delay absorbs; finite + delay exact and below TMAX; '
                       't - TMIN exceeds every delay); rounding of finite float32/float64 sums is not modelled; Q2 uses of this model only that a sentinel plus a delay stays a sentinel',
                       'integers mathematical (int32 indices, the 64-bit LCG of the random dataset choice)', 'sd = 0 for the capture',
                       'composition over the op list and the levels (level_eval_cpu, WaveSim.c_prop): proved for the CPU path on ghost summaries (well-formed, initial, final value) of each '
                       'slot region under the memory-map hypotheses A1-A4w (A2 and region disjointness of live owner slots are proved for the allocation phase in C08; all of A2-A4w are evaluated '
                       'on real SimOps by map_drv.check_live_hypotheses); wave_eval_cpu enters by the contract of _wave_eval (Q1, Q2, Q3, Q5 proved above); the GPU path (launcher, one thread) is '
                       'not composed', 'WaveSim.s_to_c is under contract with numpy gather / choose / scatter as assumed element-wise contracts (input slots pairwise at least 3 apart: memory map, C08); SimOps translation of the whole netlist: see C01 (per-node contract) and the bounded part']
    res.trusted_base = ['pyvc', 'z3 5.1.0 (+ /usr/bin/z3, cvc5 for unknowns)', 'spec.evaln / spec.gates', 'bounded/wave_parts.py']
    return res
