"""C17 -- graph traversals and name lookups (bounded stand-in only: generators over an object graph are outside pyvc)."""
from vk.common import PropertyResult
from bounded import traversal_drv


def run(tier, seed):
    res = PropertyResult('C17', 'exploration',
                         'Runtime contracts (permutation, driver-before-reader cut at state elements, sources first, level = longest combinational '
                         'distance, mirror conditions for the reversed order, fan-in between the combinational and the any-path cone, bus lookups by '
                         'construction) evaluated on the real generators over a stated bounded circuit space. Not a proof.')
    res.bounded = [traversal_drv.traversal_part(tier, seed), traversal_drv.locs_part(seed)]
    res.assumptions = ['bounded: only the enumerated/seeded circuits and naming schemes are covered',
                       'oracle: spec-side BFS/recursion over Node.ins/outs (reads the same graph object, so C09 consistency is assumed)']
    res.trusted_base = ['/verif/bounded/traversal_drv.py (runtime contracts)', 'CPython']
    return res
