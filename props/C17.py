"""C17 -- graph traversals and name lookups (one generator under contract; the worklist traversals are a bounded stand-in)."""
from vk.common import PropertyResult
from bounded import traversal_drv


def run(tier, seed):
    res = PropertyResult('C17', 'other',
                         'Tier P (unbounded, two functions, both relative to topological_order): Circuit.topological_order_with_level is executed symbolically as a generator for a node sequence with the guarantees of topological_order '
                         '(nodes of the circuit, each at most once, connected drivers of a combinational node earlier) and proved to yield, in that order, every node with its longest combinational distance from a source '
                         '(0 for state elements and nodes without connected input, else 1 + maximum over the drivers of its connected inputs); Circuit.topological_line_order is executed symbolically as a generator (yields appended to a ghost sequence) for an arbitrary '
                         'node sequence produced by topological_order() and arbitrary pin lists, and proved to yield exactly the connected output lines of the nodes, node by node in that order and '
                         'in pin order within a node (position = lines of earlier nodes + connected pins below), never None. Tier B: runtime contracts (permutation, driver-before-reader cut at state elements, sources first, level = longest combinational '
                         'distance, mirror conditions for the reversed order, fan-in between the combinational and the any-path cone, bus lookups by '
                         'construction) evaluated on the real generators over a stated bounded circuit space. Not a proof.')
    try:
        from contracts import graph_c
        from pyvc.verify import verify
        res.report = verify(graph_c.targets_c17() + graph_c.targets_level(), timeout_s=20 if tier == 'quick' else 120)
    except ImportError:
        res.report = None
    res.bounded = [traversal_drv.traversal_part(tier, seed), traversal_drv.locs_part(seed)]
    res.assumptions = ['proved part: topological_order() enters as an arbitrary sequence of nodes (its own contract -- permutation, drivers first -- is bounded evidence only: a worklist over a dict of '
                       'visit counts); CONNPINS/CNTY monotone by the two induction lemmas', 'bounded: only the enumerated/seeded circuits and naming schemes are covered',
                       'oracle: spec-side BFS/recursion over Node.ins/outs (reads the same graph object, so C09 consistency is assumed)']
    res.trusted_base = ['pyvc', 'z3 5.1.0', '/verif/bounded/traversal_drv.py (runtime contracts)', 'CPython']
    return res
