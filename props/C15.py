"""C15 -- logic-value encodings convert losslessly and follow the axis convention."""
from vk.common import PropertyResult
from bounded import conv_drv


def run(tier, seed):
    res = PropertyResult('C15', 'other', '')
    try:
        from contracts import misc_c, conv_c
        from pyvc.verify import verify
        res.report = verify(misc_c.targets_c15() + conv_c.targets() + conv_c.targets_batch(), timeout_s=20)
    except ImportError:
        res.report = None
    res.explanation = ('Tier P (unbounded in the extents): kyupy.logic.unpackbits, packbits (dtype uint8; 1, 3, 8, 9 planes), mv_to_bp (1 and 2 axes), bp_to_mv (1, 2, 3, 8 planes; both also with a leading batch axis) are executed '
                       'symbolically from their current source on functional arrays (shape, index -> element) with symbolic extents; numpy bit packing primitives enter by assumed contracts '
                       '(listed); proved element-wise for fresh index constants: result shapes, bit b of mv_to_bp(x)[i,p,j] = bit p of x[i,8j+b] with zero padding lanes, bit p of '
                       'bp_to_mv(y)[i,t] = bit t%8 of y[i,p,t//8], and the round trip bp_to_mv(mv_to_bp(x))[i,t] = x[i,t] & 7 (0 on padding lanes) by running bp_to_mv on the *specified* '
                       'result of mv_to_bp (modular). The popcount lookup table equals the bit count for all 256 entries (ground). Tier B (bounded): interpret/mvarray/mv_str/bparray and the '
                       'conversion contracts (lossless round trips, axis convention, padding lanes 0, value <-> character table incl. every alias, pack/unpack inverse for 9 dtypes) '
                       'evaluated on the real functions against an independent bit-by-bit oracle over a stated space of shapes and strings. string/list handling '
                       '(interpret, mvarray, mv_str) and the other dtypes of packbits are bounded only.')
    res.bounded = [conv_drv.part(tier, seed)]
    res.assumptions = ["numpy contracts assumed by the functional array model: np.unpackbits/np.packbits(bitorder='little', with and without axis), swapaxes, np.pad(constant 0, end of last axis), "
                       "last-axis slicing, np.newaxis, view(uint8) identity, reshape(flatten(x), shape(x)) = x",
                       'bounded over shapes (<= 3 axes, extents <= 10, 16, 17) and strings (length <= 4)',
                       'several strings of length 1 passed to mvarray are not claimed (indistinguishable from one vector of scalars by the API design)']
    res.trusted_base = ['bounded/conv_drv.py']
    return res
