"""C15 -- logic-value encodings convert losslessly and follow the axis convention."""
from vk.common import PropertyResult
from bounded import conv_drv


def run(tier, seed):
    res = PropertyResult('C15', 'other', '')
    try:
        from contracts import misc_c
        from pyvc.verify import verify
        res.report = verify(misc_c.targets_c15(), timeout_s=20)
    except ImportError:
        res.report = None
    res.explanation = ('Tier P (small, where discharged in this run): the popcount lookup table equals the bit count for all 256 entries (ground). Tier B (bounded, deciding): the '
                       'conversion contracts (lossless round trips, axis convention, padding lanes 0, value <-> character table incl. every alias, pack/unpack inverse for 9 dtypes) '
                       'evaluated on the real functions against an independent bit-by-bit oracle over a stated space of shapes and strings. numpy bit twiddling '
                       '(packbits/unpackbits/swapaxes/view) is not modelled by the VC generator.')
    res.bounded = [conv_drv.part(tier, seed)]
    res.assumptions = ['bounded over shapes (<= 3 axes, extents <= 10, 16, 17) and strings (length <= 4)',
                       'several strings of length 1 passed to mvarray are not claimed (indistinguishable from one vector of scalars by the API design)']
    res.trusted_base = ['bounded/conv_drv.py']
    return res
