"""C12 -- multi-valued operators agree across both storage formats and the algebra (tier P, all operators)."""
import z3

from contracts import logic_c
from pyvc.verify import verify, Lemmas
from pyvc.values import SBool
from pyvc.logic import And, Or, Not, implies, iff
from spec import algebra as A
from vk.common import PropertyResult
from bounded import ops_enum


def lemmas():
    def build():
        def val(n):
            return tuple(SBool(z3.Bool(f'{n}_{c}')) for c in 'fia')

        def is01(v):
            return Or(A.is_zero8(v), A.is_one8(v))
        for k in (1, 2, 3, 4):
            vs = [val(f'v{j}') for j in range(k)]
            hyp = [And(*[is01(v) for v in vs])]
            r = A.and8(*vs)
            yield f'AND/{k} restricted to 0/1 is Boolean AND', hyp, And(is01(r), iff(r[0], And(*[v[0] for v in vs])))
            r = A.or8(*vs)
            yield f'OR/{k} restricted to 0/1 is Boolean OR', hyp, And(is01(r), iff(r[0], Or(*[v[0] for v in vs])))
            r = A.xor8(*vs)
            par = vs[0][0]
            for v in vs[1:]:
                par = A.xor2(par, v[0])
            yield f'XOR/{k} restricted to 0/1 is Boolean XOR', hyp, And(is01(r), iff(r[0], par))
            yield f'De Morgan NOT(AND/{k}) = OR(NOT..) on 0/1', hyp, A.eqv(A.not8(A.and8(*vs)), A.or8(*[A.not8(v) for v in vs]))
            yield f'De Morgan NOT(OR/{k}) = AND(NOT..) on 0/1', hyp, A.eqv(A.not8(A.or8(*vs)), A.and8(*[A.not8(v) for v in vs]))
        v = val('v')
        yield 'NOT restricted to 0/1 is Boolean NOT', [is01(v)], And(is01(A.not8(v)), iff(A.not8(v)[0], Not(v[0])))
        # 4-valued operators are the 8-valued ones without activity
        for k in (1, 2, 3, 4):
            vs = [tuple(SBool(z3.Bool(f'w{j}_{c}')) for c in 'fi') for j in range(k)]
            for nm, f4, f8 in (('and', A.and4, A.and8), ('or', A.or4, A.or8), ('xor', A.xor4, A.xor8)):
                r8 = f8(*[A.to8(v) for v in vs])
                yield f'{nm}4/{k} = {nm}8 on activity-free values', [], And(A.eqv(f4(*vs), r8[:2]), Not(r8[2]))
        yield 'mustfail: AND/2 is OR/2', [], A.eqv(A.and8(val('a'), val('b')), A.or8(val('a'), val('b'))), 'refuted'
    return Lemmas('lemmas over spec.algebra (C12)', build,
                  note='array (mv) and bit-parallel (bp) forms agree because both are proved equal to the same spec function')


def run(tier, seed):
    res = PropertyResult('C12', 'proof',
                         'Every operator of kyupy.logic (array form _mv_*/mv_*, bit-parallel bp4v_*/bp8v_*, arities 1..4) is '
                         'symbolically executed from its current source text and proved equal, for all operand values / all 8 lanes / '
                         'all row aliasings allowed by the precondition, to the value-level algebra written from the property text; the mv_* '
                         'wrappers are proved against the callee contracts incl. the out= clause (no exception for any size, result is out). '
                         'Boolean restriction and De Morgan duality are lemmas over the spec. An exhaustive enumeration of all operand tuples on '
                         'the real functions runs alongside as cross-check of the encoding (bounded evidence, not counted as proof).')
    res.report = verify(logic_c.targets() + [lemmas()], timeout_s=20 if tier == 'quick' else 120)
    res.bounded = [ops_enum.mv_ops(), ops_enum.bp_ops()]
    res.assumptions = [
        'NP-elementwise: numpy & | ^ ~ << == putmask where= out= and a[...] = v act element-wise after broadcasting (so one representative element / byte column stands for all indices and shapes)',
        'NP-view: basic indexing a[i], a[..., k, :] yields writable views; NP-bool: bool(array) raises unless size == 1',
        'operands of the array form hold 3-bit codes (values 0..7); for bit-parallel and/or/xor the output row is not an operand row (not/buf proved for every aliasing)',
        'spec.algebra (value-level algebra written from the property statement) is the oracle',
        'extraction drops decorators, docstrings, annotations, defaults (DESIGN.md 2.1); pyvc subset semantics (DESIGN.md 3.1)']
    res.trusted_base = ['pyvc symbolic executor (/verif/pyvc)', 'z3 5.1.0 (QF_BV/LIA)', 'CPython ast module', 'numpy semantics as assumed above']
    return res
