"""Clause helpers that work on concrete Python values and on symbolic values alike, so that one clause text is
evaluated symbolically (tier P) and concretely (runtime monitor, replay)."""
import z3
from .values import Sym, SBool, SInt, SBV, SReal, is_sym, to_bool, to_int, to_real, term, wrap


def _anysym(*vs):
    return any(is_sym(v) for v in vs)


# ---- bit-sliced mode: when an operand is an SBV the connectives act lane-wise (bitwise); True/False are all-ones/zeros.
# This lifts a value-level spec text to 8 (or w) independent lanes by construction.
def _bs(vs):
    w = None
    for v in vs:
        if isinstance(v, SBV):
            w = v.width
    return w


def _bsv(v, w):
    if isinstance(v, SBV):
        return v.e
    if isinstance(v, SBool):
        return z3.If(v.e, z3.BitVecVal((1 << w) - 1, w), z3.BitVecVal(0, w))
    return z3.BitVecVal((1 << w) - 1 if bool(v) else 0, w)


def And(*vs):
    vs = [v for v in vs]
    w = _bs(vs)
    if w:
        r = _bsv(vs[0], w)
        for v in vs[1:]:
            r = r & _bsv(v, w)
        return SBV(r)
    if not _anysym(*vs):
        return all(bool(v) for v in vs)
    return SBool(z3.And(*[to_bool(v) for v in vs]))


def Or(*vs):
    w = _bs(vs)
    if w:
        r = _bsv(vs[0], w)
        for v in vs[1:]:
            r = r | _bsv(v, w)
        return SBV(r)
    if not _anysym(*vs):
        return any(bool(v) for v in vs)
    return SBool(z3.Or(*[to_bool(v) for v in vs]))


def Not(v):
    if isinstance(v, SBV):
        return SBV(~v.e)
    if not is_sym(v):
        return not bool(v)
    return SBool(z3.Not(to_bool(v)))


def implies(a, b):
    if not _anysym(a, b):
        return (not bool(a)) or bool(b)
    return SBool(z3.Implies(to_bool(a), to_bool(b)))


def iff(a, b):
    w = _bs((a, b))
    if w:
        return SBV(~(_bsv(a, w) ^ _bsv(b, w)))
    if not _anysym(a, b):
        return bool(a) == bool(b)
    return SBool(to_bool(a) == to_bool(b))


def ite(c, a, b):
    if isinstance(c, SBV):       # bit-sliced selection
        w = c.width
        return SBV((c.e & _bsv(a, w)) | (~c.e & _bsv(b, w)))
    if not is_sym(c):
        return a if bool(c) else b
    if isinstance(a, SBV) or isinstance(b, SBV):
        w = a.width if isinstance(a, SBV) else b.width
        ea = a.e if isinstance(a, SBV) else z3.BitVecVal(int(a), w)
        eb = b.e if isinstance(b, SBV) else z3.BitVecVal(int(b), w)
        return SBV(z3.If(to_bool(c), ea, eb))
    if isinstance(a, (SReal, float)) or isinstance(b, (SReal, float)):
        cls = type(a) if isinstance(a, SReal) else (type(b) if isinstance(b, SReal) else SReal)
        return cls(z3.If(to_bool(c), to_real(a), to_real(b)))
    if isinstance(a, (SBool, bool)) and isinstance(b, (SBool, bool)):
        return SBool(z3.If(to_bool(c), to_bool(a), to_bool(b)))
    return SInt(z3.If(to_bool(c), to_int(a), to_int(b)))


def eq(a, b):
    r = (a == b)
    return r


def bit(v, k):
    """bit k (concrete k) of a value as 0/1 (concrete int or SBV of width 1 -> returned as SBool)"""
    if isinstance(v, SBV):
        return SBool(z3.Extract(k, k, v.e) == z3.BitVecVal(1, 1))
    if isinstance(v, SInt):
        return ((v // (1 << k)) % 2) == 1
    return bool((int(v) >> k) & 1)
