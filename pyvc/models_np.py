"""Memory models for numpy arrays used by kyupy.logic / kyupy.logic_sim.

ASSUMED numpy contracts (reported in the evidence as assumptions, DESIGN.md 3.2):
  NP-elementwise   & | ^ ~ << >> == putmask where= out= and ``a[...] = v`` act element-wise after broadcasting; therefore a
                   postcondition proved for one representative element / one representative byte column holds for every
                   index of every shape.
  NP-view          basic indexing (``a[i]``, ``a[..., k, :]``, ``a[...]``) yields a writable view.
  NP-bool          ``bool(a)`` raises ValueError unless a.size == 1 (then it is the truth of that element).
"""
import ast

import z3

from .engine import Model, NotInSubset, SymIter
from .values import SBV, SBool, SInt, is_sym, to_bool, to_int, _conc_int
from .logic import ite


def bv8(v, width=8):
    if isinstance(v, SBV):
        return v
    if isinstance(v, SBool):
        return SBV(z3.If(v.e, z3.BitVecVal(1, width), z3.BitVecVal(0, width)))
    c = _conc_int(v)
    if c is None:
        raise NotInSubset(f'cannot store {v!r} into a uint{width} array')
    if not 0 <= c < (1 << width):
        raise NotInSubset(f'value {c} out of range for uint{width} (numpy raises OverflowError)')
    return SBV(z3.BitVecVal(c, width))


# ----------------------------------------------------------------------------------------------- element abstraction
class ShapeToken:
    def __init__(self, size):
        self.size = size


class ElemArr(Model):
    """a numpy uint8 array of arbitrary shape, abstracted to one representative element (NP-elementwise) plus a
    ghost ``size``.  Contents: heap[name] (SBV8), heap[(name,'size')] (SInt)."""
    ident = 0

    def __init__(self, name, writable=True):
        self.name = name
        self.writable = writable
        ElemArr.ident += 1
        self.ident = ElemArr.ident

    @staticmethod
    def new(ex, st, name, size=None, writable=True):
        a = ElemArr(name, writable)
        st.heap[name] = ex.fv(name, 'bv8')
        st.heap[(name, 'size')] = size if size is not None else ex.fv(name + '_size', 'int')
        ex.readonly.add((name, 'size'))
        if not writable:
            ex.readonly.add(name)
        return a

    def elem(self, st):
        v = st.heap[self.name]
        r = SBV(v.e)
        r.src = frozenset([self.name])
        return r

    def size(self, st):
        return st.heap[(self.name, 'size')]

    def m_binop(self, ex, st, op, a, b, node):
        a = a.elem(st) if isinstance(a, ElemArr) else a
        b = b.elem(st) if isinstance(b, ElemArr) else b
        return ex.binop(st, op, a, b, node)

    def m_unary(self, ex, st, op, node):
        if op is ast.Invert:
            return ~self.elem(st)
        raise NotInSubset('unary op on array')

    def m_compare(self, ex, st, op, a, b, node):
        a = a.elem(st) if isinstance(a, ElemArr) else a
        b = b.elem(st) if isinstance(b, ElemArr) else b
        return ex.compare(st, op(), a, b, node)

    def m_getitem(self, ex, st, idx, node):
        if idx is Ellipsis:
            return self
        raise NotInSubset('indexing into an element-abstracted array')

    def m_setitem(self, ex, st, idx, val, node):
        if idx is not Ellipsis:
            raise NotInSubset('partial assignment into an element-abstracted array')
        self.store(ex, st, ex.load(st, val), node)

    def store(self, ex, st, val, node):
        if isinstance(val, ElemArr):
            val = val.elem(st)
        ex.prove(st, f'frame:write to {self.name}', self.writable, node)
        st.heap[self.name] = bv8(val)

    def m_truth(self, ex, st, node):
        ex.prove(st, f'no-exception:bool({self.name}) needs size 1', self.size(st) == 1, node,
                 info={'kind': 'bool-of-array', 'array': self.name})
        st.assume(self.size(st) == 1)
        return SBool(self.elem(st).e != 0)

    def m_getattr(self, ex, st, name, node):
        if name == 'shape':
            return ShapeToken(self.size(st))
        raise NotInSubset(f'array attribute {name}')

    def m_inplace(self, ex, st, op, rhs, node):
        self.store(ex, st, ex.binop(st, op, self.elem(st), rhs, node), node)
        return None


def _as_elem(st, v):
    return v.elem(st) if isinstance(v, ElemArr) else v


def np_prims(np):
    """models of the numpy functions used by logic.py on element-abstracted arrays"""
    def ufunc(f):
        def model(ex, st, args, kwargs, node):
            ex.assumed.add('NP-elementwise')
            a, b = (_as_elem(st, ex.load(st, x)) for x in args[:2])
            out = kwargs.get('out', args[2] if len(args) > 2 else None)
            where = kwargs.get('where', True)
            where = _as_elem(st, ex.load(st, where))
            r = ex.binop(st, f, a, b, node)
            if out is None:
                if where is not True:
                    raise NotInSubset('ufunc with where= but without out=')
                return r
            if not isinstance(out, ElemArr):
                raise NotInSubset('ufunc out= is not an array under contract')
            new = r if where is True else ite(where, bv8(r), out.elem(st))
            out.store(ex, st, new, node)
            return out
        return model

    def putmask(ex, st, args, kwargs, node):
        ex.assumed.add('NP-elementwise')
        a, mask, val = args
        if not isinstance(a, ElemArr):
            raise NotInSubset('putmask target is not an array under contract')
        mask = _as_elem(st, ex.load(st, mask))
        val = _as_elem(st, ex.load(st, val))
        a.store(ex, st, ite(mask, bv8(val), a.elem(st)) if is_sym(mask) else (bv8(val) if mask else a.elem(st)), node)
        return None

    def empty(ex, st, args, kwargs, node):
        shape = args[0]
        if kwargs.get('dtype', args[1] if len(args) > 1 else None) is not np.uint8:
            raise NotInSubset('np.empty with a dtype other than uint8')
        if not isinstance(shape, ShapeToken):
            raise NotInSubset('np.empty with an unmodelled shape')
        return ElemArr.new(ex, st, f'empty{next(ex.fresh)}', size=shape.size)

    class Bcast:
        def __init__(self, size): self.shape = ShapeToken(size)

    def broadcast(ex, st, args, kwargs, node):
        # all operands of the wrappers are required (by the contract) to broadcast to one common shape
        return Bcast(st.env['__bsize__'])

    return {np.bitwise_and: ufunc(ast.BitAnd), np.bitwise_or: ufunc(ast.BitOr), np.bitwise_xor: ufunc(ast.BitXor),
            np.putmask: putmask, np.empty: empty, np.broadcast: broadcast}


# ----------------------------------------------------------------------------------------------- plane memory
class PlaneMem(Model):
    """``c``: uint8 array of shape (c_len, nplanes, nbytes), abstracted along the last axis to one representative byte
    column (NP-elementwise).  Contents: heap[(name, k)] : Array Int -> BV8 for each plane k."""

    def __init__(self, name, nplanes, length=None, writes=None):
        self.name, self.nplanes, self.length, self.writes = name, nplanes, length, writes

    @staticmethod
    def new(ex, st, name, nplanes, length=None, writes=None):
        m = PlaneMem(name, nplanes, length, writes)
        for k in range(nplanes):
            st.heap[(name, k)] = z3.Array(f'{name}_p{k}!{next(ex.fresh)}', z3.IntSort(), z3.BitVecSort(8))
        return m

    def plane(self, st, k):
        return st.heap[(self.name, k)]

    def check_loc(self, ex, st, loc, node, write):
        if self.length is not None:
            i = to_int(loc)
            ex.prove(st, f'index-in-bounds:{self.name}', z3.And(i >= 0, i < to_int(self.length)), node)
        if write and self.writes is not None:
            ex.prove(st, f'frame:{self.name}', self.writes(ex, st, loc), node)

    def m_getitem(self, ex, st, idx, node):
        if isinstance(idx, (tuple, slice)) or idx is Ellipsis:
            raise NotInSubset('unsupported index into plane memory')
        return RowView(self, idx)

    def m_setitem(self, ex, st, idx, val, node):
        RowView(self, idx).m_setitem(ex, st, Ellipsis, val, node)


class RowVal(Model):
    """value of a whole row (tuple of plane bytes) -- result of arithmetic on rows in the 2-valued code path"""

    def __init__(self, planes):
        self.planes = tuple(planes)

    def m_binop(self, ex, st, op, a, b, node):
        def pl(x):
            if isinstance(x, RowVal):
                return x.planes
            if isinstance(x, RowView):
                return x.m_load(ex, st).planes
            return None
        pa, pb = pl(a), pl(b)
        n = len(pa if pa is not None else pb)
        pa = pa if pa is not None else (a,) * n
        pb = pb if pb is not None else (b,) * n
        if len(pa) != len(pb):
            raise NotInSubset('row shape mismatch')
        return RowVal(ex.binop(st, op, x, y, node) for x, y in zip(pa, pb))

    def m_unary(self, ex, st, op, node):
        if op is ast.Invert:
            return RowVal(~p for p in self.planes)
        raise NotInSubset('unary op on row')


class RowView(Model):
    is_view = True
    m_getitem_view = True

    def __init__(self, mem, loc):
        self.mem, self.loc = mem, loc

    def m_load(self, ex, st):
        return RowVal(SBV(z3.Select(self.mem.plane(st, k), to_int(self.loc))) for k in range(self.mem.nplanes))

    def _plane_index(self, idx):
        if isinstance(idx, tuple) and len(idx) == 3 and idx[0] is Ellipsis and idx[2] == slice(None, None, None):
            k = _conc_int(idx[1])
            if k is None:
                raise NotInSubset('symbolic plane index')
            return k
        raise NotInSubset(f'unsupported index {idx!r} into a row')

    def m_getitem(self, ex, st, idx, node):
        if idx is Ellipsis:
            return self
        k = self._plane_index(idx)
        if not 0 <= k < self.mem.nplanes:
            ex.prove(st, f'index-in-bounds:plane {k} of {self.mem.nplanes}', False, node)
            raise NotInSubset('plane index out of range')
        self.mem.check_loc(ex, st, self.loc, node, False)
        return PlaneRef(self.mem, self.loc, k)

    def m_setitem(self, ex, st, idx, val, node):
        val = ex.load(st, val)
        if idx is Ellipsis:
            self.mem.check_loc(ex, st, self.loc, node, True)
            if isinstance(val, RowVal):
                if len(val.planes) != self.mem.nplanes:
                    raise NotInSubset('row shape mismatch')
                vals = val.planes
            else:
                vals = (val,) * self.mem.nplanes
            for k, v in enumerate(vals):
                st.heap[(self.mem.name, k)] = z3.Store(self.mem.plane(st, k), to_int(self.loc), bv8(v).e)
            return
        k = self._plane_index(idx)
        if not 0 <= k < self.mem.nplanes:
            ex.prove(st, f'index-in-bounds:plane {k} of {self.mem.nplanes}', False, node)
            raise NotInSubset('plane index out of range')
        PlaneRef(self.mem, self.loc, k).m_store(ex, st, val, node)

    def m_store(self, ex, st, val, node):
        self.m_setitem(ex, st, Ellipsis, val, node)

    def m_binop(self, ex, st, op, a, b, node):
        return RowVal.m_binop(None, ex, st, op, a, b, node)

    def m_unary(self, ex, st, op, node):
        return self.m_load(ex, st).m_unary(ex, st, op, node)


class PlaneRef(Model):
    is_view = True

    def __init__(self, mem, loc, k):
        self.mem, self.loc, self.k = mem, loc, k

    def m_load(self, ex, st):
        return SBV(z3.Select(self.mem.plane(st, self.k), to_int(self.loc)))

    def m_store(self, ex, st, val, node):
        self.mem.check_loc(ex, st, self.loc, node, True)
        val = ex.load(st, val)
        st.heap[(self.mem.name, self.k)] = z3.Store(self.mem.plane(st, self.k), to_int(self.loc), bv8(val).e)
