"""Generic model objects: records (self), integer arrays backed by z3 arrays, uninterpreted 2-D tables, callbacks."""
import z3

from .engine import Model, NotInSubset, SymIter
from .values import SInt, SBool, is_sym, to_int, _conc_int


class SObj(Model):
    """a record: field values live in State.heap[(name, field)]"""

    def __init__(self, name):
        self.name = name

    @staticmethod
    def new(st, name, **fields):
        o = SObj(name)
        for k, v in fields.items():
            st.heap[(name, k)] = v
        return o

    def m_getattr(self, ex, st, name, node):
        try:
            return st.heap[(self.name, name)]
        except KeyError:
            m = ex.find_method(self, name)
            if m is not None:
                return m
            from .engine import ContractError
            raise ContractError(f'{self.name}.{name} is not bound by the contract')

    def m_setattr(self, ex, st, name, val, node):
        st.heap[(self.name, name)] = val


class IntArr(Model):
    """1-D integer array (numpy int32 treated as mathematical integers): heap[name] : Array Int -> Int"""

    def __init__(self, name, length=None, writable=False):
        self.name, self.length, self.writable = name, length, writable

    @staticmethod
    def new(ex, st, name, length=None, writable=False):
        st.heap[name] = z3.Array(f'{name}!{next(ex.fresh)}', z3.IntSort(), z3.IntSort())
        if not writable:
            ex.readonly.add(name)
        return IntArr(name, length, writable)

    def sel(self, st, i):
        return SInt(z3.Select(st.heap[self.name], to_int(i)))

    def m_getitem(self, ex, st, idx, node):
        if isinstance(idx, Table2):
            # numpy gather a[T]: the table of a[T[r, c]] (index bounds become obligations when a cell is read)
            arr, length, tbl, name = st.heap[self.name], self.length, idx, self.name

            def cell(r, c):
                return z3.Select(arr, tbl.fn(r, c + tbl.col0) if tbl.col0 else tbl.fn(r, c))
            t = Table2(cell, tbl.nrows, tbl.cols)
            if length is not None:
                t.bounds = lambda r, c: z3.And(tbl.fn(r, c + tbl.col0) >= 0, tbl.fn(r, c + tbl.col0) < to_int(length))
                t.bounds_name = f'index-in-bounds:{name}[gather]'
            return t
        if isinstance(idx, (tuple, slice)):
            raise NotInSubset('unsupported index into int array')
        if self.length is not None:
            i = to_int(idx)
            ex.prove(st, f'index-in-bounds:{self.name}', z3.And(i >= 0, i < to_int(self.length)), node)
        return self.sel(st, idx)

    def m_setitem(self, ex, st, idx, val, node):
        if not self.writable:
            ex.prove(st, f'frame:{self.name} is read-only', False, node)
        if self.length is not None:
            i = to_int(idx)
            ex.prove(st, f'index-in-bounds:{self.name}', z3.And(i >= 0, i < to_int(self.length)), node)
        st.heap[self.name] = z3.Store(st.heap[self.name], to_int(idx), to_int(val))

    def m_len(self, ex, st, node):
        return self.length

    def m_iter(self, ex, st, node):
        if self.length is None:
            raise NotInSubset('iteration over an array of unknown length')
        arr = st.heap[self.name]
        return SymIter(self.length, lambda ex_, st_, k: SInt(z3.Select(arr, to_int(k))))


class Table2(Model):
    """read-only 2-D integer table given by an uninterpreted function F(row, col); ``t[:, :w]`` iterates rows"""

    def __init__(self, fn, nrows, ncols, cols=None, col0=0):
        self.fn, self.nrows, self.ncols, self.cols, self.col0 = fn, nrows, ncols, cols if cols is not None else ncols, col0
        self.bounds = None

    def cell(self, r, c):
        return SInt(self.fn(to_int(r), to_int(c) + self.col0))

    def row(self, ex, st, k, node):
        if self.bounds is not None:
            for c in range(self.cols):
                ex.prove(st, self.bounds_name, self.bounds(to_int(k), z3.IntVal(c + self.col0)), node)
        return tuple(self.cell(k, c) for c in range(self.cols))

    def m_getitem(self, ex, st, idx, node):
        if isinstance(idx, tuple) and len(idx) == 2 and idx[0] == slice(None, None, None) and isinstance(idx[1], slice):
            s = idx[1]
            a = 0 if s.start is None else _conc_int(s.start)
            if a is not None and s.step is None and _conc_int(s.stop) is not None and 0 <= a < s.stop <= self.cols:
                t = Table2(self.fn, self.nrows, self.ncols, s.stop - a, self.col0 + a)
                t.bounds, t.bounds_name = self.bounds, getattr(self, 'bounds_name', None)
                return t
        if not isinstance(idx, (tuple, slice)):
            # a row
            i = to_int(idx)
            ex.prove(st, 'index-in-bounds:ops row', z3.And(i >= 0, i < to_int(self.nrows)), node)
            return self.row(ex, st, idx, node)
        raise NotInSubset(f'unsupported index {idx!r} into ops table')

    def m_iter(self, ex, st, node):
        return SymIter(self.nrows, lambda ex_, st_, k: self.row(ex_, st_, k, node))

    def m_len(self, ex, st, node):
        return self.nrows
