"""pyvc -- forward symbolic executor / verification-condition generator for a stated subset of Python.

The executor walks the *real* AST of a function of /repo (re-read on every run, see pyvc.source), evaluates
everything concrete with CPython itself and everything symbolic through the operator overloads of pyvc.values,
and emits one proof obligation per contract clause, loop-invariant clause, call-site precondition, index access,
frame clause and postcondition clause.  Loops over symbolic iterables and ``while`` loops are cut by inductive
invariants (assert on entry / havoc / assume / assert after the body); calls are modular (callee contract, not its
body).  Anything outside the subset raises NotInSubset -> the contract is *undecided*, never violated.
"""
import ast
import builtins
import itertools
import operator

import z3

from .values import Sym, SBool, SInt, SBV, SReal, is_sym, to_bool, to_int, to_real, term, wrap, _conc_int


class NotInSubset(Exception):
    """the code left the subset of Python that pyvc models (-> undecided)"""


class ContractError(Exception):
    """the contract does not bind to the code (missing function, variable, loop) (-> undecided)"""


class ForkRequest(Exception):
    """raised inside expression evaluation when a symbolic condition has to be decided by forking the path; the
    statement is re-executed on both forks with the condition decided"""
    def __init__(self, cond):
        self.cond = cond


class State:
    __slots__ = ('env', 'heap', 'pc', 'ctl', 'ret', 'tags', 'decided')

    def __init__(self):
        self.env = {}
        self.heap = {}
        self.pc = []
        self.ctl = None
        self.ret = None
        self.tags = ()
        self.decided = ()

    def fork(self):
        s = State()
        s.env = dict(self.env)
        s.heap = dict(self.heap)
        s.pc = list(self.pc)
        s.ctl = self.ctl
        s.ret = self.ret
        s.tags = self.tags
        s.decided = self.decided
        return s

    def decision(self, c):
        for e, v in self.decided:
            if z3.eq(e, c):
                return v
        return None

    def assume(self, c):
        if c is True:
            return
        self.pc.append(to_bool(c))

    def tag(self, t):
        self.tags = self.tags + (t,)


class Obligation:
    __slots__ = ('func', 'name', 'hyps', 'goal', 'lineno', 'tags', 'info', 'expect')

    def __init__(self, func, name, hyps, goal, lineno, tags=(), info=None, expect='proved'):
        self.func, self.name, self.hyps, self.goal, self.lineno = func, name, hyps, goal, lineno
        self.tags, self.info, self.expect = tags, info, expect

    @property
    def key(self):
        return f'{self.name}@{self.func}'


class Model:
    """base class of model objects (arrays, views, maps, objects).  Model objects are immutable handles; their
    mutable contents live in State.heap."""

    def m_getitem(self, ex, st, idx, node): raise NotInSubset(f'{type(self).__name__}[...] read')
    def m_setitem(self, ex, st, idx, val, node): raise NotInSubset(f'{type(self).__name__}[...] write')
    def m_delitem(self, ex, st, idx, node): raise NotInSubset(f'del {type(self).__name__}[...]')
    def m_getattr(self, ex, st, name, node): raise NotInSubset(f'{type(self).__name__}.{name}')
    def m_setattr(self, ex, st, name, val, node): raise NotInSubset(f'{type(self).__name__}.{name} = ...')
    def m_len(self, ex, st, node): raise NotInSubset(f'len({type(self).__name__})')
    def m_truth(self, ex, st, node): raise NotInSubset(f'bool({type(self).__name__})')
    def m_iter(self, ex, st, node): raise NotInSubset(f'iter({type(self).__name__})')
    def m_call(self, ex, st, args, kwargs, node): raise NotInSubset(f'call of {type(self).__name__}')
    def m_unary(self, ex, st, op, node): raise NotInSubset(f'unary {op.__name__} on {type(self).__name__}')
    def m_binop(self, ex, st, op, a, b, node): raise NotInSubset(f'{op.__name__} on {type(self).__name__}')
    def m_compare(self, ex, st, op, a, b, node): raise NotInSubset(f'compare on {type(self).__name__}')
    def m_contains(self, ex, st, a, node): raise NotInSubset(f'in {type(self).__name__}')
    def m_inplace(self, ex, st, op, rhs, node): raise NotInSubset(f'in-place {op.__name__} on {type(self).__name__}')
    def m_isinstance(self, ex, st, cls, node): raise NotInSubset(f'isinstance({type(self).__name__}, ...)')
    is_view = False
    def m_load(self, ex, st): raise NotInSubset('load')
    def m_store(self, ex, st, val, node): raise NotInSubset('store')


def _srcs(*vs):
    u = None
    for v in vs:
        s = getattr(v, 'src', None) if is_sym(v) else None
        if s:
            u = s if u is None else (u | s)
    return u


def _tag(r, *vs):
    if is_sym(r):
        u = _srcs(*vs)
        if u:
            r.src = u if r.src is None else (r.src | u)
    return r


_PURE_METHODS = {'items', 'keys', 'values', 'get', 'startswith', 'endswith', 'lower', 'upper', 'strip', 'split', 'index', 'count'}


class OptInt(SInt):
    """an integer or None, decided by a symbolic condition (`x is None` is answered symbolically; arithmetic treats it as the integer)"""
    __slots__ = ('is_none',)

    def __init__(self, e, isnone):
        super().__init__(e)
        self.is_none = SBool(isnone)


class UserFn:
    """a function of the code under verification that is inlined at its call sites (helper without contract, nested def).
    A nested function reads the variables of its defining function as they are at the call (it must be called from there)."""
    def __init__(self, fdef, globs, nested, label=None):
        self.fdef, self.globs, self.nested, self.label = fdef, globs, nested, label or fdef.name


class BoundUserFn(Model):
    """a method of the class under verification that has no contract, bound to the model of ``self``: inlined when called"""
    def __init__(self, uf, selfobj):
        self.uf, self.selfobj = uf, selfobj

    def m_call(self, ex, st, args, kwargs, node):
        return ex.inline(st, self.uf, [self.selfobj] + list(args), kwargs, node)


class SymIter:
    """a symbolic iterable: ``length`` (SInt or int) and ``item(ex, st, k)`` for the loop rule"""
    def __init__(self, length, item):
        self.length, self.item = length, item


_BINOPS = {ast.Add: operator.add, ast.Sub: operator.sub, ast.Mult: operator.mul, ast.FloorDiv: operator.floordiv,
           ast.Mod: operator.mod, ast.BitAnd: operator.and_, ast.BitOr: operator.or_, ast.BitXor: operator.xor,
           ast.LShift: operator.lshift, ast.RShift: operator.rshift, ast.Div: operator.truediv, ast.Pow: operator.pow}
_CMPOPS = {ast.Eq: operator.eq, ast.NotEq: operator.ne, ast.Lt: operator.lt, ast.LtE: operator.le,
           ast.Gt: operator.gt, ast.GtE: operator.ge}


def loops_in_order(fn):
    out = []

    class V(ast.NodeVisitor):
        def visit_FunctionDef(self, n):
            if n is fn:
                self.generic_visit(n)
            # loops of nested helper functions are not numbered: they are inlined at their call sites and must be unrollable

        def visit_Lambda(self, n):
            pass

        def visit_For(self, n):
            out.append(n)
            self.generic_visit(n)

        def visit_While(self, n):
            out.append(n)
            self.generic_visit(n)
    V().visit(fn)
    return out


def assigned_names(stmts):
    names = []

    def tgt(t):
        if isinstance(t, ast.Name):
            if t.id not in names:
                names.append(t.id)
        elif isinstance(t, (ast.Tuple, ast.List)):
            for x in t.elts:
                tgt(x)
        elif isinstance(t, ast.Starred):
            tgt(t.value)
    for s in stmts:
        for x in ast.walk(s):
            if isinstance(x, ast.Assign):
                for t in x.targets:
                    tgt(t)
            elif isinstance(x, (ast.AugAssign, ast.AnnAssign)):
                tgt(x.target)
            elif isinstance(x, ast.For):
                tgt(x.target)
            elif isinstance(x, ast.NamedExpr):
                tgt(x.target)
    return names


class Exec:
    """one symbolic execution of one function body against one contract configuration"""

    def __init__(self, funcname, fn_ast, globs, contract, prims=None, kinds=None):
        self.funcname = funcname
        self.fn = fn_ast
        self.globs = globs            # the real module's namespace (constants, imported modules, functions)
        self.c = contract
        self.obls = []
        self.fresh = itertools.count()
        self.loops = loops_in_order(fn_ast)
        self.loop_id = {id(n): k for k, n in enumerate(self.loops)}
        lm = contract.get('loop_match')
        if lm:
            # loops are bound by what they iterate over, not by their ordinal: key -> (substring of the iterable's source, occurrence);
            # every other loop is unnumbered and must iterate over a concrete (unrollable) collection
            self.loop_id = {}
            for key, (sub, nth) in lm.items():
                if sub.startswith('@inner:'):
                    # the loops nested inside the loop bound to another key (whatever they iterate over)
                    outer = [n for n in self.loops if self.loop_id.get(id(n)) == int(sub[7:])]
                    if not outer:
                        raise ContractError(f'loop_match {sub}: outer loop not bound (list it first)')
                    inner = [x for x in ast.walk(outer[0]) if x is not outer[0] and isinstance(x, (ast.For, ast.While))]
                    hits = [n for n in self.loops if any(n is x for x in inner)]
                else:
                    hits = [n for n in self.loops if isinstance(n, ast.For) and sub in ast.unparse(n.iter)]
                if nth is None:
                    # every loop over this iterable carries the same invariant (e.g. a loop duplicated into both arms of an if)
                    if not hits:
                        raise ContractError(f'no loop over `{sub}` in the verified text: the contract does not bind')
                    for h in hits:
                        self.loop_id[id(h)] = key
                    continue
                if len(hits) <= nth:
                    raise ContractError(f'no loop #{nth} over `{sub}` in the verified text: the contract does not bind')
                self.loop_id[id(hits[nth])] = key
        self.prims = dict(prims or {})          # callable object -> model function(ex, st, args, kwargs, node)
        self.kinds = {'int': lambda n: SInt(z3.Int(n)), 'bool': lambda n: SBool(z3.Bool(n)),
                      'real': lambda n: SReal(z3.Real(n)), 'bv8': lambda n: SBV(z3.BitVec(n, 8)),
                      'bv16': lambda n: SBV(z3.BitVec(n, 16))}
        self.kinds.update(kinds or {})
        self.readonly = set()         # heap keys registered read-only by the models (never havocked by loops)
        if 'const_hook_factory' in self.c:
            self.c = dict(self.c)
            self.c['const_hook'] = self.c['const_hook_factory'](self)
        self.in_loop = 0
        self.inline_depth = 0
        self.inlined = set()          # labels of functions inlined at call sites (helpers without contract): part of the verified text
        self.assumed = set()          # names of assumed primitive models actually used
        self.st0 = None
        self.finished = []            # states that reached the postcondition

    # ------------------------------------------------------------------ helpers
    def fv(self, base, kind='int'):
        return self.kinds[kind](f'{base}!{next(self.fresh)}')

    def fresh_like(self, name, old, kind=None):
        if kind is None:
            if isinstance(old, Sym):
                for k, mk in self.kinds.items():
                    pass
                if isinstance(old, SInt): kind = 'int'
                elif isinstance(old, SBool): kind = 'bool'
                elif isinstance(old, SBV): kind = f'bv{old.width}'
                elif isinstance(old, SReal): kind = getattr(old, 'kindname', 'real')
            elif isinstance(old, bool): kind = 'bool'
            elif _conc_int(old) is not None: kind = 'int'
        if kind is None:
            return None
        return self.fv(name, kind)

    def prove(self, st, name, goal, node=None, info=None, expect='proved'):
        if goal is True:
            goal = z3.BoolVal(True)
        elif goal is False:
            goal = z3.BoolVal(False)
        else:
            goal = to_bool(goal)
        self.obls.append(Obligation(self.funcname, name, list(st.pc), goal, getattr(node, 'lineno', 0), st.tags, info,
                                    expect))

    # ------------------------------------------------------------------ expressions
    def ev(self, st, n):
        m = getattr(self, 'e_' + type(n).__name__, None)
        if m is None:
            raise NotInSubset(f'expression {type(n).__name__} (line {getattr(n, "lineno", "?")})')
        return m(st, n)

    def load(self, st, v):
        """resolve a view to its current value"""
        while isinstance(v, Model) and v.is_view:
            v = v.m_load(self, st)
        return v

    def e_Constant(self, st, n):
        return n.value

    def e_Name(self, st, n):
        if n.id in st.env:
            return st.env[n.id]
        h = self.c.get('const_hook')
        if n.id in self.globs:
            v = self.globs[n.id]
            if h:
                v = h(n.id, v)
            return v
        if hasattr(builtins, n.id):
            return getattr(builtins, n.id)
        raise ContractError(f'unbound name {n.id!r} (line {n.lineno})')

    def e_Attribute(self, st, n):
        base = self.ev(st, n.value)
        if isinstance(base, Model):
            return base.m_getattr(self, st, n.attr, n)
        if is_sym(base):
            raise NotInSubset(f'attribute {n.attr} of symbolic value')
        try:
            v = getattr(base, n.attr)
        except AttributeError as e:
            raise ContractError(str(e))
        h = self.c.get('const_hook')
        if h:
            v = h(n.attr, v)
        return v

    def e_JoinedStr(self, st, n):
        return '<f-string>'      # only ever an argument of print(); never inspected

    def e_Yield(self, st, n):
        """generator functions: a ``yield`` appends its value to the ghost sequence of yielded values (contract option 'yield_hook')"""
        h = self.c.get('yield_hook')
        if h is None:
            raise NotInSubset('yield (the contract has no yield_hook)')
        h(self, st, self.ev(st, n.value) if n.value is not None else None, n)
        return None

    def e_Tuple(self, st, n):
        out = []
        for x in n.elts:
            if isinstance(x, ast.Starred):
                out.extend(self.iter_concrete(st, self.ev(st, x.value), x))
            else:
                out.append(self.ev(st, x))
        return tuple(out)

    def e_List(self, st, n):
        return list(self.e_Tuple(st, n))

    def e_Dict(self, st, n):
        if any(k is None for k in n.keys):
            raise NotInSubset('dict literal with ** unpacking')
        keys, vals = [self.ev(st, k) for k in n.keys], [self.ev(st, v) for v in n.values]
        h = self.c.get('dict_hook')
        if h is not None:
            r = h(self, st, keys, vals, n)
            if r is not NotImplemented:
                return r
        if any(is_sym(k) or isinstance(k, Model) for k in keys):
            raise NotInSubset('dict literal with symbolic keys')
        return dict(zip(keys, vals))

    def e_Slice(self, st, n):
        return slice(self.ev(st, n.lower) if n.lower else None, self.ev(st, n.upper) if n.upper else None,
                     self.ev(st, n.step) if n.step else None)

    def e_UnaryOp(self, st, n):
        v = self.load(st, self.ev(st, n.operand))
        if isinstance(n.op, ast.Not):
            t = self.truth(st, v, n)
            return (not t) if not is_sym(t) else SBool(z3.Not(t.e))
        if isinstance(v, Model):
            return v.m_unary(self, st, type(n.op), n)
        if isinstance(n.op, ast.USub):
            return _tag(-v, v)
        if isinstance(n.op, ast.Invert):
            return _tag(~v, v)
        if isinstance(n.op, ast.UAdd):
            return +v
        raise NotInSubset('unary op')

    def truth(self, st, v, node):
        """Python truthiness: concrete bool or SBool"""
        v = self.load(st, v)
        if isinstance(v, Model):
            v = v.m_truth(self, st, node)
        if is_sym(v):
            v = v if isinstance(v, SBool) else SBool(to_bool(v))
            d = st.decision(v.e)
            return v if d is None else d
        return bool(v)

    def e_BoolOp(self, st, n):
        # ``a and b`` / ``a or b`` return one of the operands; sub-expressions are evaluated under their guard
        is_and = isinstance(n.op, ast.And)
        vals = []
        guards = []
        pushed = 0
        try:
            for i, x in enumerate(n.values):
                v = self.ev(st, x)
                if i == len(n.values) - 1:
                    vals.append((v, None))
                    break
                t = self.truth(st, v, x)
                if not is_sym(t):
                    if bool(t) != is_and:      # short circuit: result is v
                        vals.append((v, None))
                        break
                    continue                   # operand statically skipped
                vals.append((v, t))
                g = t.e if is_and else z3.Not(t.e)
                st.pc.append(g)
                pushed += 1
        finally:
            for _ in range(pushed):
                st.pc.pop()
        if len(vals) == 1:
            return vals[0][0]
        # build the nested conditional value
        res = vals[-1][0]
        for v, t in reversed(vals[:-1]):
            cond = SBool(z3.Not(t.e)) if is_and else t
            res = self.merge_values(st, cond, v, res, n)
        return res

    def merge_values(self, st, cond, a, b, node):
        """value of ``a if cond else b`` for symbolic cond"""
        from .logic import ite
        a, b = self.load(st, a), self.load(st, b)
        if isinstance(a, Model) or isinstance(b, Model):
            if a is b:
                return a
            raise ForkRequest(cond.e)
        if isinstance(a, tuple) and isinstance(b, tuple) and len(a) == len(b):
            return tuple(self.merge_values(st, cond, x, y, node) for x, y in zip(a, b))
        if a is None or b is None:
            if a is None and b is None:
                return None
            raise NotInSubset('conditional value None / non-None')
        return ite(cond, a, b)

    def e_IfExp(self, st, n):
        c = self.truth(st, self.ev(st, n.test), n)
        if not is_sym(c):
            return self.ev(st, n.body if c else n.orelse)
        if self.c.get('expr_fork') and self.c.get('ifexp_fork'):
            # the arms may have side effects (e.g. a constructor call): decide the condition and re-execute the statement on both forks
            raise ForkRequest(c.e)
        st.pc.append(c.e)
        try:
            a = self.ev(st, n.body)
            a = self.load(st, a)
        finally:
            st.pc.pop()
        st.pc.append(z3.Not(c.e))
        try:
            b = self.ev(st, n.orelse)
            b = self.load(st, b)
        finally:
            st.pc.pop()
        return self.merge_values(st, c, a, b, n)

    def e_Compare(self, st, n):
        left = self.load(st, self.ev(st, n.left))
        res = []
        for op, rn in zip(n.ops, n.comparators):
            right = self.load(st, self.ev(st, rn))
            res.append(self.compare(st, op, left, right, n))
            left = right
        if len(res) == 1:
            return res[0]
        from .logic import And
        return And(*res)

    def compare(self, st, op, a, b, node):
        from .logic import Or, Not
        if isinstance(op, (ast.In, ast.NotIn)):
            if isinstance(b, Model):
                r = b.m_contains(self, st, a, node)
            elif isinstance(b, (list, tuple, set, frozenset, dict, range, str)) and not is_sym(a) and \
                    not any(is_sym(x) for x in (b if not isinstance(b, (dict, str)) else ())):
                r = a in b
            elif isinstance(b, (list, tuple)):
                h = self.c.get('eq_hook')
                r = Or(*[(h(a, x) if h else (a == x)) for x in b])
            else:
                raise NotInSubset('`in` on this container')
            return r if isinstance(op, ast.In) else Not(r)
        if isinstance(op, (ast.Is, ast.IsNot)):
            for p_, q_ in ((a, b), (b, a)):
                if q_ is None and getattr(p_, 'is_none', None) is not None:
                    # an optional index (e.g. a pin that holds a Line or None): None-ness is a symbolic condition
                    return p_.is_none if isinstance(op, ast.Is) else Not(p_.is_none)
            if is_sym(a) or is_sym(b):
                r = False if (a is None or b is None) else None
                if r is None:
                    raise NotInSubset('`is` on symbolic values')
            else:
                r = a is b
            return r if isinstance(op, ast.Is) else (not r)
        if isinstance(a, Model) or isinstance(b, Model):
            m = a if isinstance(a, Model) else b
            return m.m_compare(self, st, type(op), a, b, node)
        f = _CMPOPS.get(type(op))
        if f is None:
            raise NotInSubset('comparison operator')
        if is_sym(b) and not is_sym(a):
            swap = {ast.Lt: operator.gt, ast.LtE: operator.ge, ast.Gt: operator.lt, ast.GtE: operator.le,
                    ast.Eq: operator.eq, ast.NotEq: operator.ne}[type(op)]
            return _tag(swap(b, a), a, b)
        return _tag(f(a, b), a, b)

    def binop(self, st, op, a, b, node):
        a, b = self.load(st, a), self.load(st, b)
        if isinstance(a, Model):
            return a.m_binop(self, st, op, a, b, node)
        if isinstance(b, Model):
            return b.m_binop(self, st, op, a, b, node)
        f = _BINOPS.get(op)
        if f is None:
            raise NotInSubset(f'operator {op.__name__}')
        h = self.c.get('binop_hook')
        if h:
            r = h(self, st, op, a, b, node)
            if r is not NotImplemented:
                return r
        try:
            r = f(a, b)
        except TypeError as e:
            raise NotInSubset(f'operator {op.__name__} on {type(a).__name__}, {type(b).__name__}: {e}')
        if r is NotImplemented:
            raise NotInSubset(f'operator {op.__name__} on {type(a).__name__}, {type(b).__name__}')
        return _tag(r, a, b)

    def e_BinOp(self, st, n):
        return self.binop(st, type(n.op), self.ev(st, n.left), self.ev(st, n.right), n)

    def e_Subscript(self, st, n):
        base = self.ev(st, n.value)
        idx = self.ev(st, n.slice)
        return self.getitem(st, base, idx, n)

    def getitem(self, st, base, idx, node):
        base = self.load(st, base) if (isinstance(base, Model) and base.is_view and not hasattr(base, 'm_getitem_view')) else base
        if isinstance(base, Model):
            return base.m_getitem(self, st, idx, node)
        if is_sym(base):
            raise NotInSubset('subscript of a symbolic scalar')
        if is_sym(idx) or (isinstance(idx, tuple) and any(is_sym(i) for i in idx)):
            h = self.c.get('index_hook')
            if h:
                r = h(self, st, base, idx, node)
                if r is not NotImplemented:
                    return r
            if isinstance(base, (tuple, list)) and isinstance(idx, Sym):
                # symbolic index into a concrete sequence: bounds obligation + ite chain
                i = to_int(idx)
                self.prove(st, 'index-in-bounds:tuple', z3.And(i >= -len(base), i < len(base)), node)
                res = base[-1]
                for k in range(len(base) - 2, -1, -1):
                    res = self.merge_values(st, SBool(z3.Or(i == k, i == k - len(base))), base[k], res, node)
                return res
            raise NotInSubset('symbolic index into a concrete object')
        try:
            return base[idx]
        except (IndexError, KeyError, TypeError) as e:
            raise NotInSubset(f'concrete subscript failed: {e!r}')

    def iter_concrete(self, st, it, node):
        if isinstance(it, Model):
            r = it.m_iter(self, st, node)
            if isinstance(r, SymIter):
                raise NotInSubset('symbolic iterable where a concrete one is needed')
            return list(r)
        if is_sym(it):
            raise NotInSubset('iteration over a symbolic scalar')
        return list(it)

    def e_ListComp(self, st, n):
        h = self.c.get('comp_hook')
        if h:
            # a comprehension over a symbolic collection, modelled by the contract as one value (e.g. ``all(l is None for l in n.ins)``)
            r = h(self, st, n)
            if r is not NotImplemented:
                return r
        if len(n.generators) != 1 or n.generators[0].is_async:
            raise NotInSubset('comprehension shape')
        g = n.generators[0]
        out = []
        saved = dict(st.env)
        for x in self.iter_concrete(st, self.ev(st, g.iter), n):
            self.assign(st, g.target, x, n)
            ok = True
            for c in g.ifs:
                t = self.truth(st, self.ev(st, c), n)
                if is_sym(t):
                    raise NotInSubset('symbolic filter in comprehension')
                ok = ok and t
            if ok:
                out.append(self.ev(st, n.elt))
        # comprehension variables are local to the comprehension
        for k in list(st.env):
            if k not in saved:
                del st.env[k]
            else:
                st.env[k] = saved[k]
        return out

    e_GeneratorExp = e_ListComp

    def e_Call(self, st, n):
        f = self.ev(st, n.func)
        args = []
        for a in n.args:
            if isinstance(a, ast.Starred):
                args.extend(self.iter_concrete(st, self.ev(st, a.value), a))
            else:
                args.append(self.ev(st, a))
        kwargs = {}
        for k in n.keywords:
            if k.arg is None:
                d = self.ev(st, k.value)
                if isinstance(d, dict) and all(isinstance(x, str) for x in d):
                    kwargs.update(d)          # **kwargs with a concrete dict
                    continue
                raise NotInSubset('**kwargs')
            kwargs[k.arg] = self.ev(st, k.value)
        return self.call(st, f, args, kwargs, n)

    def call(self, st, f, args, kwargs, node):
        if isinstance(f, Model):
            return f.m_call(self, st, args, kwargs, node)
        try:
            p = self.prims.get(f)
        except TypeError:
            p = None
        if p is not None:
            return p(self, st, args, kwargs, node)
        b = self.builtin_call(st, f, args, kwargs, node)
        if b is not NotImplemented:
            return b
        import math
        if getattr(f, '__module__', None) == 'math' and not kwargs and all(not is_sym(a) and not isinstance(a, Model) for a in args):
            return f(*args)         # pure function of the math module on concrete numbers
        recv = getattr(f, '__self__', None)
        if isinstance(recv, (dict, str, tuple, frozenset)) and getattr(f, '__name__', '') in _PURE_METHODS and \
                all(not is_sym(a) and not isinstance(a, Model) for a in list(args) + list(kwargs.values())):
            r = f(*args, **kwargs)      # read-only method of a concrete constant (e.g. a module-level table)
            return list(r) if getattr(f, '__name__', '') in ('items', 'keys', 'values') else r
        uf = self.user_function(f)
        if uf is not None:
            return self.inline(st, uf, args, kwargs, node)
        name = getattr(f, '__name__', repr(f))
        raise NotInSubset(f'call of {name} (no contract, not a modelled primitive), line {node.lineno}')

    def find_method(self, selfobj, name):
        """``self.<name>`` where the contract binds no such field: a method of the same class (helper extracted by a refactoring)"""
        mod, qn = getattr(self, 'mod', None), getattr(self, 'qualname', None)
        if not mod or not qn or '.' not in qn:
            return None
        from . import source
        cls = qn.rsplit('.', 1)[0]
        seen = set()
        while cls and cls not in seen:
            seen.add(cls)
            try:
                fd, _ = source.find(mod, cls + '.' + name)
                if isinstance(fd, ast.FunctionDef):
                    return BoundUserFn(UserFn(fd, self.globs, nested=False, label=cls + '.' + name), selfobj)
            except ContractError:
                pass
            # not defined in this class: continue with its first base class if that is defined in the same module
            try:
                cd, _ = source.find(mod, cls)
            except ContractError:
                return None
            bases = [b.id for b in getattr(cd, 'bases', []) if isinstance(b, ast.Name)]
            cls = bases[0] if bases else None
        return None

    def user_function(self, f):
        """a function of the package under verification that has no contract: its current source is inlined at the call site
        (exact, non-recursive).  numba.njit / the pure-Python fallback wrapper are treated as the identity (decorators are dropped)."""
        if isinstance(f, UserFn):
            return f
        import types
        if not isinstance(f, types.FunctionType):
            return None
        if f.__name__ == 'inner' and f.__closure__:
            for cell in f.__closure__:
                try:
                    v = cell.cell_contents
                except ValueError:
                    continue
                if isinstance(v, types.FunctionType):
                    f = v
                    break
        mod = getattr(f, '__module__', '') or ''
        if not (mod == 'kyupy' or mod.startswith('kyupy.')):
            return None
        from . import source
        try:
            _, tree = source.module_ast(mod.split('.', 1)[1] if '.' in mod else '__init__')
        except OSError:
            return None
        for x in tree.body:
            if isinstance(x, ast.FunctionDef) and x.name == f.__name__:
                return UserFn(x, f.__globals__, nested=False)
        return None

    def inline(self, st, uf, args, kwargs, node):
        if self.inline_depth >= 6:
            raise NotInSubset(f'inlining depth exceeded at call of {uf.fdef.name}')
        fd = uf.fdef
        self.inlined.add(uf.label)
        a = fd.args
        if a.kwarg is not None:
            raise NotInSubset(f'inlined call of {fd.name}: **kwargs parameter')
        names = [p.arg for p in a.posonlyargs + a.args]
        # ghost variables of the contract (dunder names) stay visible inside the inlined frame
        env = dict(st.env) if uf.nested else {k: v for k, v in st.env.items() if k.startswith('__')}
        saved_globs = self.globs
        self.globs = uf.globs if uf.globs is not None else self.globs
        self.inline_depth += 1
        try:
            pos = list(args)
            if len(pos) > len(names) and a.vararg is None:
                raise NotInSubset(f'inlined call of {fd.name}: too many positional arguments')
            bound = dict(zip(names, pos))
            if a.vararg is not None:
                bound[a.vararg.arg] = tuple(pos[len(names):])
            kwargs = dict(kwargs)
            for nm in names + [p.arg for p in a.kwonlyargs]:
                if nm in kwargs:
                    if nm in bound:
                        raise NotInSubset(f'inlined call of {fd.name}: argument {nm} given twice')
                    bound[nm] = kwargs.pop(nm)
            if kwargs:
                raise NotInSubset(f'inlined call of {fd.name}: unexpected keyword arguments {sorted(kwargs)}')
            tmp = State()
            ndef = len(a.defaults)
            for i, nm in enumerate(names):
                if nm not in bound:
                    j = i - (len(names) - ndef)
                    if j < 0:
                        raise NotInSubset(f'inlined call of {fd.name}: missing argument {nm}')
                    bound[nm] = self.ev(tmp, a.defaults[j])
            for p_, d_ in zip(a.kwonlyargs, a.kw_defaults):
                if p_.arg not in bound:
                    if d_ is None:
                        raise NotInSubset(f'inlined call of {fd.name}: missing keyword argument {p_.arg}')
                    bound[p_.arg] = self.ev(tmp, d_)
            env.update(bound)
            sub = st.fork()
            sub.env, sub.ctl, sub.ret = env, None, None
            npc = len(st.pc)
            # loops of the inlined function may carry invariants of their own: contract['inline_loops'][label][ordinal]
            ispecs = self.c.get('inline_loops', {}).get(uf.label)
            if ispecs:
                for k_, ln_ in enumerate(loops_in_order(fd)):
                    if k_ in ispecs:
                        self.loop_id[id(ln_)] = (uf.label, k_)
            hook = self.c.get('inline_hooks', {}).get(uf.label)
            if hook:
                hook(self, sub, bound)
            outs = self.run_block([sub], fd.body)
            for q in outs:
                if q.ctl not in (None, 'return'):
                    raise NotInSubset(f'{q.ctl} outside a loop in inlined {fd.name}')
                if q.ctl is None:
                    q.ret = None
                q.ctl = None
            if len(outs) == 1:
                m, ret = outs[0], outs[0].ret
            else:
                for q in outs:
                    q.env = {'__ret__': q.ret}
                m = self.merge_states(npc, outs, node)
                if m is None:
                    raise NotInSubset(f'inlined call of {fd.name}: its paths cannot be merged into one value')
                ret = m.env.get('__ret__')
            st.heap, st.pc, st.tags, st.decided = m.heap, m.pc, m.tags, m.decided
            return ret
        finally:
            self.inline_depth -= 1
            self.globs = saved_globs

    def s_FunctionDef(self, st, s):
        if any(isinstance(x, (ast.Nonlocal, ast.Global, ast.Yield, ast.YieldFrom)) for x in ast.walk(s)):
            raise NotInSubset(f'nested function {s.name} with nonlocal/global/yield (line {s.lineno})')
        st.env[s.name] = UserFn(s, None, nested=True)
        return [st]

    def builtin_call(self, st, f, args, kwargs, node):
        """models of Python builtins on symbolic values (Python semantics: min/max keep the first of equal arguments)"""
        from .logic import ite
        if f is len and len(args) == 1:
            a = args[0]
            if isinstance(a, Model):
                return a.m_len(self, st, node)
            if is_sym(a):
                raise NotInSubset('len of symbolic scalar')
            return len(a)
        if f is int and len(args) <= 1 and not kwargs:
            if not args:
                return 0
            a = self.load(st, args[0])
            if isinstance(a, (SInt, SBV)) or _conc_int(a) is not None:
                return a if is_sym(a) else int(a)
            if isinstance(a, SBool):
                return SInt(to_int(a))
            if isinstance(a, float):
                return int(a)
            raise NotInSubset('int() of this value')
        if f in (min, max) and not kwargs:
            vals = [self.load(st, a) for a in (args if len(args) > 1 else self.iter_concrete(st, args[0], node))]
            if not any(is_sym(v) for v in vals):
                return f(vals)
            r = vals[0]
            for v in vals[1:]:
                c = (v < r) if f is min else (v > r)
                r = self.merge_values(st, c, v, r, node) if is_sym(c) else (v if c else r)
            return r
        if f is range and not kwargs:
            args = [self.load(st, a) for a in args]
            if any(is_sym(a) for a in args):
                if len(args) == 1:
                    lo, hi = 0, args[0]
                elif len(args) == 2:
                    lo, hi = args
                else:
                    raise NotInSubset('symbolic range with step')
                n = hi - lo
                n = self.merge_values(st, n < 0, 0, n, node) if is_sym(n) else max(n, 0)
                return SymIter(n, lambda ex, st_, k: lo + k)
            return range(*args)
        if f is enumerate and len(args) == 1:
            it = args[0]
            if isinstance(it, Model):
                it = it.m_iter(self, st, node)
            if isinstance(it, SymIter):
                return SymIter(it.length, lambda ex, st_, k: (k, it.item(ex, st_, k)))
            return list(enumerate(it))
        if f is zip and not kwargs:
            its = [a.m_iter(self, st, node) if isinstance(a, Model) else a for a in args]
            if any(isinstance(i, SymIter) for i in its):
                if not all(isinstance(i, SymIter) for i in its):
                    raise NotInSubset('zip over symbolic and concrete iterables')
                n = its[0].length
                for i in its[1:]:
                    c = i.length < n
                    n = self.merge_values(st, c, i.length, n, node) if is_sym(c) else (i.length if c else n)
                return SymIter(n, lambda ex, st_, k: tuple(i.item(ex, st_, k) for i in its))
            return list(zip(*its))
        if f is isinstance and len(args) == 2:
            a = args[0]
            if isinstance(a, Model):
                return a.m_isinstance(self, st, args[1], node)
            if is_sym(a):
                if args[1] is str and getattr(a, 'is_str', None) is not None:
                    return a.is_str          # a value that is either a string (tag) or a number / None: symbolic answer
                if args[1] is int or args[1] == (int,):
                    return isinstance(a, (SInt,))
                raise NotInSubset('isinstance on symbolic value')
            return isinstance(a, args[1])
        if f is abs and len(args) == 1:
            a = self.load(st, args[0])
            if is_sym(a):
                return self.merge_values(st, a < 0, -a, a, node)
            return abs(a)
        if f is bool and len(args) == 1:
            return self.truth(st, args[0], node)
        if f in (any, all) and len(args) == 1 and not kwargs:
            from .logic import Or, And
            vals = [self.truth(st, v, node) for v in self.iter_concrete(st, args[0], node)]
            if not vals:
                return f([])
            return (Or if f is any else And)(*vals) if len(vals) > 1 else vals[0]
        if f is list and len(args) == 1:
            return list(self.iter_concrete(st, args[0], node))
        if f is tuple and len(args) == 1:
            return tuple(self.iter_concrete(st, args[0], node))
        return NotImplemented

    # ------------------------------------------------------------------ statements
    def run_block(self, states, stmts):
        for s in stmts:
            nxt = []
            for st in states:
                if st.ctl is not None:
                    nxt.append(st)
                else:
                    nxt.extend(self.stmt(st, s))
            states = nxt
        return states

    def stmt(self, st, s):
        m = getattr(self, 's_' + type(s).__name__, None)
        if m is None:
            raise NotInSubset(f'statement {type(s).__name__} (line {s.lineno})')
        if getattr(s, '_optional', False):
            # alias assignment that precedes the verified part (see verify.generate): skipped when it cannot be evaluated, and never overrides a binding of the contract
            if isinstance(s, ast.Assign) and isinstance(s.targets[0], ast.Name) and s.targets[0].id in st.env:
                return [st]
            nobl_ = len(self.obls)
            try:
                return m(st, s)
            except (NotInSubset, ContractError, KeyError, TypeError, AttributeError):
                del self.obls[nobl_:]
                return [st]
        if not self.c.get('expr_fork') or self.inline_depth > 0:
            # (inside an inlined call a ForkRequest propagates to the statement of the caller, which is re-executed as a whole)
            return m(st, s)
        snap = st.fork()
        nobl = len(self.obls)
        try:
            return m(st, s)
        except ForkRequest as fr:
            del self.obls[nobl:]
            a, b = snap, snap.fork()
            a.decided = a.decided + ((fr.cond, True),)
            a.pc.append(fr.cond)
            b.decided = b.decided + ((fr.cond, False),)
            b.pc.append(z3.Not(fr.cond))
            return self.stmt(a, s) + self.stmt(b, s)

    def assign(self, st, tgt, v, node):
        if isinstance(tgt, ast.Name):
            h = self.c.get('assign_hook')
            if h:
                v = h(self, st, tgt.id, v, node)
            st.env[tgt.id] = v
        elif isinstance(tgt, (ast.Tuple, ast.List)):
            vals = self.iter_concrete(st, v, node) if not isinstance(v, (tuple, list)) else v
            if len(vals) != len(tgt.elts):
                raise NotInSubset('unpacking length mismatch')
            for t, x in zip(tgt.elts, vals):
                self.assign(st, t, x, node)
        elif isinstance(tgt, ast.Subscript):
            base = self.ev(st, tgt.value)
            idx = self.ev(st, tgt.slice)
            self.setitem(st, base, idx, v, node)
        elif isinstance(tgt, ast.Attribute):
            base = self.ev(st, tgt.value)
            if not isinstance(base, Model):
                raise NotInSubset('attribute assignment on a concrete object')
            base.m_setattr(self, st, tgt.attr, v, node)
        else:
            raise NotInSubset('assignment target')

    def setitem(self, st, base, idx, v, node):
        if isinstance(base, Model):
            return base.m_setitem(self, st, idx, v, node)
        raise NotInSubset(f'item assignment on {type(base).__name__}')

    def s_Assign(self, st, s):
        v = self.ev(st, s.value)
        for t in s.targets:
            self.assign(st, t, v, s)
        return [st]

    def s_AnnAssign(self, st, s):
        if s.value is not None:
            self.assign(st, s.target, self.ev(st, s.value), s)
        return [st]

    def s_AugAssign(self, st, s):
        t = s.target
        if isinstance(t, ast.Name):
            cur = self.ev(st, t)
            rhs = self.ev(st, s.value)
            if isinstance(cur, Model) and cur.is_view:
                # numpy in-place operator on a view writes through
                val = self.binop(st, type(s.op), cur, rhs, s)
                cur.m_store(self, st, val, s)
                return [st]
            if isinstance(cur, Model):
                r = cur.m_inplace(self, st, type(s.op), rhs, s)
                if r is not None:
                    st.env[t.id] = r
                return [st]
            if self.c.get('inplace_shapes') and is_sym(cur):
                # numpy in-place operator on an array temporary: the operand must broadcast to the target's shape
                rs, cs = _srcs(self.load(st, rhs)) or frozenset(), _srcs(cur) or frozenset()
                if not rs <= cs:
                    self.prove(st, f'no-exception:in-place operator on `{t.id}` needs the operand to broadcast to its shape',
                               False, s, info={'target_from': sorted(cs), 'operand_from': sorted(rs)})
            st.env[t.id] = self.binop(st, type(s.op), cur, rhs, s)
            return [st]
        if isinstance(t, ast.Subscript):
            base = self.ev(st, t.value)
            idx = self.ev(st, t.slice)
            cur = self.getitem(st, base, idx, s)
            rhs = self.ev(st, s.value)
            val = self.binop(st, type(s.op), cur, rhs, s)
            self.setitem(st, base, idx, val, s)
            return [st]
        if isinstance(t, ast.Attribute):
            base = self.ev(st, t.value)
            if not isinstance(base, Model):
                raise NotInSubset('augmented attribute assignment on a concrete object')
            cur = base.m_getattr(self, st, t.attr, s)
            rhs = self.ev(st, s.value)
            base.m_setattr(self, st, t.attr, self.binop(st, type(s.op), cur, rhs, s), s)
            return [st]
        raise NotInSubset('augmented assignment target')

    def s_Expr(self, st, s):
        if isinstance(s.value, ast.Constant):
            return [st]       # docstring
        self.ev(st, s.value)
        return [st]

    def s_Pass(self, st, s):
        return [st]

    def s_Delete(self, st, s):
        for t in s.targets:
            if not isinstance(t, ast.Subscript):
                raise NotInSubset('del of a non-subscript')
            base = self.ev(st, t.value)
            idx = self.ev(st, t.slice)
            if not isinstance(base, Model):
                raise NotInSubset('del on a concrete object')
            base.m_delitem(self, st, idx, s)
        return [st]

    def s_Assert(self, st, s):
        c = self.truth(st, self.ev(st, s.test), s)
        self.prove(st, 'assert', c, s)
        st.assume(c)
        return [st]

    def fork_on(self, st, c):
        """-> (true_state or None, false_state or None) for a concrete or symbolic condition"""
        if not is_sym(c):
            return (st, None) if c else (None, st)
        a, b = st, st.fork()
        a.pc.append(c.e)
        b.pc.append(z3.Not(c.e))
        return a, b

    def s_If(self, st, s):
        npc = len(st.pc)
        c = self.truth(st, self.ev(st, s.test), s)
        a, b = self.fork_on(st, c)
        out = []
        if a is not None:
            out += self.run_block([a], s.body)
        if b is not None:
            out += self.run_block([b], s.orelse)
        mode = self.c.get('merge_ifs')
        if mode and len(out) > 1 and (mode is True or (mode == 'outside-loops' and not self.in_loop)):
            m = self.merge_states(npc, out, s)
            if m is not None:
                return [m]
        return out

    def merge_states(self, npc, states, node):
        """join the paths of an if-statement into one state (values become conditional expressions); None if not possible"""
        if any(q.ctl is not None for q in states):
            live = [q for q in states if q.ctl is None]
            if len(live) < 2:
                return None
            rest = [q for q in states if q.ctl is not None]
            m = self.merge_states(npc, live, node)
            return None if m is None else None     # mixed control flow: keep the paths forked
        first = states[0]
        for q in states[1:]:
            if q.tags != first.tags or q.decided != first.decided or len(q.pc) < npc or \
                    any(x is not y and not z3.eq(x, y) for x, y in zip(q.pc[:npc], first.pc[:npc])):
                return None
        conds = [z3.And(*q.pc[npc:]) if len(q.pc) > npc else z3.BoolVal(True) for q in states]

        def merge_val(vals):
            if all(v is vals[0] for v in vals):
                return vals[0]
            if all(not is_sym(v) and not isinstance(v, (Model, z3.ExprRef)) for v in vals):
                try:
                    if all(type(v) is type(vals[0]) and v == vals[0] for v in vals):
                        return vals[0]
                except Exception:  # noqa
                    pass
            if all(isinstance(v, tuple) for v in vals) and len({len(v) for v in vals}) == 1:
                return tuple(merge_val([v[i] for v in vals]) for i in range(len(vals[0])))
            if any(v is None for v in vals) and all(v is None or isinstance(v, SInt) or (_conc_int(v) is not None and not isinstance(v, bool)) for v in vals):
                # optional integer (e.g. a helper that returns a primitive code or None): value + symbolic None-ness
                e = z3.IntVal(-1)
                isnone = z3.BoolVal(True)
                for cnd, v in zip(reversed(conds), reversed(vals)):
                    if v is None:
                        isnone = z3.If(cnd, z3.BoolVal(True), isnone)
                    else:
                        e = z3.If(cnd, to_int(v), e)
                        isnone = z3.If(cnd, z3.BoolVal(False), isnone)
                return OptInt(e, isnone)
            r = vals[-1]
            for cnd, v in zip(reversed(conds[:-1]), reversed(vals[:-1])):
                if isinstance(v, Model) or isinstance(r, Model):
                    if v is r:
                        continue
                    if hasattr(v, 'm_merge') and type(v) is type(r):
                        r = v.m_merge(self, SBool(cnd), r)
                        continue
                    raise NotInSubset('unmergeable')
                if isinstance(v, z3.ArrayRef) or isinstance(r, z3.ArrayRef):
                    r = z3.If(cnd, v, r)
                    continue
                if isinstance(v, z3.ExprRef) or isinstance(r, z3.ExprRef):
                    r = z3.If(cnd, v, r)
                    continue
                if v is None or r is None or isinstance(v, (str, list, dict)) or isinstance(r, (str, list, dict)):
                    raise NotInSubset('unmergeable')
                from .logic import ite
                r = ite(SBool(cnd), v, r)
            return r
        m = first.fork()
        m.pc = list(first.pc[:npc]) + [z3.Or(*conds)]
        try:
            env = {}
            for k in first.env:
                if all(k in q.env for q in states):
                    env[k] = merge_val([q.env[k] for q in states])
            heap = {}
            for k in first.heap:
                if all(k in q.heap for q in states):
                    heap[k] = merge_val([q.heap[k] for q in states])
                else:
                    return None
            if any(set(q.heap) != set(first.heap) for q in states):
                return None
        except (NotInSubset, TypeError, z3.Z3Exception):
            return None
        m.env, m.heap = env, heap
        return m

    def s_Return(self, st, s):
        st.ret = self.ev(st, s.value) if s.value is not None else None
        st.ctl = 'return'
        return [st]

    def s_Continue(self, st, s):
        st.ctl = 'continue'
        return [st]

    def s_Break(self, st, s):
        st.ctl = 'break'
        return [st]

    def loop_spec(self, node):
        k = self.loop_id.get(id(node))
        if k is None:
            raise ContractError(f'loop at line {node.lineno} inside an inlined helper iterates over a symbolic range (needs a contract)')
        if isinstance(k, tuple):
            spec = self.c.get('inline_loops', {}).get(k[0], {}).get(k[1])
        else:
            spec = self.c.get('loops', {}).get(k)
        if spec is None:
            raise ContractError(f'loop #{k} (line {node.lineno}) needs an invariant and the contract has none')
        return k, spec

    def s_For(self, st, s):
        it = self.ev(st, s.iter)
        if isinstance(it, Model):
            it = it.m_iter(self, st, s)
        if is_sym(it):
            raise NotInSubset('iteration over a symbolic scalar')
        if isinstance(it, range) and it.step == 1 and self.loop_id.get(id(s)) in self.c.get('loops', {}):
            # a concrete range for which the contract supplies an invariant: cut by the invariant instead of unrolling
            lo = it.start
            it = SymIter(len(it), lambda ex, st_, k, lo=lo: lo + k)
        if not isinstance(it, SymIter):
            # concrete iterable: unroll
            states = [st]
            done = []
            try:
                items = list(it)
            except TypeError as e:
                raise NotInSubset(f'iteration: {e}')
            for x in items:
                for q in states:
                    self.assign(q, s.target, x, s)
                states = self.run_block(states, s.body)
                nxt = []
                for q in states:
                    if q.ctl == 'continue':
                        q.ctl = None
                        nxt.append(q)
                    elif q.ctl == 'break':
                        q.ctl = None
                        done.append(q)
                    elif q.ctl == 'return':
                        done.append(q)
                    else:
                        nxt.append(q)
                states = nxt
            if s.orelse:
                states = self.run_block(states, s.orelse)
            return states + done
        return self.sym_for(st, s, it)

    def havoc(self, st, body, spec, k):
        h = st.fork()
        for v in assigned_names(body):
            old = h.env.get(v)
            kind = spec.get('kinds', {}).get(v)
            if kind == 'keep':
                continue
            nv = self.fresh_like(v, self.load(h, old) if not isinstance(old, Model) or old.is_view else old, kind)
            if nv is None:
                if v in h.env and not isinstance(old, Model):
                    # concrete non-numeric local reassigned in the loop: must be declared
                    if old is None or isinstance(old, (tuple, list, str)):
                        h.env.pop(v)
                        continue
                h.env.pop(v, None)
                continue
            h.env[v] = nv
        # heap: havoc everything the loop may write.  ``modifies`` (heap keys) may be declared by the contract; by default
        # every z3-valued heap entry that is not registered read-only is havocked.  Undeclared writes are detected after
        # the body (check_frame) and make the contract non-binding rather than unsound.
        mod = spec.get('modifies')
        for key, val in list(h.heap.items()):
            if mod is not None:
                if key not in mod:
                    continue
            elif key in self.readonly:
                continue
            if isinstance(val, z3.ArrayRef):
                h.heap[key] = z3.Array(f'hv!{next(self.fresh)}', val.domain(), val.range())
            elif isinstance(val, Sym):
                nv = self.fresh_like('hv', val)
                if nv is not None:
                    h.heap[key] = nv
        hv = spec.get('havoc')
        if hv:
            hv(self, h)
        h_keys = {k: v for k, v in h.heap.items()}
        self._frame_ref = (h_keys, mod)
        return h

    def check_frame(self, ref, o, node):
        h_keys, mod = ref
        for key, val in o.heap.items():
            if key not in h_keys or key in self.c.get('iteration_local', ()):
                continue        # created inside the body (or a ghost the contract re-initialises at the start of every iteration): never visible in the exit state
            old = h_keys.get(key, None)
            if old is val:
                continue
            changed = not (isinstance(val, (z3.ExprRef, Sym)) and isinstance(old, (z3.ExprRef, Sym)) and
                           z3.eq(val.e if isinstance(val, Sym) else val, old.e if isinstance(old, Sym) else old)) \
                if isinstance(val, (z3.ExprRef, Sym)) else (val != old if not isinstance(val, Model) else val is not old)
            if not changed:
                continue
            havocked = (key in mod) if mod is not None else (key not in self.readonly and isinstance(old, (z3.ArrayRef, Sym)))
            if not havocked and isinstance(val, (z3.ExprRef, Sym)):
                raise ContractError(f'loop body (line {node.lineno}) writes heap entry {key!r} that the loop contract does not havoc')

    def sym_for(self, st, s, it):
        k, spec = self.loop_spec(s)
        idx_name = spec.get('index', f'__k{k}')
        n_len = it.length
        st.env[idx_name] = 0
        for nm, g in spec['inv'](self, st):
            if not nm.startswith('~'):
                self.prove(st, f'loop{k}:entry:{nm}', g, s)
        h = self.havoc(st, [s], spec, k)
        fref = self._frame_ref
        kk = self.fv(idx_name, 'int')
        h.env[idx_name] = kk
        h.assume(kk >= 0)
        h.assume(kk <= n_len)
        for nm, g in spec['inv'](self, h):
            h.assume(g)
        # exit state: k == n
        ex_state = h.fork()
        ex_state.assume(kk == n_len)
        # body
        body = h
        body.assume(kk < n_len)
        if 'assume' in spec:
            spec['assume'](self, body)      # definitional axioms / requires instantiated at iteration k (0 <= k < n)
        body.tag(f'loop{k}')
        self.assign(body, s.target, it.item(self, body, kk), s)
        self.in_loop += 1
        try:
            outs = self.run_block([body], s.body)
        finally:
            self.in_loop -= 1
        after = []
        for o in outs:
            if o.ctl in (None, 'continue'):
                self.check_frame(fref, o, s)
                o.ctl = None
                o.env[idx_name] = kk + 1
                for nm, g in spec['inv'](self, o):
                    if not nm.startswith('~'):
                        self.prove(o, f'loop{k}:preserve:{nm}', g, s)
            elif o.ctl == 'break':
                o.ctl = None
                after.append(o)
            else:
                after.append(o)
        if s.orelse:
            after_else = self.run_block([ex_state], s.orelse)
        else:
            after_else = [ex_state]
        return after_else + after

    def unrolled_while(self, st, s, bound):
        """bounded unrolling (used only for refutation search, never for proofs): executions that need more than
        ``bound`` iterations are not explored"""
        states, after = [st], []
        for _ in range(bound + 1):
            nxt = []
            for q in states:
                c = self.truth(q, self.ev(q, s.test), s)
                body, ex_state = self.fork_on(q, c)
                if ex_state is not None:
                    after.append(ex_state)
                if body is not None and _ < bound:
                    self.in_loop += 1
                    try:
                        outs = self.run_block([body], s.body)
                    finally:
                        self.in_loop -= 1
                    for o in outs:
                        if o.ctl in (None, 'continue'):
                            o.ctl = None
                            nxt.append(o)
                        elif o.ctl == 'break':
                            o.ctl = None
                            after.append(o)
                        else:
                            after.append(o)
            states = nxt
            if not states:
                break
        return after

    def s_While(self, st, s):
        ub = self.c.get('unroll', {}).get(self.loop_id.get(id(s)))
        if ub is not None:
            return self.unrolled_while(st, s, ub)
        k, spec = self.loop_spec(s)
        for nm, g in spec['inv'](self, st):
            if not nm.startswith('~'):
                self.prove(st, f'loop{k}:entry:{nm}', g, s)
        h = self.havoc(st, s.body, spec, k)
        fref = self._frame_ref
        for nm, g in spec['inv'](self, h):
            h.assume(g)
        c = self.truth(h, self.ev(h, s.test), s)
        body, ex_state = self.fork_on(h, c)
        after = []
        if body is not None:
            body.tag(f'loop{k}')
            var0 = spec['variant'](self, body) if 'variant' in spec else None
            self.in_loop += 1
            try:
                outs = self.run_block([body], s.body)
            finally:
                self.in_loop -= 1
            for o in outs:
                if o.ctl in (None, 'continue'):
                    self.check_frame(fref, o, s)
                    o.ctl = None
                    for nm, g in spec['inv'](self, o):
                        if not nm.startswith('~'):
                            self.prove(o, f'loop{k}:preserve:{nm}', g, s)
                    if var0 is not None:
                        v1 = spec['variant'](self, o)
                        self.prove(o, f'loop{k}:variant', z3.And(to_int(v1) < to_int(var0), to_int(var0) >= 0), s)
                elif o.ctl == 'break':
                    o.ctl = None
                    after.append(o)
                else:
                    after.append(o)
        if ex_state is not None:
            if s.orelse:
                after = self.run_block([ex_state], s.orelse) + after
            else:
                after = [ex_state] + after
        return after

    # ------------------------------------------------------------------ driver
    def run(self, st):
        self.st0 = st.fork()
        outs = self.run_block([st], self.fn.body)
        for o in outs:
            if o.ctl == 'continue' and self.c.get('loop_body'):
                o.ctl = None         # the verified text is the body of a loop: ``continue`` ends this iteration
            if o.ctl not in (None, 'return'):
                raise NotInSubset(f'{o.ctl} outside loop')
            o.ctl = None
            self.finished.append(o)
            post = self.c.get('post')
            if post:
                for nm, g in post(self, o):
                    if not nm.startswith('~'):
                        self.prove(o, f'post:{nm}', g, self.fn)
        return self.obls
