"""Functional model of small-rank numpy uint8 arrays for the bit-packing code of kyupy.logic (C15).

An array is (shape, elem): ``shape`` a list of extents (python ints or SInt), ``elem(idx)`` maps a list of z3 integer index terms to
an 8-bit vector term.  Every numpy operation used by the verified functions builds a new (shape, elem) pair; nothing is enumerated,
so extents stay symbolic.  ASSUMED numpy contracts (listed in the evidence): np.unpackbits / np.packbits with bitorder='little'
(with and without axis), swapaxes, np.pad(constant 0 at the end of the last axis), basic slicing of the last axis, np.newaxis,
``reshape(flatten(x), shape(x)) == x`` (row-major; the only reshape accepted is the one that restores the shape that was flattened),
view(uint8) on a uint8 array is the identity.
"""
import z3

from .engine import Model, NotInSubset
from .values import SInt, SBool, to_int, is_sym, _conc_int

BV8 = z3.BitVecSort(8)


def zi(v):
    return z3.IntVal(v) if isinstance(v, int) else to_int(v)


def bit(x, b):
    """bit b (z3 Int term or python int) of the 8-bit term x, as an 8-bit 0/1 value; 0 for b outside 0..7"""
    if isinstance(b, int):
        return z3.ZeroExt(7, z3.Extract(b, b, x)) if 0 <= b < 8 else z3.BitVecVal(0, 8)
    r = z3.BitVecVal(0, 8)
    for k in range(7, -1, -1):
        r = z3.If(b == k, z3.ZeroExt(7, z3.Extract(k, k, x)), r)
    return r


def pack8(bits):
    """bits: list of 8 Bool terms (bit 0 first) -> 8-bit term"""
    r = z3.BitVecVal(0, 8)
    for k, c in enumerate(bits):
        r = r | z3.If(c, z3.BitVecVal(1 << k, 8), z3.BitVecVal(0, 8))
    return r


class Method(Model):
    def __init__(self, fn):
        self.fn = fn

    def m_call(self, ex, st, args, kwargs, node):
        return self.fn(ex, st, args, kwargs, node)


def norm_axis(ax, nd):
    ax = _conc_int(ax)
    if ax is None or not -nd <= ax < nd:
        raise NotInSubset('axis')
    return ax % nd


class FArr(Model):
    def __init__(self, shape, elem):
        self.shape_, self.elem = list(shape), elem

    @property
    def nd(self):
        return len(self.shape_)

    def m_getattr(self, ex, st, name, node):
        import numpy as np
        if name == 'ndim':
            return self.nd
        if name == 'shape':
            return tuple(self.shape_)
        if name == 'itemsize':
            return 1
        if name == 'dtype':
            return np.dtype(np.uint8)
        if name == 'flags':
            return Flags()
        if name == 'view':
            def view(ex_, st_, args, kwargs, node_):
                if len(args) != 1 or np.dtype(args[0]) != np.dtype(np.uint8):
                    raise NotInSubset('view with a dtype other than uint8')
                return self
            return Method(view)
        if name == 'swapaxes':
            def swapaxes(ex_, st_, args, kwargs, node_):
                a, b = norm_axis(args[0], self.nd), norm_axis(args[1], self.nd)
                shape = list(self.shape_)
                shape[a], shape[b] = shape[b], shape[a]

                def elem(idx, a=a, b=b):
                    idx = list(idx)
                    idx[a], idx[b] = idx[b], idx[a]
                    return self.elem(idx)
                return FArr(shape, elem)
            return Method(swapaxes)
        if name == 'reshape':
            def reshape(ex_, st_, args, kwargs, node_):
                dims = list(args[0]) if len(args) == 1 and isinstance(args[0], (tuple, list)) else list(args)
                return reshape_to(ex_, st_, self, self, dims, node_)
            return Method(reshape)
        raise NotInSubset(f'ndarray.{name}')

    def m_len(self, ex, st, node):
        return self.shape_[0]

    def m_getitem(self, ex, st, idx, node):
        if not isinstance(idx, tuple):
            idx = (idx,)
        if len(idx) >= 1 and idx[0] is Ellipsis and all(i is not Ellipsis for i in idx[1:]):
            rest = idx[1:]
            if len(rest) == 1 and rest[0] is None:
                return FArr(self.shape_ + [1], lambda ix: self.elem(ix[:-1]))
            if len(rest) == 1 and isinstance(rest[0], slice):
                s = rest[0]
                stop = _conc_int(s.stop) if s.stop is not None else None
                if s.start is not None or s.step is not None or stop is None or stop < 0:
                    raise NotInSubset('slice of the last axis other than [:k]')
                last = self.shape_[-1]
                new_last = min(last, stop) if isinstance(last, int) else SInt(z3.If(to_int(last) < stop, to_int(last), stop))
                return FArr(self.shape_[:-1] + [new_last], self.elem)
            if len(rest) == 2 and _conc_int(rest[0]) is not None and rest[1] == slice(None, None, None) and self.nd >= 2:
                k = _conc_int(rest[0])
                ext = self.shape_[-2]
                ex.prove(st, 'no-exception:IndexError index into the second-to-last axis', zi(ext) > (k if k >= 0 else -k - 1), node)
                kk = z3.IntVal(k) if k >= 0 else zi(ext) + k
                return FArr(self.shape_[:-2] + [self.shape_[-1]], lambda ix: self.elem(list(ix[:-1]) + [kk, ix[-1]]))
        raise NotInSubset(f'ndarray index {idx!r}')


class Flags(Model):
    """memory layout flags of an array: unknown to the model (either answer is possible)"""

    def m_getattr(self, ex, st, name, node):
        return ex.fv('flag_' + name, 'bool')


class FlatArr(Model):
    """row-major flattening of ``inner`` (only a reshape back to inner's shape is accepted)"""

    def __init__(self, inner):
        self.inner = inner

    def m_getattr(self, ex, st, name, node):
        import numpy as np
        if name == 'view':
            def view(ex_, st_, args, kwargs, node_):
                if len(args) != 1 or np.dtype(args[0]) != np.dtype(np.uint8):
                    raise NotInSubset('view with a dtype other than uint8')
                return self
            return Method(view)
        if name == 'reshape':
            def reshape(ex_, st_, args, kwargs, node_):
                dims = list(args[0]) if len(args) == 1 and isinstance(args[0], (tuple, list)) else list(args)
                return reshape_to(ex_, st_, self, self.inner, dims, node_)
            return Method(reshape)
        raise NotInSubset(f'flattened ndarray.{name}')


def reshape_to(ex, st, arr, inner, dims, node):
    if len(dims) != inner.nd:
        raise NotInSubset('reshape to a different rank than the array that was flattened')
    for d, s in zip(dims, inner.shape_):
        if isinstance(d, int) and isinstance(s, int):
            if d != s:
                raise NotInSubset('reshape to a different shape than the array that was flattened')
        else:
            ex.prove(st, 'reshape restores the shape of the flattened array (the only reshape modelled)', zi(d) == zi(s), node)
    return inner


def np_prims(np):
    def unpackbits(ex, st, args, kwargs, node):
        a = args[0]
        if kwargs.get('bitorder') != 'little' or len(args) > 2:
            raise NotInSubset("np.unpackbits without bitorder='little'")
        axis = kwargs.get('axis', args[1] if len(args) > 1 else None)
        count = kwargs.get('count')
        if count is not None and (_conc_int(count) is None or count < 0 or axis is None):
            raise NotInSubset('np.unpackbits count')
        ex.assumed.add("np.unpackbits(bitorder='little'): bit b of element e at position 8*pos(e)+b along the axis (flattened without axis); count = length kept along the axis")
        if isinstance(a, FlatArr):
            a = a.inner
            flat = True
        else:
            flat = False
        if not isinstance(a, FArr):
            raise NotInSubset('np.unpackbits of a non-array')
        if axis is None:
            return FlatArr(FArr(a.shape_ + [8], lambda ix: bit(a.elem(ix[:-1]), ix[-1])))
        if flat or norm_axis(axis, a.nd) != a.nd - 1:
            raise NotInSubset('np.unpackbits along an axis other than the last')
        last = a.shape_[-1]
        new_last = 8 * last if isinstance(last, int) else SInt(8 * to_int(last))
        if count is not None:
            new_last = min(new_last, count) if isinstance(new_last, int) else SInt(z3.If(to_int(new_last) < count, to_int(new_last), count))
        return FArr(a.shape_[:-1] + [new_last], lambda ix: bit(a.elem(list(ix[:-1]) + [ix[-1] / 8]), ix[-1] % 8))

    def packbits(ex, st, args, kwargs, node):
        a = args[0]
        if kwargs.get('bitorder') != 'little' or len(args) > 2 or not isinstance(a, FArr):
            raise NotInSubset("np.packbits without bitorder='little' / of a non-array")
        axis = kwargs.get('axis', args[1] if len(args) > 1 else None)
        ex.assumed.add("np.packbits(bitorder='little'): bit b of output j = (input[8j+b] != 0), zero padded; flattened without axis")
        if axis is None:
            if a.shape_[-1] != 8:
                raise NotInSubset('np.packbits without axis on an array whose last extent is not the constant 8')
            return FlatArr(FArr(a.shape_[:-1], lambda ix: pack8([a.elem(list(ix) + [z3.IntVal(b)]) != 0 for b in range(8)])))
        ax = norm_axis(axis, a.nd)
        d = a.shape_[ax]
        nd_ = (d + 7) // 8 if isinstance(d, int) else SInt((to_int(d) + 7) / 8)

        def elem(ix, ax=ax):
            bits = []
            for b in range(8):
                src = list(ix)
                src[ax] = 8 * ix[ax] + b
                bits.append(z3.And(src[ax] < zi(d), a.elem(src) != 0))
            return pack8(bits)
        shape = list(a.shape_)
        shape[ax] = nd_
        return FArr(shape, elem)

    def pad(ex, st, args, kwargs, node):
        a, p = args[0], args[1]
        mode = args[2] if len(args) > 2 else kwargs.get('mode', 'constant')
        if not isinstance(a, FArr) or mode != 'constant' or _conc_int(kwargs.get('constant_values', 0)) != 0:
            raise NotInSubset('np.pad other than constant 0')
        p = [tuple(x) for x in p]
        if len(p) != a.nd or any(x != (0, 0) for x in p[:-1]) or p[-1][0] != 0 or _conc_int(p[-1][1]) is None or p[-1][1] < 0:
            raise NotInSubset('np.pad other than at the end of the last axis')
        last = a.shape_[-1]
        ex.assumed.add('np.pad(constant 0 at the end of the last axis)')
        new_last = last + p[-1][1] if isinstance(last, int) else SInt(to_int(last) + p[-1][1])
        return FArr(a.shape_[:-1] + [new_last], lambda ix: z3.If(ix[-1] < zi(last), a.elem(ix), z3.BitVecVal(0, 8)))

    def dtype(ex, st, args, kwargs, node):
        if any(is_sym(x) or isinstance(x, Model) for x in args) or kwargs:
            raise NotInSubset('np.dtype of a symbolic value')
        return np.dtype(*args)
    def swapaxes(ex, st, args, kwargs, node):
        if len(args) != 3 or not isinstance(args[0], FArr) or kwargs:
            raise NotInSubset('np.swapaxes arguments')
        return args[0].m_getattr(ex, st, 'swapaxes', node).m_call(ex, st, args[1:], {}, node)
    return {np.unpackbits: unpackbits, np.packbits: packbits, np.pad: pad, np.dtype: dtype, np.swapaxes: swapaxes}
