"""Term-collection instantiation of universally quantified hypotheses (array-property-fragment style), run inside
the discharge workers.  Goals ``forall i. P(i)`` are skolemised; hypotheses ``forall i. H(.. a[base + i] ..)`` are
instantiated with ``i := t - base`` for every index term ``t`` that occurs in a select/store of the
quantifier-free part (two rounds), and hypotheses whose body contains ``f(v0, .., vn)`` (all bound variables as
direct arguments of an uninterpreted function) at every occurring application of ``f``.  The quantified
hypotheses are kept as well (z3 may still use them); the instances only make the proof independent of MBQI luck."""
import z3


def flatten_and(es):
    out = []
    for e in es:
        if z3.is_and(e):
            out += flatten_and(e.children())
        else:
            out.append(e)
    return out


def _walk(e, seen, f):
    stack = [e]
    while stack:
        x = stack.pop()
        if x.get_id() in seen:
            continue
        seen.add(x.get_id())
        f(x)
        if z3.is_quantifier(x):
            stack.append(x.body())
        else:
            stack.extend(x.children())


class _HasVar:
    def __init__(self):
        self.memo = {}

    def __call__(self, e):
        k = e.get_id()
        r = self.memo.get(k)
        if r is not None:
            return r
        if z3.is_var(e) or z3.is_quantifier(e):
            r = True
        else:
            r = any(self(c) for c in e.children())
        self.memo[k] = r
        return r


def collect(es, has_var):
    idx, apps = {}, {}

    def f(x):
        if z3.is_app(x) and not has_var(x):
            k = x.decl().kind()
            if k in (z3.Z3_OP_SELECT, z3.Z3_OP_STORE):
                idx[x.arg(1).get_id()] = x.arg(1)
            elif k == z3.Z3_OP_UNINTERPRETED and x.num_args() > 0:
                apps.setdefault(x.decl().name(), {})[x.get_id()] = x
    seen = set()
    for e in es:
        _walk(e, seen, f)
    return list(idx.values()), apps


def patterns(q, has_var):
    pats = []

    def f(x):
        if z3.is_app(x):
            k = x.decl().kind()
            if k == z3.Z3_OP_SELECT and has_var(x.arg(1)) and x.arg(1).sort() == z3.IntSort():
                pats.append(('sel', x.arg(1)))
            elif k == z3.Z3_OP_UNINTERPRETED and x.num_args() >= q.num_vars() and \
                    sum(1 for a in x.children() if z3.is_var(a)) == q.num_vars() and \
                    len({z3.get_var_index(a) for a in x.children() if z3.is_var(a)}) == q.num_vars() and \
                    all(z3.is_var(a) or not has_var(a) for a in x.children()):
                pats.append(('app', x))
    _walk(q.body(), set(), f)
    return pats


def instantiate(hyps, goal, rounds=2, limit=4000):
    has_var = _HasVar()
    hyps = flatten_and(hyps)
    goals = flatten_and([goal])
    g2 = []
    for g in goals:
        if z3.is_quantifier(g) and g.is_forall():
            sk = [z3.FreshConst(g.var_sort(i), 'sk') for i in range(g.num_vars())]
            g2.append(z3.substitute_vars(g.body(), *reversed(sk)))
        else:
            g2.append(g)
    goal = z3.And(*g2) if len(g2) > 1 else g2[0]
    qs = [h for h in hyps if z3.is_quantifier(h) and h.is_forall()]
    qf = [h for h in hyps if not (z3.is_quantifier(h) and h.is_forall())]
    if not qs:
        return hyps, goal
    inst = {}
    for _ in range(rounds):
        idx, apps = collect(qf + [goal] + list(inst.values()), has_var)
        for q in qs:
            for p in patterns(q, has_var):
                if len(inst) > limit:
                    break
                if p[0] == 'sel' and q.num_vars() == 1:
                    rest = z3.substitute_vars(p[1], z3.IntVal(0))
                    one = z3.simplify(z3.substitute_vars(p[1], z3.IntVal(1)) - rest)
                    if not z3.is_int_value(one) or one.as_long() not in (1, -1):
                        continue
                    sgn = one.as_long()
                    for t in idx:
                        v = z3.simplify((t - rest) * sgn)
                        e = z3.substitute_vars(q.body(), v)
                        inst[e.get_id()] = e
                elif p[0] == 'app':
                    for a in apps.get(p[1].decl().name(), {}).values():
                        order = [None] * q.num_vars()
                        ok = True
                        for pos, var in enumerate(p[1].children()):
                            if z3.is_var(var):
                                order[q.num_vars() - 1 - z3.get_var_index(var)] = a.arg(pos)
                            elif not z3.eq(var, a.arg(pos)):
                                # constant argument of the pattern must match syntactically (else still sound to skip)
                                ok = False
                        if ok and all(o is not None for o in order):
                            e = z3.substitute_vars(q.body(), *reversed(order))
                            inst[e.get_id()] = e
    return qf + list(inst.values()) + qs, goal
