"""Extended-real model of wave_sim's float32 time stamps (DESIGN.md 3.3).

TMIN = -inf, TMAX = +inf, TMAX_OVL = a second, larger +inf.  ``t + d`` absorbs at the sentinels and is exact in between;
``t - TMIN`` is larger than any delay (HUGE).  ASSUMPTION A-float: finite float arithmetic is exact (no rounding), finite
times plus delays stay below the sentinel (a ``requires`` of the contracts), no NaN/inf inputs."""
import z3

from .values import SReal, SBool, SInt, to_real, is_sym
from .engine import Model, NotInSubset

TMIN_E, TMAX_E, TMAX_OVL_E, HUGE = z3.Real('TMIN'), z3.Real('TMAX'), z3.Real('TMAX_OVL'), z3.Real('HUGE')
BACKGROUND = [TMIN_E < 0, TMAX_E > 0, TMAX_E < TMAX_OVL_E, HUGE > TMAX_E]


class STime(SReal):
    __slots__ = ()
    kind = 'time'
    kindname = 'time'

    def __add__(self, o):
        t, d = self.e, to_real(o)
        return STime(z3.If(t <= TMIN_E, TMIN_E, z3.If(t >= TMAX_E, t, t + d)))
    __radd__ = __add__

    def __sub__(self, o):
        if isinstance(o, STime):
            a, b = self.e, o.e
            return SReal(z3.If(b <= TMIN_E, z3.If(a <= TMIN_E, z3.RealVal(0), HUGE), a - b))
        return STime(self.e - to_real(o))

    def __rsub__(self, o):
        raise NotInSubset('number - time')


TMIN, TMAX, TMAX_OVL = STime(TMIN_E), STime(TMAX_E), STime(TMAX_OVL_E)


def const_hook(np, wave_globals):
    """maps the real module constants TMIN/TMAX/TMAX_OVL (np.float32 sentinels) to the symbolic sentinels"""
    vals = {}
    for nm, sym in (('TMIN', TMIN), ('TMAX', TMAX), ('TMAX_OVL', TMAX_OVL)):
        vals[nm] = (wave_globals[nm], sym)

    def hook(name, v):
        if name in vals and isinstance(v, np.floating) and v == vals[name][0]:
            return vals[name][1]
        return v
    return hook


class TimeMem(Model):
    """cbuf / c : float32 array (c_len, sims).  One lane only: every access must use the own lane index in the second axis
    (obligation 'lane'), so that heap[name] : Array Int -> Real is the column of that lane."""

    def __init__(self, name, lane_key='sim', reads=None, writes=None):
        self.name, self.lane_key, self.reads, self.writes = name, lane_key, reads, writes

    @classmethod
    def new(cls, ex, st, name, **kw):
        st.heap[name] = z3.Array(f'{name}!{next(ex.fresh)}', z3.IntSort(), z3.RealSort())
        return cls(name, **kw)

    def _idx(self, ex, st, idx, node):
        if not (isinstance(idx, tuple) and len(idx) == 2):
            raise NotInSubset('waveform memory must be indexed [location, lane]')
        i, j = idx
        lane = st.env.get(self.lane_key)
        same = (j is lane) or (is_sym(j) and is_sym(lane) and z3.eq(j.e, lane.e))
        ex.prove(st, f'lane:{self.name} accessed only in the own lane', True if same else (j == lane), node)
        return i

    def m_getitem(self, ex, st, idx, node):
        from .values import to_int
        i = self._idx(ex, st, idx, node)
        if self.reads:
            ex.prove(st, f'index-in-bounds:{self.name} read inside an operand/own region', self.reads(ex, st, i), node)
        return STime(z3.Select(st.heap[self.name], to_int(i)))

    def m_setitem(self, ex, st, idx, val, node):
        from .values import to_int
        i = self._idx(ex, st, idx, node)
        if self.writes:
            ex.prove(st, f'frame:{self.name} written only inside the own output region', self.writes(ex, st, i), node)
        st.heap[self.name] = z3.Store(st.heap[self.name], to_int(i), to_real(ex.load(st, val)))
