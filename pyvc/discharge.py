"""Discharge of proof obligations: each obligation is serialised to SMT-LIB and solved in a process pool.

Verdict per obligation: 'proved' (unsat), 'refuted' (sat), 'undecided' (unknown / timeout / error).
Back ends: z3 (python binding, z3-solver wheel), then for unknowns the /usr/bin/z3 and /usr/bin/cvc5 CLIs.
"""
import multiprocessing as mp
import os
import subprocess
import tempfile
import time

import z3

NPROC = int(os.environ.get('VERIF_NPROC', '16'))


def to_smt(hyps, goal):
    s = z3.Solver()
    for h in hyps:
        s.add(h)
    s.add(z3.Not(goal))
    return s.to_smt2()


def _cli(smt, timeout_s):
    """portfolio of the CLI solvers on an smt2 text (run concurrently, first decisive answer wins);
    -> ('unsat'|'sat'|'unknown', backend)"""
    with tempfile.NamedTemporaryFile('w', suffix='.smt2', delete=False) as f:
        f.write('(set-logic ALL)\n' + smt.replace('(check-sat)', '') + '\n(check-sat)\n')
        path = f.name
    procs = []
    try:
        for backend, cmd in (('cvc5-cli', ['/usr/bin/cvc5', f'--tlimit={int(timeout_s * 1000)}', '--strings-exp', path]),
                             ('z3-4.8-cli', ['/usr/bin/z3', f'-T:{max(1, int(timeout_s))}', path])):
            try:
                procs.append((backend, subprocess.Popen(cmd, stdout=subprocess.PIPE, stderr=subprocess.DEVNULL, text=True)))
            except OSError:
                pass
        deadline = time.time() + timeout_s + 5
        pending = list(procs)
        while pending and time.time() < deadline:
            for item in list(pending):
                backend, p = item
                if p.poll() is not None:
                    pending.remove(item)
                    out = (p.stdout.read() or '').strip().split('\n')[0]
                    if out in ('unsat', 'sat'):
                        return out, backend
            time.sleep(0.05)
        return 'unknown', None
    finally:
        for _, p in procs:
            if p.poll() is None:
                p.kill()
            try:
                p.stdout.close()
            except Exception:  # noqa
                pass
        os.unlink(path)


def _has_quantifier(e, _memo=None):
    memo = {} if _memo is None else _memo
    k = e.get_id()
    if k in memo:
        return memo[k]
    r = z3.is_quantifier(e) or any(_has_quantifier(c, memo) for c in e.children())
    memo[k] = r
    return r


def _work(job):
    smt, timeout_ms, instantiate, fallback, mustfail = job
    t0 = time.time()
    try:
        asserts = list(z3.parse_smt2_string(smt))
        hyps, neg = asserts[:-1], asserts[-1]
        goal = neg.arg(0)
        backend = 'z3'
        if instantiate == 'fallback':
            # stage 1: z3's own quantifier handling with a short budget; stage 2: term-collection instantiation
            s = z3.Solver()
            s.set('timeout', min(timeout_ms, 3000))
            s.set('random_seed', 7)
            for h in hyps:
                s.add(h)
            s.add(neg)
            r = str(s.check())
            if r != 'unknown':
                return r, time.time() - t0, backend, ''
            backend = 'z3+inst'
        if instantiate:
            from .inst import instantiate as inst
            hyps2, goal2 = inst(hyps, goal)
            if mustfail:
                # vacuity guard obligations must come back sat: keep the instances, drop the quantified originals (fewer
                # hypotheses can only make `sat` easier, never turn a consistent context into an inconsistent one)
                hyps2 = [h for h in hyps2 if not _has_quantifier(h)]
        else:
            hyps2, goal2 = hyps, goal
        s = z3.Solver()
        s.set('timeout', min(timeout_ms, 10000) if fallback else timeout_ms)
        s.set('random_seed', 7)
        for h in hyps2:
            s.add(h)
        s.add(z3.Not(goal2))
        r = str(s.check())
        reason = s.reason_unknown() if r == 'unknown' else ''
        if r == 'unknown' and fallback:
            s2 = z3.Solver()
            for h in hyps2:
                s2.add(h)
            s2.add(z3.Not(goal2))
            r2, b2 = _cli(s2.to_smt2(), timeout_ms / 1000.0)
            if r2 != 'unknown':
                r, backend = r2, b2
            elif instantiate == 'fallback':
                # last resort: the original (uninstantiated) query once more with the full budget -- the 3 s first stage is
                # short when all cores are busy -- in process and on the CLI portfolio
                s3 = z3.Solver()
                s3.set('timeout', timeout_ms)
                s3.set('random_seed', 11)
                for h in hyps:
                    s3.add(h)
                s3.add(neg)
                r3 = str(s3.check())
                if r3 != 'unknown':
                    r, backend = r3, 'z3'
                else:
                    r4, b4 = _cli(smt, timeout_ms / 1000.0)
                    if r4 != 'unknown':
                        r, backend = r4, b4
        return r, time.time() - t0, backend, reason
    except Exception as e:  # noqa
        return 'error', time.time() - t0, 'z3', repr(e)


class Verdict:
    __slots__ = ('obl', 'status', 'time', 'backend', 'reason')

    def __init__(self, obl, status, t, backend, reason):
        self.obl, self.status, self.time, self.backend, self.reason = obl, status, t, backend, reason


_STATUS = {'unsat': 'proved', 'sat': 'refuted', 'unknown': 'undecided', 'error': 'undecided'}


def discharge(obls, timeout_s=20, instantiate=False, fallback=True, procs=None):
    jobs = [(to_smt(o.hyps, o.goal), int(timeout_s * 1000), instantiate, fallback and o.expect == 'proved', o.expect == 'refuted') for o in obls]
    procs = procs or NPROC
    if not jobs:
        return []
    if len(jobs) < 4 or procs == 1:
        out = [_work(j) for j in jobs]
    else:
        ctx = mp.get_context('fork')
        with ctx.Pool(min(procs, len(jobs))) as p:
            out = p.map(_work, jobs, chunksize=max(1, min(8, len(jobs) // (procs * 4) or 1)))
    return [Verdict(o, _STATUS[r], t, b, reason) for o, (r, t, b, reason) in zip(obls, out)]


def model_of(obl, timeout_s=30, instantiate=False, extra=None):
    """re-solve a refuted obligation in-process and return the z3 model (or None); ``extra``: additional constraints that ask for a
    small counterexample (the caller falls back to the unconstrained query)"""
    hyps, goal = list(obl.hyps) + list(extra or []), obl.goal
    if instantiate:
        from .inst import instantiate as inst
        hyps, goal = inst(hyps, goal)
    s = z3.Solver()
    s.set('timeout', int(timeout_s * 1000))
    s.set('random_seed', 7)
    for h in hyps:
        s.add(h)
    s.add(z3.Not(goal))
    if s.check() == z3.sat:
        return s.model()
    return None


# ------------------------------------------------------------------------------------------------------------------
# bounded refutation of an *undecided* obligation: quantifiers are expanded over a small finite integer domain, which
# makes the negated obligation a quantifier-free query.  A model found this way is only a *candidate* (the hypotheses
# are not enforced outside the domain): it counts for nothing unless its concretisation replays on the real code.
def _finite(e, dom, memo):
    k = e.get_id()
    if k in memo:
        return memo[k]
    if z3.is_quantifier(e):
        if e.is_lambda():
            r = e
        else:
            import itertools
            n = e.num_vars()
            if any(e.var_sort(i) != z3.IntSort() for i in range(n)) or len(dom) ** n > 4000:
                r = z3.BoolVal(True) if e.is_forall() else z3.BoolVal(False)      # drop (weaker hypothesis / unprovable goal part)
            else:
                parts = []
                for vals in itertools.product(dom, repeat=n):
                    inst = z3.substitute_vars(e.body(), *[z3.IntVal(v) for v in reversed(vals)])
                    parts.append(_finite(inst, dom, memo))
                r = z3.And(*parts) if e.is_forall() else z3.Or(*parts)
    elif z3.is_app(e) and e.num_args() > 0:
        ch = [_finite(c, dom, memo) for c in e.children()]
        r = e.decl()(*ch) if any(a.get_id() != b.get_id() for a, b in zip(ch, e.children())) else e
    else:
        r = e
    memo[k] = r
    return r


def bounded_refute(obl, lo, hi, extra=(), timeout_s=30):
    """-> z3 model of (hyps and not goal) with all integer quantifiers expanded over [lo, hi], or None"""
    dom = list(range(lo, hi + 1))
    memo = {}
    s = z3.Solver()
    s.set('timeout', int(timeout_s * 1000))
    for h in obl.hyps:
        s.add(_finite(h, dom, memo))
    s.add(_finite(z3.Not(obl.goal), dom, memo))
    for x in extra:
        s.add(x)
    if s.check() == z3.sat:
        return s.model()
    return None
