"""Target/configuration plumbing: bind contracts to the real functions, generate VCs, discharge, summarise."""
import time
import traceback

from .engine import Exec, NotInSubset, ContractError, Obligation
from . import source
from .discharge import discharge, model_of


class Config:
    """one symbolic run of a function: ``setup(ex) -> State`` builds the pre-state (parameters, memories, requires);
    ``contract`` holds post / loops / hooks; ``replay(model, obl, ex) -> dict`` concretises a counter-model and runs the
    real function (returns {'reproduced': bool, ...})."""

    def __init__(self, name, contract, setup, replay=None, finite=None):
        """finite: optional callable(ex) -> (lo, hi, extra constraints) enabling bounded refutation of undecided obligations"""
        self.name, self.contract, self.setup, self.replay, self.finite = name, contract, setup, replay, finite
        self.bmc = None          # optional: callable -> Config for bounded refutation by loop unrolling
        self.bmc_domain = (-1, 8)
        self.small = None        # optional: callable(ex) -> extra constraints asking for a small counter-model (replay size)


class Target:
    def __init__(self, mod, qualname, configs, prims=None, kinds=None, instantiate=False, tier='P', note='', body_slice=None, label=None):
        """body_slice: optional callable(list of statements) -> (start, stop): only this statement range of the function body is
        executed (a *phase* of a long function, delimited by the statements that start/end it, never by line numbers)"""
        self.body_slice, self.label = body_slice, label
        self.mod, self.qualname, self.configs = mod, qualname, configs
        self.prims, self.kinds, self.instantiate, self.tier, self.note = prims, kinds, instantiate, tier, note

    @property
    def fullname(self):
        base = f'kyupy.{self.mod}.{self.qualname}' if self.mod != '__init__' else f'kyupy.{self.qualname}'
        return base + (f'[{self.label}]' if self.label else '')


class Lemmas:
    """obligations over spec functions / constants only (no code): ``build()`` yields (name, hyps, goal[, expect])"""
    mod = None
    instantiate = False
    tier = 'P-lemma'

    def __init__(self, name, build, note='', instantiate=False):
        self.fullname, self.build, self.note, self.instantiate = name, build, note, instantiate
        self.configs = [Config('lemma', {}, None)]


class Undecided:
    def __init__(self, target, config, reason):
        self.target, self.config, self.reason = target, config, reason


class Report:
    def __init__(self):
        self.verdicts = []          # (target, config, Verdict)
        self.undecided = []         # Undecided
        self.functions = {}         # fullname -> dict(sha256, tier, obligations, discharged)
        self.assumed = set()
        self.gen_time = 0.0
        self.solve_wall = 0.0
        self.execs = {}             # (target.fullname, config.name) -> Exec

    @property
    def obligations(self):
        return len([v for _, _, v in self.verdicts if v.obl.expect == 'proved'])

    @property
    def discharged(self):
        return len([v for _, _, v in self.verdicts if v.obl.expect == 'proved' and v.status == 'proved'])

    def refuted(self):
        return [(t, c, v) for t, c, v in self.verdicts if v.obl.expect == 'proved' and v.status == 'refuted']

    def open(self):
        return [(t, c, v) for t, c, v in self.verdicts if v.obl.expect == 'proved' and v.status == 'undecided']

    def mustfail_broken(self):
        """vacuity guard: a must-fail clause has to be refuted on at least one path of its configuration (paths on which it
        is legitimately true -- early returns, infeasible paths -- do not count against it); otherwise the engine or the
        hypotheses are broken"""
        groups = {}
        for t, c, v in self.verdicts:
            if v.obl.expect == 'refuted':
                groups.setdefault((t.fullname, c.name, v.obl.name), []).append((t, c, v))
        return [items[0] for items in groups.values() if not any(v.status == 'refuted' for _, _, v in items)]

    def solver_time(self):
        return sum(v.time for _, _, v in self.verdicts)

    def by_backend(self):
        d = {}
        for _, _, v in self.verdicts:
            if v.status == 'proved' and v.obl.expect == 'proved':
                d[v.backend] = d.get(v.backend, 0) + 1
        return d


def generate(targets, report):
    jobs = []
    t0 = time.time()
    for t in targets:
        if isinstance(t, Lemmas):
            report.functions[t.fullname] = {'sha256': None, 'tier': t.tier, 'obligations': 0, 'discharged': 0,
                                            'configs': 1, 'note': t.note}
            try:
                for item in t.build():
                    name, hyps, goal = item[:3]
                    from .values import to_bool
                    o = Obligation(t.fullname, name, [to_bool(h) for h in hyps], to_bool(goal), 0,
                                   expect=item[3] if len(item) > 3 else 'proved')
                    jobs.append((t, t.configs[0], o))
            except Exception as e:  # noqa
                report.undecided.append(Undecided(t, None, 'CHECKER-CRASH ' + repr(e)))
            continue
        try:
            fn, sha = source.find(t.mod, t.qualname)
            globs = source.module_namespace(t.mod)
            if t.body_slice is not None:
                import ast as _ast, hashlib as _hl, copy as _copy
                r_ = t.body_slice(fn.body)
                full = fn.body
                fn = _copy.copy(fn)
                def pure_alias(x):
                    # ``name = <expression without calls>`` before the verified part: a local alias (e.g. ``zero = self.zero_idx``); executed if it
                    # can be evaluated in the contract's pre-state, skipped otherwise (an alias the part really needs then shows up as unbound)
                    return isinstance(x, _ast.Assign) and len(x.targets) == 1 and isinstance(x.targets[0], _ast.Name) and \
                        not any(isinstance(y, (_ast.Call, _ast.Lambda, _ast.ListComp, _ast.GeneratorExp, _ast.DictComp, _ast.SetComp, _ast.Await, _ast.Yield)) for y in _ast.walk(x.value))
                if isinstance(r_, list):
                    # a block of statements nested inside the function (e.g. part of a loop body), selected structurally by the contract
                    first = r_[0] if r_ else None
                    before = []
                    for x in full:
                        if first is not None and any(y is first for y in _ast.walk(x)):
                            break
                        before.append(x)
                    helpers = [x for x in full if isinstance(x, _ast.FunctionDef)]
                    part = r_
                else:
                    a, b_ = r_
                    before = full[:a]
                    # helper functions defined earlier in the same function stay visible to the phase (a def has no other effect)
                    helpers = [x for x in full[:a] if isinstance(x, _ast.FunctionDef)]
                    part = full[a:b_]
                aliases = []
                for x in before:
                    if pure_alias(x):
                        y = _copy.copy(x)
                        y._optional = True
                        aliases.append(y)
                helpers = helpers + aliases
                fn.body = helpers + part
                if not part:
                    raise ContractError('phase not found')
                sha = _hl.sha256('\n'.join(_ast.unparse(x) for x in fn.body).encode()).hexdigest()
        except ContractError as e:
            report.undecided.append(Undecided(t, None, f'contract does not bind: {e}'))
            continue
        report.functions[t.fullname] = {'sha256': sha, 'tier': t.tier, 'obligations': 0, 'discharged': 0,
                                        'configs': len(t.configs), 'note': t.note}
        for c in t.configs:
            try:
                ex = Exec(t.fullname, fn, globs, c.contract, prims=t.prims(globs) if callable(t.prims) else t.prims,
                          kinds=t.kinds)
                ex.mod, ex.qualname = t.mod, t.qualname
                st = c.setup(ex)
                obls = ex.run(st)
            except NotInSubset as e:
                report.undecided.append(Undecided(t, c, f'outside the modelled subset: {e}'))
                continue
            except ContractError as e:
                report.undecided.append(Undecided(t, c, f'contract does not bind: {e}'))
                continue
            except KeyError as e:
                # a variable / field that the contract mentions does not exist (any more) in the code: the contract does not bind
                report.undecided.append(Undecided(t, c, f'contract does not bind: the code has no variable or field {e}'))
                continue
            except Exception as e:  # checker defect -- surfaced by the caller as exit 3
                report.undecided.append(Undecided(t, c, 'CHECKER-CRASH ' + ''.join(traceback.format_exception_only(e)).strip()
                                                  + ' @ ' + traceback.format_tb(e.__traceback__)[-1].strip().replace('\n', ' ')))
                continue
            report.execs[(t.fullname, c.name)] = ex
            report.assumed |= ex.assumed
            if ex.inlined:
                f_ = report.functions[t.fullname]
                f_['inlined'] = sorted(set(f_.get('inlined', [])) | ex.inlined)
            for o in obls:
                o.tags = (c.name,) + tuple(o.tags)
                jobs.append((t, c, o))
    report.gen_time += time.time() - t0
    return jobs


def verify(targets, timeout_s=20, procs=None):
    report = Report()
    jobs = generate(targets, report)
    t0 = time.time()
    groups = {}
    for j in jobs:
        groups.setdefault(j[0].instantiate or False, []).append(j)
    for inst, js in groups.items():
        vs = discharge([o for _, _, o in js], timeout_s=timeout_s, instantiate=inst, procs=procs)
        for (t, c, o), v in zip(js, vs):
            report.verdicts.append((t, c, v))
            if o.expect == 'proved':
                f = report.functions[t.fullname]
                f['obligations'] += 1
                f['discharged'] += (v.status == 'proved')
    report.solve_wall = time.time() - t0
    return report
