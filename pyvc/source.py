"""Mechanical extraction of the functions under contract from /repo's *current* working tree.

Nothing is cached across runs.  What extraction drops is stated in DESIGN.md 2.1: decorators, docstrings, type
annotations and default-argument values (arguments are bound by the contract).  The extracted AST is the one that is
executed symbolically; its source text hash is reported in the evidence.
"""
import ast
import hashlib
import os

REPO = os.environ.get('KYUPY_REPO', '/repo')
SRC = os.path.join(REPO, 'src', 'kyupy')

_cache = {}


def module_ast(mod):
    path = os.path.join(SRC, mod + '.py')
    if path not in _cache:
        with open(path) as f:
            text = f.read()
        _cache[path] = (text, ast.parse(text, filename=path))
    return _cache[path]


def find(mod, qualname):
    """-> (FunctionDef, sha256 of its source segment).  qualname like 'Heap.alloc' or '_wave_eval' or
    'MockCuda.jit.make_launcher.Launcher.__getitem__.inner'"""
    text, tree = module_ast(mod)
    node = tree
    for part in qualname.split('.'):
        nxt = None
        for x in ast.walk(node) if not isinstance(node, ast.Module) else node.body:
            if x is node:
                continue
            if isinstance(x, (ast.FunctionDef, ast.ClassDef)) and x.name == part:
                nxt = x
                break
        if nxt is None:
            from .engine import ContractError
            raise ContractError(f'{mod}.{qualname}: {part!r} not found in {SRC}/{mod}.py')
        node = nxt
    seg = ast.get_source_segment(text, node) or ''
    return node, hashlib.sha256(seg.encode()).hexdigest()


def module_namespace(mod):
    """the real imported module's namespace (constants such as sim.AND2, TMAX; imported modules such as np)"""
    import importlib
    m = importlib.import_module('kyupy.' + mod if mod != '__init__' else 'kyupy')
    # make sure it is the working tree that is imported
    f = os.path.realpath(m.__file__)
    if not f.startswith(os.path.realpath(SRC)):
        raise RuntimeError(f'kyupy imported from {f}, expected {SRC}')
    return vars(m)
