"""Finite maps and sequences (Python dict / list of ints) for sim.Heap.

dict  -> (dom : Int -> Bool, val : Int -> Int);  list -> (arr : Int -> Int, len)
``del l[i]`` / ``insort_left`` build the new sequence as a z3 lambda (beta-reduced by the solver).
ASSUMED library contracts: bisect.bisect(l, x) on a sorted list returns idx with l[:idx] <= x < l[idx:];
bisect.insort_left(l, x) on a sorted list inserts x before the first element >= x."""
import z3

from .engine import Model, NotInSubset, SymIter
from .values import SInt, SBool, is_sym, to_int, _conc_int


class _Method(Model):
    def __init__(self, fn):
        self.fn = fn

    def m_call(self, ex, st, args, kwargs, node):
        return self.fn(ex, st, args, kwargs, node)


class SDict(Model):
    def __init__(self, name):
        self.name = name

    @staticmethod
    def new(ex, st, name):
        st.heap[(name, 'dom')] = z3.Array(f'{name}_dom!{next(ex.fresh)}', z3.IntSort(), z3.BoolSort())
        st.heap[(name, 'val')] = z3.Array(f'{name}_val!{next(ex.fresh)}', z3.IntSort(), z3.IntSort())
        return SDict(name)

    def dom(self, st): return st.heap[(self.name, 'dom')]
    def val(self, st): return st.heap[(self.name, 'val')]

    def m_getitem(self, ex, st, k, node):
        ki = to_int(k)
        ex.prove(st, f'no-exception:KeyError {self.name}[...]', z3.Select(self.dom(st), ki), node)
        return SInt(z3.Select(self.val(st), ki))

    def m_setitem(self, ex, st, k, v, node):
        ki = to_int(k)
        st.heap[(self.name, 'dom')] = z3.Store(self.dom(st), ki, z3.BoolVal(True))
        st.heap[(self.name, 'val')] = z3.Store(self.val(st), ki, to_int(v))

    def m_delitem(self, ex, st, k, node):
        ki = to_int(k)
        ex.prove(st, f'no-exception:KeyError del {self.name}[...]', z3.Select(self.dom(st), ki), node)
        st.heap[(self.name, 'dom')] = z3.Store(self.dom(st), ki, z3.BoolVal(False))

    def m_getattr(self, ex, st, name, node):
        if name == 'pop':
            def pop(ex_, st_, args, kwargs, node_):
                if len(args) != 1 or kwargs:
                    raise NotInSubset('dict.pop with a default')
                v = self.m_getitem(ex_, st_, args[0], node_)
                self.m_delitem(ex_, st_, args[0], node_)
                return v
            return _Method(pop)
        raise NotInSubset(f'dict.{name}')

    def m_contains(self, ex, st, k, node):
        return SBool(z3.Select(self.dom(st), to_int(k)))


class SList(Model):
    def __init__(self, name):
        self.name = name

    @staticmethod
    def new(ex, st, name):
        st.heap[(name, 'arr')] = z3.Array(f'{name}_arr!{next(ex.fresh)}', z3.IntSort(), z3.IntSort())
        n = ex.fv(f'{name}_len', 'int')
        st.heap[(name, 'len')] = n
        st.assume(n >= 0)
        # ghost witnesses (auxiliary variables, never read by the code): mem = characteristic function of the element set,
        # pos = index of an element.  The contract's invariant ties them to arr (G1, G2); they make "x in list" quantifier-free.
        st.heap[(name, 'mem')] = z3.Array(f'{name}_mem!{next(ex.fresh)}', z3.IntSort(), z3.BoolSort())
        st.heap[(name, 'pos')] = z3.Array(f'{name}_pos!{next(ex.fresh)}', z3.IntSort(), z3.IntSort())
        return SList(name)

    def mem(self, st): return st.heap[(self.name, 'mem')]
    def pos(self, st): return st.heap[(self.name, 'pos')]

    def arr(self, st): return st.heap[(self.name, 'arr')]
    def length(self, st): return st.heap[(self.name, 'len')]

    def _index(self, ex, st, idx, node, what):
        n = to_int(self.length(st))
        c = _conc_int(idx)
        if c is not None and c < 0:
            i = n + c
        else:
            i = to_int(idx)
        ex.prove(st, f'no-exception:IndexError {what} {self.name}[...]', z3.And(i >= 0, i < n), node)
        return i

    def m_getitem(self, ex, st, idx, node):
        if isinstance(idx, (slice, tuple)):
            raise NotInSubset('list slicing')
        i = self._index(ex, st, idx, node, 'read')
        return SInt(z3.Select(self.arr(st), i))

    def m_setitem(self, ex, st, idx, v, node):
        i = self._index(ex, st, idx, node, 'write')
        old = z3.Select(self.arr(st), i)
        st.heap[(self.name, 'mem')] = z3.Store(z3.Store(self.mem(st), old, z3.BoolVal(False)), to_int(v), z3.BoolVal(True))
        st.heap[(self.name, 'pos')] = z3.Store(self.pos(st), to_int(v), i)
        st.heap[(self.name, 'arr')] = z3.Store(self.arr(st), i, to_int(v))

    def m_delitem(self, ex, st, idx, node):
        i = self._index(ex, st, idx, node, 'del')
        j = z3.Int('j!del')
        a = self.arr(st)
        old = z3.Select(a, i)
        x = z3.Int('x!del')
        ps = self.pos(st)
        st.heap[(self.name, 'mem')] = z3.Store(self.mem(st), old, z3.BoolVal(False))
        st.heap[(self.name, 'pos')] = z3.Lambda([x], z3.If(z3.Select(ps, x) > i, z3.Select(ps, x) - 1, z3.Select(ps, x)))
        st.heap[(self.name, 'arr')] = z3.Lambda([j], z3.If(j < i, z3.Select(a, j), z3.Select(a, j + 1)))
        st.heap[(self.name, 'len')] = self.length(st) - 1

    def m_getattr(self, ex, st, name, node):
        if name == 'pop':
            def pop(ex_, st_, args, kwargs, node_):
                if args or kwargs:
                    raise NotInSubset('list.pop(i)')
                n = to_int(self.length(st_))
                ex_.prove(st_, f'no-exception:IndexError pop from empty {self.name}', n >= 1, node_)
                v = SInt(z3.Select(self.arr(st_), n - 1))
                self.m_delitem(ex_, st_, -1, node_)
                return v
            return _Method(pop)
        if name == 'insert':
            def insert(ex_, st_, args, kwargs, node_):
                if len(args) != 2 or kwargs:
                    raise NotInSubset('list.insert arguments')
                a, n, p, xi = self.arr(st_), to_int(self.length(st_)), to_int(args[0]), to_int(args[1])
                # list.insert clamps the position; only positions inside [0, len] are modelled
                ex_.prove(st_, f'modelled use of list.insert: 0 <= position <= len({self.name})', z3.And(p >= 0, p <= n), node_)
                k, xx = z3.Int('j!ins'), z3.Int('x!ins')
                ps = self.pos(st_)
                st_.heap[(self.name, 'mem')] = z3.Store(self.mem(st_), xi, z3.BoolVal(True))
                st_.heap[(self.name, 'pos')] = z3.Lambda([xx], z3.If(xx == xi, p, z3.If(z3.Select(ps, xx) >= p, z3.Select(ps, xx) + 1, z3.Select(ps, xx))))
                st_.heap[(self.name, 'arr')] = z3.Lambda([k], z3.If(k < p, z3.Select(a, k), z3.If(k == p, xi, z3.Select(a, k - 1))))
                st_.heap[(self.name, 'len')] = self.length(st_) + 1
                return None
            return _Method(insert)
        raise NotInSubset(f'list.{name}')

    def m_len(self, ex, st, node):
        return self.length(st)

    def m_truth(self, ex, st, node):
        return self.length(st) > 0

    def m_iter(self, ex, st, node):
        return SymIter(self.length(st), lambda ex_, st_, k: SInt(z3.Select(self.arr(st_), to_int(k))))


def sorted_strict(arr, n):
    i, j = z3.Ints('si sj')
    return z3.ForAll([i, j], z3.Implies(z3.And(0 <= i, i < j, j < n), z3.Select(arr, i) < z3.Select(arr, j)))


def bisect_prims(bisect_mod_bisect, insort_left):
    def bisect_model(ex, st, args, kwargs, node):
        l, x = args
        if not isinstance(l, SList):
            raise NotInSubset('bisect on a non-list')
        ex.assumed.add('bisect.bisect (defining axioms on a sorted list)')
        a, n, xi = l.arr(st), to_int(l.length(st)), to_int(x)
        ex.prove(st, 'call:bisect requires a sorted list', sorted_strict(a, n), node)
        idx = ex.fv('bisect', 'int')
        j = z3.Int('bj')
        st.assume(SBool(z3.And(idx.e >= 0, idx.e <= n,
                               z3.ForAll([j], z3.Implies(z3.And(0 <= j, j < idx.e), z3.Select(a, j) <= xi)),
                               z3.ForAll([j], z3.Implies(z3.And(idx.e <= j, j < n), z3.Select(a, j) > xi)))))
        return idx

    def insort_model(ex, st, args, kwargs, node):
        l, x = args
        if not isinstance(l, SList):
            raise NotInSubset('insort_left on a non-list')
        ex.assumed.add('bisect.insort_left (defining axioms on a sorted list)')
        a, n, xi = l.arr(st), to_int(l.length(st)), to_int(x)
        ex.prove(st, 'call:insort_left requires a sorted list', sorted_strict(a, n), node)
        p = ex.fv('insort', 'int')
        j = z3.Int('ij')
        st.assume(SBool(z3.And(p.e >= 0, p.e <= n,
                               z3.ForAll([j], z3.Implies(z3.And(0 <= j, j < p.e), z3.Select(a, j) < xi)),
                               z3.ForAll([j], z3.Implies(z3.And(p.e <= j, j < n), z3.Select(a, j) >= xi)))))
        k = z3.Int('j!ins')
        xx = z3.Int('x!ins')
        ps = l.pos(st)
        st.heap[(l.name, 'mem')] = z3.Store(l.mem(st), xi, z3.BoolVal(True))
        st.heap[(l.name, 'pos')] = z3.Lambda([xx], z3.If(xx == xi, p.e, z3.If(z3.Select(ps, xx) >= p.e, z3.Select(ps, xx) + 1, z3.Select(ps, xx))))
        st.heap[(l.name, 'arr')] = z3.Lambda([k], z3.If(k < p.e, z3.Select(a, k), z3.If(k == p.e, xi, z3.Select(a, k - 1))))
        st.heap[(l.name, 'len')] = l.length(st) + 1
        return None
    return {bisect_mod_bisect: bisect_model, insort_left: insort_model}
