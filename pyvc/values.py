"""Symbolic values of pyvc.

A value handled by the executor is either a concrete Python object or one of the wrappers below around a z3
term.  The wrappers overload Python's operators with *Python/numpy semantics* for the stated types:

  SInt   mathematical integer (Python int; numpy int32/int64 treated as mathematical -- assumption A-int)
  SBool  Python bool / one element of a numpy bool array (``~ & | ^`` are logical there)
  SBV    one element of a numpy unsigned array (uint8 / uint16), width preserving ``~ << >>``
  SReal  real number / extended-real time stamp (see pyvc.timealg)

Contract clauses use the helpers of pyvc.logic so that the same clause text runs on concrete values, too.
"""
import z3


class Sym:
    __slots__ = ('e', 'src')
    kind = '?'

    def __init__(self, e):
        self.e = e
        self.src = None      # ghost: set of array operands this (array-valued) temporary was computed from

    def __repr__(self):
        return f'<{self.kind}:{self.e}>'

    def __bool__(self):
        raise TypeError(f'truth value of symbolic {self!r} requested outside the executor')

    __hash__ = None


def is_sym(v):
    return isinstance(v, Sym)


def _conc_int(x):
    """int value of a concrete integer-like (python int/bool, numpy integer), else None"""
    import numpy as np
    if isinstance(x, (bool, int)):
        return int(x)
    if isinstance(x, (np.integer, np.bool_)):
        return int(x)
    return None


def to_int(x):
    """z3 Int term of a value"""
    if isinstance(x, SInt):
        return x.e
    if isinstance(x, z3.ArithRef):
        return x
    if isinstance(x, SBool):
        return z3.If(x.e, z3.IntVal(1), z3.IntVal(0))
    if isinstance(x, SBV):
        return z3.BV2Int(x.e, False)
    c = _conc_int(x)
    if c is not None:
        return z3.IntVal(c)
    raise TypeError(f'not an integer value: {x!r}')


def to_bool(x):
    """z3 Bool term of a value (Python truthiness)"""
    if isinstance(x, SBool):
        return x.e
    if isinstance(x, z3.ExprRef):
        return x if z3.is_bool(x) else (x != 0)
    if isinstance(x, SInt):
        return x.e != 0
    if isinstance(x, SBV):
        return x.e != 0
    if isinstance(x, SReal):
        return x.e != 0
    if is_sym(x):
        raise TypeError(x)
    return z3.BoolVal(bool(x))


def to_real(x):
    if isinstance(x, SReal):
        return x.e
    if isinstance(x, (SInt, SBool, SBV)):
        return z3.ToReal(to_int(x))
    if isinstance(x, bool):
        return z3.RealVal(int(x))
    if isinstance(x, int):
        return z3.RealVal(x)
    import numpy as np
    if isinstance(x, (float, np.floating)):
        import fractions
        return z3.RealVal(str(fractions.Fraction(float(x))))
    c = _conc_int(x)
    if c is not None:
        return z3.RealVal(c)
    raise TypeError(f'not a real value: {x!r}')


class SBool(Sym):
    __slots__ = ()
    kind = 'bool'

    def _b(self, o):
        if isinstance(o, SBool):
            return o.e
        if isinstance(o, bool):
            return z3.BoolVal(o)
        import numpy as np
        if isinstance(o, np.bool_):
            return z3.BoolVal(bool(o))
        return None

    def __and__(self, o):
        b = self._b(o)
        if b is None:
            return SInt(to_int(self)) & o
        return SBool(z3.And(self.e, b))
    __rand__ = __and__

    def __or__(self, o):
        b = self._b(o)
        if b is None:
            return SInt(to_int(self)) | o
        return SBool(z3.Or(self.e, b))
    __ror__ = __or__

    def __xor__(self, o):
        b = self._b(o)
        if b is None:
            return SInt(to_int(self)) ^ o
        return SBool(z3.Xor(self.e, b))
    __rxor__ = __xor__

    def __invert__(self):
        # numpy bool_: logical not.  (A plain Python bool would give -1/-2; the executor only creates SBool from
        # comparisons of array elements or numbers; ``~`` on a comparison of Python numbers does not occur in scope.)
        return SBool(z3.Not(self.e))

    def __eq__(self, o):
        b = self._b(o)
        if b is None:
            return SInt(to_int(self)) == o
        return SBool(self.e == b)

    def __ne__(self, o):
        r = self.__eq__(o)
        return SBool(z3.Not(r.e))

    # arithmetic use of a bool -> int
    def __add__(self, o): return SInt(to_int(self)) + o
    def __radd__(self, o): return o + SInt(to_int(self))
    def __sub__(self, o): return SInt(to_int(self)) - o
    def __rsub__(self, o): return SInt(to_int(o)) - SInt(to_int(self))
    def __mul__(self, o): return SInt(to_int(self)) * o
    __rmul__ = __mul__


class SInt(Sym):
    __slots__ = ()
    kind = 'int'

    @staticmethod
    def _o(o):
        if isinstance(o, SReal):
            return None
        try:
            return to_int(o)
        except TypeError:
            return None

    def _arith(self, o, f, rf):
        if isinstance(o, SReal) or isinstance(o, float):
            return rf(SReal(to_real(self)), o)
        i = self._o(o)
        if i is None:
            return NotImplemented
        return SInt(f(self.e, i))

    def __add__(self, o): return self._arith(o, lambda a, b: a + b, lambda a, b: a + b)
    def __radd__(self, o): return self._arith(o, lambda a, b: b + a, lambda a, b: b + a)
    def __sub__(self, o): return self._arith(o, lambda a, b: a - b, lambda a, b: a - b)
    def __rsub__(self, o): return self._arith(o, lambda a, b: b - a, lambda a, b: b - a)
    def __mul__(self, o): return self._arith(o, lambda a, b: a * b, lambda a, b: a * b)
    def __rmul__(self, o): return self._arith(o, lambda a, b: b * a, lambda a, b: b * a)
    def __neg__(self): return SInt(-self.e)
    def __pos__(self): return self

    def __floordiv__(self, o):
        return pyfloordiv(self, o)

    def __rfloordiv__(self, o):
        return pyfloordiv(o, self)

    def __mod__(self, o):
        return pymod(self, o)

    def __rmod__(self, o):
        return pymod(o, self)

    # bit operations on mathematical integers: only the shapes that occur in scope
    def __and__(self, o):
        c = _conc_int(o)
        if c is not None and c >= 0 and (c & (c + 1)) == 0:       # mask 2^k-1
            return self % (c + 1)
        if c is not None and c > 0 and (c & (c - 1)) == 0:        # single bit 2^k
            return ((self // c) % 2) * c
        return SInt(BITAND(self.e, to_int(o)))
    __rand__ = __and__

    def __xor__(self, o):
        c = _conc_int(o)
        if c == 0:
            return self
        if c is not None and c > 0 and (c & (c - 1)) == 0:        # toggle bit k
            bit = (self // c) % 2
            return self + c * (1 - 2 * bit)
        if isinstance(o, (SInt, SBool)):
            # general: only sound special case used in scope is 0/1 ^ 0/1; otherwise uninterpreted
            return SInt(BITXOR(self.e, to_int(o)))
        return SInt(BITXOR(self.e, to_int(o)))
    __rxor__ = __xor__

    def __or__(self, o):
        return SInt(BITOR(self.e, to_int(o)))
    __ror__ = __or__

    def __lshift__(self, o):
        c = _conc_int(o)
        if c is not None and c >= 0:
            return self * (1 << c)
        return SInt(self.e * POW2(to_int(o)))

    def __rshift__(self, o):
        c = _conc_int(o)
        if c is not None and c >= 0:
            return self // (1 << c)
        return SInt(SHR(self.e, to_int(o)))

    def __rrshift__(self, o):
        return SInt(SHR(to_int(o), self.e))

    def __rlshift__(self, o):
        return SInt(to_int(o) * POW2(self.e))

    def _cmp(self, o, f):
        if isinstance(o, SReal) or isinstance(o, float):
            return f(to_real(self), to_real(o))
        i = self._o(o)
        if i is None:
            return None
        return f(self.e, i)

    def __eq__(self, o):
        r = self._cmp(o, lambda a, b: a == b)
        return SBool(r) if r is not None else False

    def __ne__(self, o):
        r = self._cmp(o, lambda a, b: a != b)
        return SBool(r) if r is not None else True

    def __lt__(self, o): return SBool(self._cmp(o, lambda a, b: a < b))
    def __le__(self, o): return SBool(self._cmp(o, lambda a, b: a <= b))
    def __gt__(self, o): return SBool(self._cmp(o, lambda a, b: a > b))
    def __ge__(self, o): return SBool(self._cmp(o, lambda a, b: a >= b))


# uninterpreted / axiomatised integer bit functions (axioms added by the contracts that need them)
SHR = z3.Function('shr', z3.IntSort(), z3.IntSort(), z3.IntSort())
POW2 = z3.Function('pow2', z3.IntSort(), z3.IntSort())
BITAND = z3.Function('bitand', z3.IntSort(), z3.IntSort(), z3.IntSort())
BITOR = z3.Function('bitor', z3.IntSort(), z3.IntSort(), z3.IntSort())
BITXOR = z3.Function('bitxor', z3.IntSort(), z3.IntSort(), z3.IntSort())


def pyfloordiv(a, b):
    """Python floor division on mathematical integers.  z3's ``/`` on Int is Euclidean (remainder >= 0):
    equal to floor division for a positive divisor; for a negative divisor  a // b == -((-a) // (-b)) ... we use
    a // b == floor(a/b) == -( (-a) div_eucl (-b) ) only when needed; encoded through the defining property."""
    cb = _conc_int(b)
    ca = _conc_int(a)
    if ca is not None and cb is not None:
        return ca // cb
    ia, ib = to_int(a), to_int(b)
    if cb is not None and cb > 0:
        return SInt(ia / ib)
    if cb is not None and cb < 0:
        return SInt((-ia) / z3.IntVal(-cb))           # a // b == (-a) // (-b), -b > 0
    # symbolic divisor: z3 Euclidean division; floor(a/b) = a div b if b > 0 ; = (-a) div (-b) if b < 0
    return SInt(z3.If(ib > 0, ia / ib, (-ia) / (-ib)))


def pymod(a, b):
    cb = _conc_int(b)
    ca = _conc_int(a)
    if ca is not None and cb is not None:
        return ca % cb
    ia, ib = to_int(a), to_int(b)
    if cb is not None and cb > 0:
        return SInt(ia % ib)
    # python: a % b has the sign of b ;  a - b * floor(a/b)
    q = pyfloordiv(a, b)
    return SInt(ia - ib * to_int(q))


class SBV(Sym):
    """One element of a numpy unsigned-integer array (uint8/uint16)."""
    __slots__ = ()
    kind = 'bv'

    @property
    def width(self):
        return self.e.size()

    def _o(self, o):
        if isinstance(o, SBV):
            if o.width != self.width:
                raise TypeError('bit-vector width mismatch')
            return o.e
        c = _conc_int(o)
        if c is not None:
            # numpy >= 2 (NEP 50): python int operand adopts the array dtype; out-of-range python ints raise
            if isinstance(o, (int, bool)) and not (0 <= c < (1 << self.width)):
                if -(1 << self.width) < c < 0:
                    raise OverflowError(f'python int {c} out of range for uint{self.width}')
                raise OverflowError(f'python int {c} out of range for uint{self.width}')
            return z3.BitVecVal(c & ((1 << self.width) - 1), self.width)
        return None

    def _bin(self, o, f):
        b = self._o(o)
        if b is None:
            return NotImplemented
        return SBV(f(self.e, b))

    def __and__(self, o): return self._bin(o, lambda a, b: a & b)
    __rand__ = __and__
    def __or__(self, o): return self._bin(o, lambda a, b: a | b)
    __ror__ = __or__
    def __xor__(self, o): return self._bin(o, lambda a, b: a ^ b)
    __rxor__ = __xor__
    def __invert__(self): return SBV(~self.e)
    def __add__(self, o): return self._bin(o, lambda a, b: a + b)
    __radd__ = __add__
    def __sub__(self, o): return self._bin(o, lambda a, b: a - b)

    def __lshift__(self, o):
        c = _conc_int(o)
        if c is None:
            return NotImplemented
        return SBV(self.e << c) if c < self.width else SBV(z3.BitVecVal(0, self.width))

    def __rshift__(self, o):
        c = _conc_int(o)
        if c is None:
            return NotImplemented
        return SBV(z3.LShR(self.e, c)) if c < self.width else SBV(z3.BitVecVal(0, self.width))

    def __eq__(self, o):
        b = self._o(o)
        return SBool(self.e == b) if b is not None else False

    def __ne__(self, o):
        b = self._o(o)
        return SBool(self.e != b) if b is not None else True

    def __lt__(self, o): return SBool(z3.ULT(self.e, self._o(o)))
    def __le__(self, o): return SBool(z3.ULE(self.e, self._o(o)))
    def __gt__(self, o): return SBool(z3.UGT(self.e, self._o(o)))
    def __ge__(self, o): return SBool(z3.UGE(self.e, self._o(o)))


class SReal(Sym):
    """A real number.  Time stamps of wave_sim use the subclass STime of pyvc.timealg."""
    __slots__ = ()
    kind = 'real'

    def _o(self, o):
        try:
            return to_real(o)
        except TypeError:
            return None

    def __add__(self, o):
        if isinstance(o, SReal) and type(o) is not SReal:
            return o.__radd__(self)
        return SReal(self.e + self._o(o))

    def __radd__(self, o): return SReal(self._o(o) + self.e)
    def __sub__(self, o):
        if isinstance(o, SReal) and type(o) is not SReal:
            return o.__rsub__(self)
        return SReal(self.e - self._o(o))
    def __rsub__(self, o): return SReal(self._o(o) - self.e)
    def __mul__(self, o): return SReal(self.e * self._o(o))
    __rmul__ = __mul__
    def __neg__(self): return SReal(-self.e)
    def __eq__(self, o):
        b = self._o(o)
        return SBool(self.e == b) if b is not None else False
    def __ne__(self, o):
        b = self._o(o)
        return SBool(self.e != b) if b is not None else True
    def __lt__(self, o): return SBool(self.e < self._o(o))
    def __le__(self, o): return SBool(self.e <= self._o(o))
    def __gt__(self, o): return SBool(self.e > self._o(o))
    def __ge__(self, o): return SBool(self.e >= self._o(o))


def wrap(e):
    """wrap a z3 term by sort"""
    s = e.sort()
    if s == z3.IntSort():
        return SInt(e)
    if s == z3.BoolSort():
        return SBool(e)
    if s == z3.RealSort():
        return SReal(e)
    if isinstance(s, z3.BitVecSortRef):
        return SBV(e)
    raise TypeError(s)


def term(v):
    """z3 term of a value (concrete ints -> Int, bools -> Bool)"""
    if is_sym(v):
        return v.e
    if isinstance(v, bool):
        return z3.BoolVal(v)
    c = _conc_int(v)
    if c is not None:
        return z3.IntVal(c)
    return to_real(v)
