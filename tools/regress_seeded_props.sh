#!/bin/bash
# regress_seeded_props.sh <worktree> <pid> [<pid> ...]: every seeded change of the given properties against its check in the scratch worktree
wt=$1; shift
for pid in "$@"; do
  for d in $(ls -d /verif/seeded/${pid}_m* | sort -V); do /verif/tools/try_wt.sh $pid $wt $d | head -2 | cut -c1-260; done
done
