#!/bin/bash
# batch11.sh <pid>: confirm and try the three changes a sub-agent left in /tmp/wt11_<pid>/seeded (copied to /tmp/mut11/<pid> first)
pid=$1; wt=/tmp/wt11_$pid
mkdir -p /tmp/mut11/$pid
for k in 1 2 3; do [ -d /tmp/mut11/$pid/m$k ] || cp -r $wt/seeded/m$k /tmp/mut11/$pid/ 2>/dev/null; done
for k in 1 2 3; do
  m=/tmp/mut11/$pid/m$k
  [ -f $m/patch.diff ] && [ -f $m/demo.py ] || { echo "MISSING $m"; continue; }
  tools/confirm_seeded.sh $wt $m
  tools/try_wt.sh $pid $wt $m
done
