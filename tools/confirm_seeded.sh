#!/bin/bash
# confirm_seeded.sh <worktree> <mutant-dir>: demo passes without change, fails with change, full test-suite passes with change
wt=$1; m=$2
cd $wt && git checkout -q -- . && 
PYTHONPATH=$wt/src /venv/bin/python $m/demo.py >/dev/null 2>&1; clean=$?
git apply $m/patch.diff || { echo "APPLY-FAILED $m"; exit 1; }
PYTHONPATH=$wt/src /venv/bin/python $m/demo.py >/dev/null 2>&1; mut=$?
PYTHONPATH=$wt/src /venv/bin/python -m pytest -q -p no:cacheprovider -x tests >/tmp/confirm_$$.log 2>&1; tests=$?
git checkout -q -- .
echo "CONFIRM $m demo_clean_rc=$clean demo_mutant_rc=$mut tests_rc=$tests $(tail -1 /tmp/confirm_$$.log)"
rm -f /tmp/confirm_$$.log
