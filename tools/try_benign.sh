#!/bin/bash
# try_benign.sh <worktree> <diff> : apply a behaviour-preserving change in the scratch worktree and run every check whose anchor files it touches
wt=$1; d=$2
cd $wt && git checkout -q -- . && git clean -fdq && git apply $d || { echo "APPLY-FAILED $d"; exit 9; }
files=$(git diff --name-only)
pids=$(python3 - "$files" <<'PY'
import json,sys
files=sys.argv[1].split()
out=[]
for l in open('/verif/properties.jsonl'):
    p=json.loads(l)
    if any(f in p['anchors']['files'] for f in files): out.append(p['id'])
print(' '.join(out))
PY
)
tag=$(basename $d .diff)
for pid in $pids; do
  out=/var/tmp/kyupy-verif-out/benign_${tag}_$pid; mkdir -p $out
  (cd /verif && KYUPY_REPO=$wt VERIF_OUT=$out ./check $pid --tier quick > $out/log.txt 2>&1); rc=$?
  echo "BENIGN $tag $pid exit=$rc $(grep -E '^(VIOLATION|UNDECIDED|CHECKER)' $out/log.txt | head -2 | cut -c1-300 | tr '\n' '|')"
done
cd $wt && git checkout -q -- . && git clean -fdq
