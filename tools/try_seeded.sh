#!/bin/bash
# try_seeded.sh <pid> <patch.diff> [tier]: apply to /repo, run the check, undo
pid=$1; patch=$2; tier=${3:-quick}
cd /repo && git apply $patch || { echo "APPLY-FAILED"; exit 9; }
cd /verif && ./check $pid --tier $tier > /tmp/try_$pid.log 2>&1; rc=$?
cd /repo && git checkout -- .
echo "TRY $pid $patch exit=$rc $(grep -c '^VIOLATION' /tmp/try_$pid.log) violation lines"; grep -E "^VIOLATION|^UNDECIDED|^CHECKER" /tmp/try_$pid.log | head -5
