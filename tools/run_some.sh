#!/bin/bash
# run_some.sh <tier> <pid>...: run the given checks against /repo and summarise
tier=$1; shift
cd /verif
for p in "$@"; do
  ./check $p --tier $tier > /tmp/runsome_$p.log 2>&1; rc=$?
  echo "$p rc=$rc $(grep -c '^VIOLATION' /tmp/runsome_$p.log) viol, $(grep -c '^KNOWN-FINDING' /tmp/runsome_$p.log) known | $(tail -1 /tmp/runsome_$p.log | cut -c1-140)"
done
