#!/bin/bash
# regress_seeded.sh <worktree> <k> <n>: run every k-th of n seeded change (sorted) against its check in the scratch worktree
wt=$1; k=$2; n=$3; i=0
for d in $(ls -d /verif/seeded/C*_m* | sort); do
  if [ $((i % n)) -eq $k ]; then pid=$(basename $d | cut -d_ -f1); /verif/tools/try_wt.sh $pid $wt $d | head -2 | cut -c1-260; fi
  i=$((i+1))
done
