#!/bin/bash
# try_wt.sh <pid> <worktree> <mutant-dir> [tier]: apply the patch in the scratch worktree, run the check against it, undo
pid=$1; wt=$2; m=$3; tier=${4:-quick}
cd $wt && git checkout -q -- . && git apply $m/patch.diff || { echo "APPLY-FAILED $m"; exit 9; }
out=/var/tmp/kyupy-verif-out/$(basename $wt)_$(basename $m)
mkdir -p $out
cd /verif && KYUPY_REPO=$wt VERIF_OUT=$out ./check $pid --tier $tier > $out/log.txt 2>&1; rc=$?
cd $wt && git checkout -q -- .
echo "TRY $pid $m exit=$rc violations=$(grep -c '^VIOLATION' $out/log.txt) undecided=$(grep -c '^UNDECIDED' $out/log.txt)"; grep -E "violated:|^UNDECIDED|^CHECKER" $out/log.txt | head -4
