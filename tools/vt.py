"""dev helper: verify the targets returned by <module>:<function>(*args) and list every verdict.
usage: .venv/bin/python tools/vt.py contracts.alloc_c:targets [timeout_s] [name-filter]"""
import sys
import time

sys.path.insert(0, '.')


def main():
    spec = sys.argv[1]
    timeout = int(sys.argv[2]) if len(sys.argv) > 2 else 30
    flt = sys.argv[3] if len(sys.argv) > 3 else ''
    mod, fn = spec.split(':')
    import importlib
    m = importlib.import_module(mod)
    from pyvc.verify import verify
    t0 = time.time()
    rep = verify(getattr(m, fn)(), timeout_s=timeout)
    for u in rep.undecided:
        print('UNDECIDED-TARGET', u.target.fullname, u.config.name if u.config else '', u.reason)
    bad = 0
    for t, c, v in rep.verdicts:
        ok = (v.status == 'proved') if v.obl.expect == 'proved' else (v.status == 'refuted')
        if not ok:
            bad += 1
        if not ok or flt and flt in v.obl.name:
            print(f'{"ok " if ok else "BAD"} {v.status:9s} {v.time:6.1f}s {v.backend or "":10s} {c.name[:30]:30s} {v.obl.name} @{v.obl.lineno} tags={getattr(v.obl, "tags", "")}')
    print(f'obligations={rep.obligations} discharged={rep.discharged} bad={bad} mustfail_broken={len(rep.mustfail_broken())} gen={rep.gen_time:.1f}s solve={rep.solve_wall:.1f}s total={time.time() - t0:.1f}s')
    print('backends', rep.by_backend())


if __name__ == '__main__':
    main()
