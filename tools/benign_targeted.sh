#!/bin/bash
# benign_targeted.sh <worktree> <pid-list, comma separated> <diff>...: behaviour-preserving changes against the named checks only
# (used for the contracts added late: C09 free_index, C17 levels, C19 pin numbering, C20 vias)
wt=$1; want=$2; shift 2
for d in "$@"; do
  cd $wt && git checkout -q -- . && git clean -fdq && git apply /verif/benign/$d || { echo "APPLY-FAILED $d"; continue; }
  files=$(git diff --name-only | tr '\n' ' ')
  pids=""
  case "$files" in *techlib.py*) pids="$pids C19";; esac
  case "$files" in *def_file.py*) pids="$pids C20";; esac
  case "$files" in *circuit.py*) pids="$pids C09 C17";; esac
  for pid in $pids; do
    case ",$want," in *,$pid,*) ;; *) continue;; esac
    out=/var/tmp/kyupy-verif-out/benignT_${d%.diff}_$pid; mkdir -p $out
    (cd /verif && KYUPY_REPO=$wt VERIF_OUT=$out ./check $pid --tier quick > $out/log.txt 2>&1); rc=$?
    echo "BENIGN ${d%.diff} $pid exit=$rc $(grep -E '^(VIOLATION|UNDECIDED|CHECKER)' $out/log.txt | head -2 | cut -c1-300 | tr '\n' '|')"
  done
  cd $wt && git checkout -q -- . && git clean -fdq
done
