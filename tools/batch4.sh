#!/bin/bash
# batch4.sh <pid>: confirm the three mutants of /tmp/mut4/<pid> in the scratch worktree and run the check against each
pid=$1; wt=${2:-/tmp/wt_alloc}
for k in 1 2 3; do
  m=/tmp/mut4/$pid/m$k
  [ -f $m/patch.diff ] && [ -f $m/demo.py ] || { echo "MISSING $m"; continue; }
  tools/confirm_seeded.sh $wt $m
  tools/try_wt.sh $pid $wt $m
done
