#!/usr/bin/env python3
"""store_batch.py <batch-no> <mutant root> <log dir/prefix> : copy confirmed mutants into seeded/<pid>_mK (numbering continues) with meta.json
(first-try CONFIRM / TRY lines from <prefix><pid>.log, notes for the ones that needed strengthening from <root>/NOTES.json) and print the DESIGN.md rows"""
import json, os, re, shutil, sys
batch, root, prefix = int(sys.argv[1]), sys.argv[2], sys.argv[3]
notes = json.load(open(os.path.join(root, 'NOTES.json'))) if os.path.exists(os.path.join(root, 'NOTES.json')) else {}
here = os.path.join(os.path.dirname(os.path.abspath(__file__)), '..', 'seeded')
rows = []
for pid in [p for p in sorted(os.listdir(root)) if p in os.environ.get('ONLY','').split(',') or not os.environ.get('ONLY')]:
    if not re.fullmatch(r'C\d\d', pid):
        continue
    log = open(prefix + pid + '.log').read().split('\n')
    nxt = max([int(d.split('_m')[1]) for d in os.listdir(here) if d.startswith(pid + '_m')] or [0]) + 1
    for k in (1, 2, 3):
        src = os.path.join(root, pid, f'm{k}')
        conf = next((l for l in log if l.startswith(f'CONFIRM {src} ')), None)
        tri = [i for i, l in enumerate(log) if l.startswith(f'TRY {pid} {src} ')]
        if not os.path.exists(os.path.join(src, 'meta.json')) or conf is None or not tri or 'demo_clean_rc=0 demo_mutant_rc=1 tests_rc=0' not in conf:
            print('SKIP (not confirmed)', src)
            continue
        viol = [l.strip() for l in log[tri[0] + 1: tri[0] + 5] if l.startswith('  violated')]
        meta = json.load(open(os.path.join(src, 'meta.json')))
        note = notes.get(f'{pid}/m{k}')
        dst = os.path.join(here, f'{pid}_m{nxt}')
        os.makedirs(dst, exist_ok=True)
        for f in ('patch.diff', 'demo.py'):
            shutil.copy(os.path.join(src, f), os.path.join(dst, f))
        out = {'property': pid, 'batch': batch, 'summary': meta.get('summary', ''), 'needs_to_manifest': meta.get('needs_to_manifest', meta.get('needs', '')),
               'files': meta.get('files', []), 'author': f'independent sub-agent given only the property text and a scratch worktree (batch {batch}, asked to be inventive and avoid the obvious places)',
               'confirmed_by_me': {'cmd': f'tools/confirm_seeded.sh <worktree> /verif/seeded/{pid}_m{nxt}', 'result': conf},
               'check_run': {'cmd': f'tools/try_wt.sh {pid} <worktree> /verif/seeded/{pid}_m{nxt}', 'result_at_first_try': log[tri[0]], 'violations': [v[:300] for v in viol]},
               'applies_to_current_repo_head': True}
        if note:
            out['note'] = note
        json.dump(out, open(os.path.join(dst, 'meta.json'), 'w'), indent=1)
        star = ' ★' if note else ''
        summ = (meta.get('summary', '') or '').replace('|', '/').replace('\n', ' ')[:150]
        rows.append(f'| {pid} m{nxt}{star} | {summ}… | ' + ('B (after strengthening, see note in meta.json)' if note else 'see check_run in meta.json') + ' |')
        nxt += 1
print('\n'.join(rows))
