#!/bin/bash
pid=$1; wt=${2:-/tmp/wt_alloc}
for k in 1 2 3; do
  m=/tmp/mut10/$pid/m$k
  [ -f $m/patch.diff ] && [ -f $m/demo.py ] || { echo "MISSING $m"; continue; }
  tools/confirm_seeded.sh $wt $m
  tools/try_wt.sh $pid $wt $m
done
