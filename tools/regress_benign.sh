#!/bin/bash
# regress_benign.sh <worktree> <k> <n>: every k-th of n benign change against the checks whose anchor files it touches
wt=$1; k=$2; n=$3; i=0
for d in $(ls /verif/benign/*.diff | sort); do
  if [ $((i % n)) -eq $k ]; then /verif/tools/try_benign.sh $wt $d; fi
  i=$((i+1))
done
