#!/bin/bash
# run every registered check (quick tier by default) against /repo and summarise
tier=${1:-quick}
cd /verif
for p in $(python3 -c "import json;print(' '.join(c['property_id'] for c in json.load(open('MANIFEST.json'))['checks']))"); do
  ./check $p --tier $tier > /tmp/runall_$p.log 2>&1; rc=$?
  echo "$p rc=$rc $(grep -c '^VIOLATION' /tmp/runall_$p.log) viol, $(grep -c '^KNOWN-FINDING' /tmp/runall_$p.log) known | $(tail -1 /tmp/runall_$p.log | cut -c1-140)"
done
