"""Contract of the pure-Python grid launcher kyupy.MockCuda.jit(..).Launcher.__getitem__(..).inner (C06/C07):
with grid_dim = (gx, gy) and block_dim = (bx, by) the kernel is called exactly once for every thread
(x, y) in [0, gx*bx) x [0, gy*by) and for no other -- ghost call counter per thread.

Invariant (the same formula for all four nested loops, inner indices read as 0 where a loop has not started):
   count[x, y] == 1  if (x div bx, y div by, x mod bx, y mod by) is lexicographically before the current position
                       and (x, y) lies in the rectangle, else 0.
"""
import z3

from pyvc.engine import State, Model, NotInSubset
from pyvc.values import SInt, SBool, to_int
from pyvc.models_obj import SObj
from pyvc.verify import Config, Target

COUNT = 'count'


class Kernel(Model):
    def m_call(self, ex, st, args, kwargs, node):
        x, y = to_int(st.heap[('outer', 'x')]), to_int(st.heap[('outer', 'y')])
        cnt = st.heap[COUNT]
        g = ex.g
        ex.prove(st, 'thread index inside the launched rectangle', z3.And(x >= 0, x < g['gx'] * g['bx'], y >= 0, y < g['gy'] * g['by']), node)
        ex.prove(st, 'thread not launched before', cnt[x][y] == 0, node)
        st.heap[COUNT] = z3.Store(cnt, x, z3.Store(cnt[x], y, cnt[x][y] + 1))
        return None


def launcher_config(bx, by):
    def setup(ex):
        st = State()
        gx, gy = ex.fv('gx', 'int'), ex.fv('gy', 'int')
        st.assume(SBool(z3.And(gx.e >= 0, gy.e >= 0)))
        ex.g = dict(gx=gx.e, gy=gy.e, bx=bx, by=by)
        st.heap[COUNT] = z3.K(z3.IntSort(), z3.K(z3.IntSort(), z3.IntVal(0)))
        outer = SObj.new(st, 'outer', x=0, y=0)
        selfo = SObj.new(st, 'self', func=Kernel())
        st.env.update(grid_dim=(gx, gy), block_dim=(bx, by), outer=outer, self=selfo, args=(), kwargs={})
        return st

    def visited(g, x, y, pos):
        a, b_, c_, d_ = pos
        qx, qy, rx, ry = x / bx, y / by, x % bx, y % by
        inrect = z3.And(x >= 0, x < g['gx'] * bx, y >= 0, y < g['gy'] * by)
        lex = z3.Or(qx < a, z3.And(qx == a, z3.Or(qy < b_, z3.And(qy == b_, z3.Or(rx < c_, z3.And(rx == c_, ry < d_))))))
        return z3.And(inrect, lex)

    def make_inv(level):
        def inv(ex, st):
            g = ex.g
            e = st.env
            idx = [to_int(e.get(f'__k{j}', 0)) if j <= level else z3.IntVal(0) for j in range(4)]
            x, y = z3.Ints('tx ty')
            cnt = st.heap[COUNT]
            yield 'every thread before the current position was launched exactly once, no other thread', \
                SBool(z3.ForAll([x, y], cnt[x][y] == z3.If(visited(g, x, y, idx), 1, 0)))
            for j in range(level):
                # outer loop indices are within range while an inner loop runs
                lim = [g['gx'], g['gy'], bx, by][j]
                yield f'outer index {j} in range', SBool(z3.And(idx[j] >= 0, idx[j] < lim))
        return inv

    def post(ex, st):
        g = ex.g
        x, y = z3.Ints('tx ty')
        cnt = st.heap[COUNT]
        inrect = z3.And(x >= 0, x < g['gx'] * bx, y >= 0, y < g['gy'] * by)
        yield 'every thread of the grid is launched exactly once and nothing else', SBool(z3.ForAll([x, y], cnt[x][y] == z3.If(inrect, 1, 0)))
        ex.prove(st, 'mustfail:no thread is ever launched', SBool(z3.ForAll([x, y], cnt[x][y] == 0)), ex.fn, expect='refuted')

    loops = {j: {'inv': make_inv(j), 'modifies': [COUNT, ('outer', 'x'), ('outer', 'y')], 'kinds': {}} for j in range(4)}
    cfg = Config(f'block_dim=({bx},{by})', {'post': post, 'loops': loops}, setup, None)
    cfg.bmc = lambda: None
    cfg.fuzz = lambda: launcher_search(bx, by)
    return cfg


def run_launcher(args):
    """replay on the real code: launch a recording kernel through kyupy.cuda and compare the visited threads with the grid"""
    import kyupy
    from collections import Counter
    gx, gy, bx, by = args['gx'], args['gy'], args['bx'], args['by']
    if not type(kyupy.cuda).__name__ == 'MockCuda':
        return {'reproduced': False, 'note': 'a real numba.cuda is installed; the mock launcher is not in use'}
    seen = Counter()

    def kern():
        seen[kyupy.cuda.grid(2)] += 1
    launcher = kyupy.cuda.jit(kern)
    launcher[(gx, gy), (bx, by)]()
    want = Counter({(x, y): 1 for x in range(gx * bx) for y in range(gy * by)})
    if seen == want:
        return {'reproduced': False}
    missing = sorted(set(want) - set(seen))[:3]
    extra = sorted(k for k, v in seen.items() if want.get(k, 0) != v)[:3]
    return {'reproduced': True, 'missing_threads': missing, 'wrong_count_threads': [(k, seen[k]) for k in extra], 'violated': ['launcher does not visit every thread of the grid exactly once']}


def launcher_search(bx, by):
    for gx in range(0, 4):
        for gy in range(0, 4):
            args = {'gx': gx, 'gy': gy, 'bx': bx, 'by': by}
            r = run_launcher(args)
            if r.get('reproduced'):
                return 'contracts.launcher_c:run_launcher', args, r
    return None


def targets():
    return [Target('__init__', 'MockCuda.jit.make_launcher.Launcher.__getitem__.inner', [launcher_config(32, 16), launcher_config(3, 5)], instantiate='fallback',
                   note='pure-Python stand-in for the CUDA grid launch')]
