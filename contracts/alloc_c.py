"""Contract of the allocation phase of kyupy.sim.SimOps.__init__ (C08): the statements from ``self.c_locs = np.full(..)`` to the
end of the level-wise allocation loop, executed symbolically on a symbolic op table, symbolic level partition, symbolic interface
nodes and an *abstract* heap that is known only through the contracts proved for Heap.alloc / Heap.free in heap_c (modular:
the call sites are checked against the callee's contract, not its body).

Ghost state
  CNT(x, k)      number of operand references (stem-resolved, 4 columns, with multiplicity) to slot x by the ops [0, k)
                 -- recurrence assumed at the iteration that passes op k; monotonicity is a separate induction lemma
  PROD(x)        producer op of slot x or -1 (shared with the levelisation contract)
  FREED[x]       slot x was handed back to the heap (updated at each Heap.free call: every slot whose location is freed)
  WIT(x)         some interface node that captures slot x (witness for "x is a captured line")
  pin(x)         x is the zero / tmp / tmp2 slot, an interface input slot of a node with outputs, or a captured line

requires  what the earlier phases establish (levelisation: proved in simops_c; translation: bounded): op columns in range, outputs are
          lines or the tmp slot, single production, TopoOps, operands are never scratch or output slots, sources are the zero slot
          or interface input slots of nodes with outputs, S1 of the level partition, ref_count[x] = CNT(x, n), c_caps_min >= 1.
ensures   (every iteration and at the end)
  A2   every operand of every op is allocated and not freed when the op is reached           (operands live when read)
  D    any two distinct allocated, not-freed slots have disjoint regions                      (no overlap among live signals)
  F    a slot is freed only when its reference count is exhausted: it is not pinned and no op at or after the current level
       start refers to it  (ref_count[x] >= CNT(x,n) - CNT(x,k) + pin(x), FREED[x] -> ref_count[x] <= 0)
  K    pinned slots (special slots, interface inputs, captured lines) are never freed
  M    every region ever handed out lies inside [0, max_size) and has the requested capacity max(c_caps_min, c_caps[x])
  pre  every Heap.alloc is called with a positive size, every Heap.free with a live chunk, each chunk is freed once
"""
import ast

import z3

from pyvc.engine import State, Model, NotInSubset, SymIter, ContractError
from pyvc.values import SInt, SBool, to_int, to_bool, is_sym, _conc_int
from pyvc.models_obj import SObj, IntArr, Table2
from pyvc.verify import Config, Target, Lemmas
from contracts.simops_c import PROD, OPS, CNT, cnt_step, IntList, Method

I = z3.IntSort()
WIT = z3.Function('WIT', I, I)
NOUTS = z3.Function('NOUTS', I, I)
NINS = z3.Function('NINS', I, I)
IN0 = z3.Function('IN0', I, I)


class SMaybeIdx(SInt):
    """an index-like object or None (a pin holding a Line or None): value < 0 encodes None"""
    __slots__ = ('is_none',)

    def __init__(self, e):
        super().__init__(e)
        self.is_none = SBool(e < 0)


class PinList(Model):
    def __init__(self, length, first):
        self.length, self.first = length, first

    def m_len(self, ex, st, node):
        return SInt(self.length)

    def m_getitem(self, ex, st, idx, node):
        if _conc_int(idx) != 0 or self.first is None:
            raise NotInSubset('pin list access other than ins[0]')
        ex.prove(st, 'no-exception:IndexError pin list', self.length > 0, node)
        return SMaybeIdx(self.first)


class SNode(Model):
    def __init__(self, i):
        self.i = i

    def m_getattr(self, ex, st, name, node):
        if name == 'outs':
            return PinList(NOUTS(self.i), None)
        if name == 'ins':
            return PinList(NINS(self.i), IN0(self.i))
        raise NotInSubset(f'node.{name}')


class SNodes(Model):
    def __init__(self, n):
        self.n = n

    def m_len(self, ex, st, node):
        return self.n

    def m_iter(self, ex, st, node):
        return SymIter(self.n, lambda ex_, st_, k: SNode(to_int(k)))


class OpsTable(Table2):
    """Table2 with row slices ``ops[a:b]`` (a, b symbolic, proved to lie inside the table)"""

    def m_getitem(self, ex, st, idx, node):
        if isinstance(idx, slice) and idx.step is None and idx.start is not None and idx.stop is not None:
            a, b_ = to_int(idx.start), to_int(idx.stop)
            ex.prove(st, 'slice-in-bounds:ops[a:b] with 0 <= a <= b <= len(ops)', z3.And(0 <= a, a <= b_, b_ <= to_int(self.nrows)), node)
            t = OpsTable(lambda r, c, a=a: self.fn(r + a, c), SInt(b_ - a), self.ncols)
            t.offset = a
            return t
        return super().m_getitem(ex, st, idx, node)

    def m_iter(self, ex, st, node):
        ex.g['ops_iter_offset'] = getattr(self, 'offset', z3.IntVal(0))
        return super().m_iter(ex, st, node)


class SetModel(Model):
    """Python set of ints: heap[(name,'mem')] characteristic function"""
    counter = 0

    def __init__(self, name):
        self.name = name

    def mem(self, st):
        return st.heap[(self.name, 'mem')]

    def m_getattr(self, ex, st, name, node):
        if name == 'add':
            def add(ex_, st_, args, kwargs, node_):
                st_.heap[(self.name, 'mem')] = z3.Store(self.mem(st_), to_int(args[0]), True)
            return Method(add)
        raise NotInSubset(f'set.{name}')

    def m_iter(self, ex, st, node):
        """iteration in an arbitrary order without repetition: ELEM(0..m-1) enumerates exactly the members (ghost inverse POS)"""
        n = next(ex.fresh)
        ELEM, POS = z3.Function(f'ELEM!{n}', I, I), z3.Function(f'POS!{n}', I, I)
        m = ex.fv('set_len', 'int')
        mem = self.mem(st)
        i, v = z3.Ints('si sv')
        st.assume(SBool(m.e >= 0))
        st.assume(SBool(z3.ForAll([i], z3.Implies(z3.And(0 <= i, i < m.e), z3.And(mem[ELEM(i)], POS(ELEM(i)) == i)))))
        st.assume(SBool(z3.ForAll([v], z3.Implies(mem[v], z3.And(0 <= POS(v), POS(v) < m.e, ELEM(POS(v)) == v)))))
        ex.g['set_iter'] = dict(ELEM=ELEM, POS=POS, m=m.e, mem=mem)
        return SymIter(m, lambda ex_, st_, k: SInt(ELEM(to_int(k))))


def abs_inv(live, size, cs, ms):
    x, y = z3.Ints('hx hy')
    return z3.And(ms >= cs, cs >= 0,
                  z3.ForAll([x], z3.Implies(live[x], z3.And(x >= 0, size[x] > 0, x + size[x] <= cs))),
                  z3.ForAll([x, y], z3.Implies(z3.And(live[x], live[y], x < y), x + size[x] <= y)))


class HeapModel(Model):
    """kyupy.sim.Heap seen through its contract (heap_c): abstract view live/size/current_size/max_size.
    AbsInv is the part of HeapInv that speaks about live chunks (positive sizes inside [0,current_size), pairwise disjoint,
    max_size >= current_size); HeapInv holds for Heap() and is re-established by alloc/free (proved in heap_c)."""

    def view(self, st):
        return st.heap[('H', 'live')], st.heap[('H', 'size')], to_int(st.heap[('H', 'cs')]), to_int(st.heap[('H', 'ms')])

    @staticmethod
    def new(ex, st):
        st.heap[('H', 'live')] = z3.K(I, z3.BoolVal(False))
        st.heap[('H', 'size')] = z3.K(I, z3.IntVal(0))
        st.heap[('H', 'cs')] = SInt(z3.IntVal(0))
        st.heap[('H', 'ms')] = SInt(z3.IntVal(0))
        ex.assumed.add('Heap.alloc / Heap.free / Heap() by their contracts (proved separately in heap_c for alloc and free; the constructor sets the empty heap)')
        return HeapModel()

    def m_getattr(self, ex, st, name, node):
        if name == 'max_size':
            return st.heap[('H', 'ms')]
        if name == 'alloc':
            return Method(self.alloc)
        if name == 'free':
            return Method(self.free)
        raise NotInSubset(f'Heap.{name}')

    def alloc(self, ex, st, args, kwargs, node):
        sz = to_int(args[0])
        ex.prove(st, 'requires Heap.alloc: size > 0', sz > 0, node)
        live0, size0, cs0, ms0 = self.view(st)
        r, cs1 = ex.fv('alloc_r', 'int').e, ex.fv('cs', 'int').e
        size1 = z3.Array(f'size!{next(ex.fresh)}', I, I)
        live1 = z3.Store(live0, r, True)
        ms1 = z3.If(ms0 > cs1, ms0, cs1)
        x = z3.Int('hx')
        st.assume(SBool(z3.And(r >= 0, z3.Not(live0[r]), size1[r] == sz, r + sz <= cs1,
                               z3.ForAll([x], z3.Implies(live0[x], z3.And(size1[x] == size0[x], z3.Or(x + size0[x] <= r, r + sz <= x)))),
                               abs_inv(live1, size1, cs1, ms1))))
        st.heap[('H', 'live')], st.heap[('H', 'size')], st.heap[('H', 'cs')], st.heap[('H', 'ms')] = live1, size1, SInt(cs1), SInt(ms1)
        return SInt(r)

    def free(self, ex, st, args, kwargs, node):
        loc = to_int(args[0])
        live0, size0, cs0, ms0 = self.view(st)
        ex.prove(st, 'requires Heap.free: loc is a live chunk (no double free, no free of an unallocated location)', live0[loc], node)
        cs1 = ex.fv('cs', 'int').e
        size1 = z3.Array(f'size!{next(ex.fresh)}', I, I)
        live1 = z3.Store(live0, loc, False)
        x = z3.Int('hx')
        st.assume(SBool(z3.And(z3.ForAll([x], z3.Implies(z3.And(live0[x], x != loc), size1[x] == size0[x])), abs_inv(live1, size1, cs1, ms0))))
        st.heap[('H', 'live')], st.heap[('H', 'size')], st.heap[('H', 'cs')] = live1, size1, SInt(cs1)
        # ghost: every slot mapped to this location is now freed
        f0 = st.heap['FREED']
        f1 = z3.Array(f'FREED!{next(ex.fresh)}', I, z3.BoolSort())
        cl = st.heap[ex.g['c_locs_key']]
        st.assume(SBool(z3.ForAll([x], f1[x] == z3.Or(f0[x], cl[x] == loc))))
        st.heap['FREED'] = f1
        return None


def prims(globs):
    np = globs['np']

    def full(ex, st, args, kwargs, node):
        shape, val = args[0], args[1]
        if not (isinstance(shape, tuple) and len(shape) == 1) or kwargs.get('dtype') not in ('int32', np.int32):
            raise NotInSubset('np.full shape/dtype')
        nm = f'full{next(ex.fresh)}'
        st.heap[nm] = z3.K(I, to_int(val))
        return IntArr(nm, length=shape[0], writable=True)

    def zeros(ex, st, args, kwargs, node):
        shape = args[0]
        if isinstance(shape, tuple) and len(shape) == 1:
            shape = shape[0]
        if isinstance(shape, tuple) or kwargs.get('dtype') not in ('int32', np.int32):
            raise NotInSubset('np.zeros shape/dtype')
        nm = f'zeros{next(ex.fresh)}'
        st.heap[nm] = z3.K(I, z3.IntVal(0))
        return IntArr(nm, length=shape, writable=True)

    def mkset(ex, st, args, kwargs, node):
        if args:
            raise NotInSubset('set(iterable)')
        SetModel.counter += 1
        s = SetModel(f'set{SetModel.counter}')
        st.heap[(s.name, 'mem')] = z3.K(I, z3.BoolVal(False))
        return s

    def mkheap(ex, st, args, kwargs, node):
        return HeapModel.new(ex, st)
    return {np.full: full, np.zeros: zeros, set: mkset, globs['Heap']: mkheap}


def phase(stmts):
    """from the assignment of ``self.c_locs`` to the assignment of ``self.c_len``"""
    a = b_ = None
    for i, s in enumerate(stmts):
        if isinstance(s, ast.Assign) and len(s.targets) == 1 and isinstance(s.targets[0], ast.Attribute) and s.targets[0].attr == 'c_locs' and a is None:
            a = i
        if a is not None and b_ is None and isinstance(s, ast.Assign) and len(s.targets) == 1 and isinstance(s.targets[0], ast.Attribute) and s.targets[0].attr == 'c_len':
            b_ = i + 1
    if a is None or b_ is None:
        raise ContractError('allocation phase not found in SimOps.__init__')
    return a, b_


def alloc_config(reuse):
    def setup(ex):
        st = State()
        n, nlines, s_len = ex.fv('n_ops', 'int').e, ex.fv('n_lines', 'int').e, ex.fv('s_len', 'int').e
        zero, tmp, tmp2, ppi, ppo = nlines, nlines + 1, nlines + 2, nlines + 3, nlines + 3 + s_len
        nlocs = ppo + s_len
        cmin = ex.fv('c_caps_min', 'int')
        st.assume(SBool(z3.And(n >= 0, nlines >= 0, s_len >= 0, cmin.e >= 1)))
        stems = IntArr.new(ex, st, 'stems', length=SInt(nlocs))
        S = st.heap['stems']
        res = lambda x: z3.If(S[x] >= 0, S[x], x)
        j, x, l, i = z3.Ints('j x l i')
        inr = z3.And(0 <= j, j < n)
        req = []
        for c in range(2, 6):
            req.append(z3.ForAll([j], z3.Implies(inr, z3.And(OPS(j, c) >= 0, OPS(j, c) < nlocs))))
            # operands (stem-resolved) are never scratch or interface-output slots; TopoOps; sources are pre-allocated slots
            xo = res(OPS(j, c))
            req.append(z3.ForAll([j], z3.Implies(inr, z3.And(xo != tmp, xo != tmp2, xo < ppo, PROD(xo) < j, PROD(xo) >= -1,
                                                             z3.Implies(PROD(xo) == -1, z3.Or(xo == zero, z3.And(xo >= ppi, NOUTS(xo - ppi) > 0)))))))
        req.append(z3.ForAll([j], z3.Implies(inr, z3.Or(z3.And(OPS(j, 1) >= 0, OPS(j, 1) < nlines), OPS(j, 1) == tmp))))
        req.append(z3.ForAll([x], z3.Implies(z3.And(0 <= x, x < nlocs), z3.And(S[x] >= -1, S[x] < nlines))))
        # a stripped fan-out branch is a line without producer whose stem is a real stem
        req.append(z3.ForAll([x], z3.Implies(z3.And(0 <= x, x < nlocs, S[x] >= 0), z3.And(x < nlines, S[S[x]] == -1, PROD(x) == -1))))
        req.append(z3.ForAll([j], z3.Implies(z3.And(inr, OPS(j, 1) != tmp), PROD(OPS(j, 1)) == j)))
        req.append(z3.ForAll([x], z3.Or(PROD(x) == -1, z3.And(PROD(x) >= 0, PROD(x) < n, OPS(PROD(x), 1) == x, x != tmp))))
        req.append(z3.ForAll([i], z3.And(NOUTS(i) >= 0, NINS(i) >= 0, IN0(i) >= -1, IN0(i) < nlines)))
        # level partition (S1 of the levelisation contract)
        ls, lt = IntList('level_starts'), IntList('level_stops')
        L, T = z3.Array('L', I, I), z3.Array('T', I, I)
        ln = ex.fv('n_levels', 'int').e
        st.heap[('level_starts', 'arr')], st.heap[('level_starts', 'len')] = L, SInt(ln)
        st.heap[('level_stops', 'arr')], st.heap[('level_stops', 'len')] = T, SInt(ln)
        ex.readonly.update({('level_starts', 'arr'), ('level_starts', 'len'), ('level_stops', 'arr'), ('level_stops', 'len')})
        req.append(z3.And(ln >= 1, L[0] == 0, T[ln - 1] == n))
        req.append(z3.ForAll([l], z3.Implies(z3.And(0 <= l, l < ln - 1), z3.And(T[l] == L[l + 1], L[l] < L[l + 1]))))
        req.append(z3.ForAll([l], z3.Implies(z3.And(0 <= l, l < ln), z3.And(L[l] >= 0, L[l] <= n))))
        # reference counts after levelisation; CNT base + monotonicity (induction lemma, proved separately)
        rc = IntArr.new(ex, st, 'ref_count', length=SInt(nlocs), writable=True)
        k1, k2 = z3.Ints('k1 k2')
        req.append(z3.ForAll([x], z3.Implies(z3.And(0 <= x, x < nlocs), st.heap['ref_count'][x] == CNT(x, n))))
        req.append(z3.ForAll([x], CNT(x, 0) == 0))
        req.append(z3.ForAll([x, k1, k2], z3.Implies(z3.And(0 <= k1, k1 <= k2, k2 <= n), CNT(x, k1) <= CNT(x, k2))))
        for r in req:
            st.assume(SBool(r))
        ccaps = IntArr.new(ex, st, 'c_caps_param', length=SInt(nlines + 3))
        ops = OpsTable(OPS, SInt(n), 9)
        selfo = SObj.new(st, 'self', ops=ops, c_locs_len=SInt(nlocs), zero_idx=SInt(zero), tmp_idx=SInt(tmp), tmp2_idx=SInt(tmp2),
                         ppi_offset=SInt(ppi), ppo_offset=SInt(ppo), level_starts=ls, level_stops=lt, s_len=SInt(s_len))
        n_io = ex.fv('n_io', 'int')
        st.assume(SBool(z3.And(n_io.e >= 0, n_io.e <= s_len)))
        circuit = SObj.new(st, 'circuit', s_nodes=SNodes(SInt(s_len)), io_nodes=SNodes(n_io))
        ex.readonly.add(('circuit', 'io_nodes'))
        ex.readonly.update({('self', f) for f in ('ops', 'c_locs_len', 'zero_idx', 'tmp_idx', 'tmp2_idx', 'ppi_offset', 'ppo_offset', 'level_starts', 'level_stops', 's_len')})
        ex.readonly.add(('circuit', 's_nodes'))
        st.heap['FREED'] = z3.K(I, z3.BoolVal(False))
        st.env.update(self=selfo, circuit=circuit, stems=stems, ref_count=rc, c_caps=ccaps, c_caps_min=cmin, c_reuse=reuse,
                      np=ex.globs['np'], Heap=ex.globs['Heap'])
        spec = lambda x_: z3.Or(x_ == zero, x_ == tmp, x_ == tmp2)
        capt = lambda x_: z3.And(0 <= WIT(x_), WIT(x_) < s_len, NINS(WIT(x_)) > 0, IN0(WIT(x_)) >= 0, res(IN0(WIT(x_))) == x_)
        ex.g = dict(n=n, nlines=nlines, s_len=s_len, zero=zero, tmp=tmp, tmp2=tmp2, ppi=ppi, ppo=ppo, nlocs=nlocs, res=res, L=L, T=T, ln=ln, S=S, n_io=n_io.e,
                    spec=spec, capt=capt, cmin=cmin.e, CP=st.heap['c_caps_param'])
        return st

    def arrays(ex, st):
        e = st.env
        selfo = e['self']
        cl, cc = st.heap.get(('self', 'c_locs')), st.heap.get(('self', 'c_caps'))
        if not isinstance(cl, IntArr) or not isinstance(cc, IntArr) or not isinstance(e.get('ref_count'), IntArr) or not isinstance(e.get('h'), HeapModel):
            return None
        ex.g['c_locs_key'] = cl.name
        return st.heap[cl.name], st.heap[cc.name], st.heap[e['ref_count'].name]

    def pinned(g, x, upto=None):
        """pin(x) as an integer lower bound on the extra references; ``upto``: only interface nodes < upto have been processed"""
        ppi_ok = z3.And(x >= g['ppi'], x < g['ppo'], NOUTS(x - g['ppi']) > 0)
        cap = g['capt'](x)
        if upto is not None:
            ppi_ok = z3.And(ppi_ok, x - g['ppi'] < upto)
            cap = z3.And(cap, WIT(x) < upto)
        return z3.If(z3.Or(g['spec'](x), ppi_ok, cap), 1, 0)

    def core_inv(ex, st, k, fs=None, pins_upto=None):
        """invariant shared by all loops; k: ops [0,k) have been allocated; fs: characteristic function of free_set (inner loops)"""
        g = ex.g
        arrs = arrays(ex, st)
        if arrs is None:
            yield 'c_locs, c_caps, ref_count are arrays and h is the heap', False
            return
        CL, CC, RC = arrs
        live, size, cs, ms = st.env['h'].view(st)
        FR = st.heap['FREED']
        x, y = z3.Ints('x y')
        inx = z3.And(0 <= x, x < g['nlocs'])
        iny = z3.And(0 <= y, y < g['nlocs'])
        al = lambda v: z3.And(CL[v] >= 0, z3.Not(FR[v]))
        yield 'H:abstract heap invariant', SBool(abs_inv(live, size, cs, ms))
        yield 'L1:every allocated, not-freed slot owns a live chunk of its capacity', \
            SBool(z3.ForAll([x], z3.Implies(z3.And(inx, al(x)), z3.And(live[CL[x]], size[CL[x]] == CC[x]))))
        yield 'L2:distinct allocated, not-freed slots own distinct chunks', \
            SBool(z3.ForAll([x, y], z3.Implies(z3.And(inx, iny, x != y, al(x), al(y)), CL[x] != CL[y])))
        yield 'D:distinct allocated, not-freed slots have disjoint regions', \
            SBool(z3.ForAll([x, y], z3.Implies(z3.And(inx, iny, x != y, al(x), al(y)), z3.Or(CL[x] + CC[x] <= CL[y], CL[y] + CC[y] <= CL[x]))))
        ppi_alloc = z3.And(x >= g['ppi'], x < g['ppo'], NOUTS(x - g['ppi']) > 0)
        if pins_upto is not None:
            ppi_alloc = z3.And(ppi_alloc, x - g['ppi'] < pins_upto)
        yield 'P:a slot is allocated iff it is special, an interface input with outputs, or a line whose producer has been passed', \
            SBool(z3.ForAll([x], z3.Implies(inx, (CL[x] >= 0) == z3.Or(g['spec'](x), ppi_alloc, z3.And(x < g['nlines'], PROD(x) >= 0, PROD(x) < k)))))
        yield 'P2:unallocated entries hold -1', SBool(z3.ForAll([x], z3.Implies(inx, CL[x] >= -1)))
        yield 'R:ref_count[x] >= remaining references + pin(x)', \
            SBool(z3.ForAll([x], z3.Implies(inx, RC[x] >= CNT(x, g['n']) - CNT(x, k) + pinned(g, x, pins_upto))))
        yield 'F:a freed slot was allocated and its reference count is exhausted', \
            SBool(z3.ForAll([x], z3.Implies(z3.And(inx, FR[x]), z3.And(RC[x] <= 0, CL[x] >= 0))))
        yield 'M:every region handed out lies inside [0, max_size) and has a positive capacity', \
            SBool(z3.ForAll([x], z3.Implies(z3.And(inx, CL[x] >= 0), z3.And(CC[x] >= 1, CL[x] + CC[x] <= ms))))
        yield 'C:capacity of an allocated slot is at least c_caps_min, and at least the requested c_caps[x] for a line', \
            SBool(z3.ForAll([x], z3.Implies(z3.And(inx, CL[x] >= 0), z3.And(CC[x] >= g['cmin'], z3.Implies(x < g['nlines'], CC[x] >= g['CP'][x])))))
        if reuse is False:
            yield 'N:without c_reuse nothing is freed', SBool(z3.ForAll([x], z3.Not(FR[x])))
        if fs is not None:
            v = z3.Int('v')
            yield 'FS1:every member of free_set is a live chunk', SBool(z3.ForAll([v], z3.Implies(fs[v], live[v])))
            yield 'FS2:the owner of a member of free_set has an exhausted reference count', \
                SBool(z3.ForAll([x], z3.Implies(z3.And(inx, al(x), fs[CL[x]]), RC[x] <= 0)))

    def pins_inv(ex, st):
        i = to_int(st.env['__k0'])
        yield from core_inv(ex, st, z3.IntVal(0), pins_upto=i)

    def level_k(g, l):
        return z3.If(l < g['ln'], g['L'][l], g['n'])

    def outer_inv(ex, st):
        g = ex.g
        l = to_int(st.env['__k1'])
        yield from core_inv(ex, st, level_k(g, l))

    def cur_k(ex, st):
        g = ex.g
        l = to_int(st.env['__k1'])
        return g['L'][l] + to_int(st.env['__k2'])

    def inner_inv(ex, st):
        g = ex.g
        fsm = st.env.get('free_set')
        if not isinstance(fsm, SetModel):
            yield 'free_set is a set', False
            return
        l = to_int(st.env['__k1'])
        yield 'level index in range', SBool(z3.And(0 <= l, l < g['ln']))
        yield from core_inv(ex, st, cur_k(ex, st), fs=fsm.mem(st))

    def inner_assume(ex, st):
        g = ex.g
        k = cur_k(ex, st)
        st.assume(SBool(cnt_step(g['res'], k)))
        # A2: operands live when read (proved, then available to the rest of the iteration)
        arrs = arrays(ex, st)
        if arrs is None:
            return
        CL, CC, RC = arrs
        FR = st.heap['FREED']
        for c in range(2, 6):
            xo = g['res'](OPS(k, c))
            ex.prove(st, f'A2:operand {c - 2} of the op is allocated and not freed when the op is reached', SBool(z3.And(CL[xo] >= 0, z3.Not(FR[xo]))), ex.fn)

    def free_inv(ex, st):
        g = ex.g
        si = g.get('set_iter')
        if si is None:
            yield 'iteration over free_set', False
            return
        i = to_int(st.env['__k3'])
        l = to_int(st.env['__k1'])
        live = st.heap[('H', 'live')]
        v = z3.Int('v')
        yield 'level index in range', SBool(z3.And(0 <= l, l < g['ln']))
        yield 'FS3:members of free_set not yet visited are still live', \
            SBool(z3.ForAll([v], z3.Implies(z3.And(si['mem'][v], si['POS'](v) >= i), live[v])))
        arrs = arrays(ex, st)
        if arrs is not None:
            CL, CC, RC = arrs
            FR = st.heap['FREED']
            x = z3.Int('x')
            yield 'FS2:the owner of a member of free_set has an exhausted reference count', \
                SBool(z3.ForAll([x], z3.Implies(z3.And(0 <= x, x < g['nlocs'], CL[x] >= 0, z3.Not(FR[x]), si['mem'][CL[x]]), RC[x] <= 0)))
        yield from core_inv(ex, st, level_k(g, l + 1))

    def snap(ex, st, idx, key):
        """snapshot of c_locs / c_caps at loop entry (the invariant is first evaluated on the pre-state with a concrete index 0)"""
        arrs = arrays(ex, st)
        if arrs is None:
            return None
        if _conc_int(st.env[idx]) == 0 and not is_sym(st.env[idx]):
            ex.g[key] = (arrs[0], arrs[1])
            cl, cc = st.heap[('self', 'c_locs')], st.heap[('self', 'c_caps')]
            contract['loops'][int(idx[3:])]['modifies'] = [cl.name, cc.name]
        return arrs

    def stems_inv(ex, st):
        g = ex.g
        arrs = snap(ex, st, '__k4', 'snap4')
        if arrs is None:
            yield 'c_locs, c_caps are arrays', False
            return
        CL, CC, _ = arrs
        CL0, CC0 = g['snap4']
        i = to_int(st.env['__k4'])
        x = z3.Int('x')
        S = g['S']
        inx = z3.And(0 <= x, x < g['nlocs'])
        yield 'ST:branches passed so far alias their stems, everything else is unchanged', \
            SBool(z3.ForAll([x], z3.Implies(inx, z3.And(CL[x] == z3.If(z3.And(x < i, S[x] >= 0), CL0[S[x]], CL0[x]),
                                                        CC[x] == z3.If(z3.And(x < i, S[x] >= 0), CC0[S[x]], CC0[x])))))

    def po_value(g, A1, x):
        i = x - g['ppo']
        return z3.If(z3.And(NINS(i) > 0, IN0(i) >= 0), A1[IN0(i)], z3.If(i >= g['n_io'], A1[g['zero']], A1[x]))

    def po_inv(ex, st):
        g = ex.g
        arrs = snap(ex, st, '__k5', 'snap5')
        if arrs is None:
            yield 'c_locs, c_caps are arrays', False
            return
        CL, CC, _ = arrs
        CL1, CC1 = g['snap5']
        i = to_int(st.env['__k5'])
        x = z3.Int('x')
        inx = z3.And(0 <= x, x < g['nlocs'])
        done = z3.And(x >= g['ppo'], x < g['ppo'] + i)
        yield 'PO:interface output slots passed so far alias the captured line (or the zero slot), everything else is unchanged', \
            SBool(z3.ForAll([x], z3.Implies(inx, z3.And(CL[x] == z3.If(done, po_value(g, CL1, x), CL1[x]), CC[x] == z3.If(done, po_value(g, CC1, x), CC1[x])))))

    def post(ex, st):
        g = ex.g
        arrs = arrays(ex, st)
        if arrs is None:
            yield 'c_locs, c_caps, ref_count are arrays and h is the heap', False
            return
        CL, CC, RC = arrs
        FR = st.heap['FREED']
        live, size, cs, ms = st.env['h'].view(st)
        x, y, i = z3.Ints('x y i')
        S = g['S']
        inx = z3.And(0 <= x, x < g['ppo'], S[x] == -1)        # owner slots: not a stripped branch, not an interface output slot
        iny = z3.And(0 <= y, y < g['ppo'], S[y] == -1)
        al = lambda v: z3.And(CL[v] >= 0, z3.Not(FR[v]))
        try:
            c_len = to_int(st.heap[('self', 'c_len')])
        except KeyError:
            yield 'self.c_len is assigned', False
            return
        yield 'D:distinct allocated, not-freed owner slots have disjoint regions', \
            SBool(z3.ForAll([x, y], z3.Implies(z3.And(inx, iny, x != y, al(x), al(y)), z3.Or(CL[x] + CC[x] <= CL[y], CL[y] + CC[y] <= CL[x]))))
        yield 'M3:a stripped fan-out branch is aliased exactly to its stem', \
            SBool(z3.ForAll([x], z3.Implies(z3.And(0 <= x, x < g['nlocs'], S[x] >= 0), z3.And(CL[x] == CL[S[x]], CC[x] == CC[S[x]]))))
        yield 'M3:every interface output slot is aliased exactly to the line it captures; state elements with unconnected data pin to the zero slot', \
            SBool(z3.ForAll([i], z3.Implies(z3.And(0 <= i, i < g['s_len']),
                                            z3.And(z3.Implies(z3.And(NINS(i) > 0, IN0(i) >= 0), z3.And(CL[g['ppo'] + i] == CL[IN0(i)], CC[g['ppo'] + i] == CC[IN0(i)],
                                                                                                      CL[g['ppo'] + i] == CL[g['res'](IN0(i))])),
                                                   z3.Implies(z3.And(z3.Not(z3.And(NINS(i) > 0, IN0(i) >= 0)), i >= g['n_io']), CL[g['ppo'] + i] == CL[g['zero']])))))
        yield 'M:c_len is the high-water mark and every mapped region (owners and aliases) lies inside [0, c_len)', \
            SBool(z3.And(c_len == ms, z3.ForAll([x], z3.Implies(z3.And(0 <= x, x < g['nlocs'], CL[x] >= 0), z3.And(CC[x] >= 1, CL[x] + CC[x] <= c_len)))))
        yield 'K:pinned slots (special, interface inputs with outputs, captured lines) are allocated or unproduced, and never freed', \
            SBool(z3.ForAll([x], z3.Implies(z3.And(inx, pinned(g, x) == 1), z3.Not(FR[x]))))
        yield 'F:a freed slot has no references left (CNT(x,n) = CNT(x,n)) and is not pinned', \
            SBool(z3.ForAll([x], z3.Implies(z3.And(inx, FR[x]), pinned(g, x) == 0)))
        yield 'P:every line with a producer, every special slot and every interface input with outputs is allocated', \
            SBool(z3.ForAll([x], z3.Implies(inx, (CL[x] >= 0) == z3.Or(g['spec'](x), z3.And(x >= g['ppi'], x < g['ppo'], NOUTS(x - g['ppi']) > 0),
                                                                              z3.And(x < g['nlines'], PROD(x) >= 0)))))
        if reuse is False:
            yield 'without c_reuse nothing is ever freed', SBool(z3.ForAll([x], z3.Not(FR[x])))
        ex.prove(st, 'mustfail:no slot is ever allocated', SBool(z3.ForAll([x], CL[x] < 0)), ex.fn, expect='refuted')
        if reuse is True:
            ex.prove(st, 'mustfail:nothing is ever freed', SBool(z3.ForAll([x], z3.Not(FR[x]))), ex.fn, expect='refuted')

    mods = None
    contract = {'post': post, 'merge_ifs': True,
                'loop_match': {0: ('s_nodes', 0), 1: ('zip(', 0), 2: ('self.ops[', 0), 3: ('free_set', 0), 4: ('enumerate(stems)', 0), 5: ('s_nodes', 1)},
                'loops': {0: {'inv': pins_inv, 'kinds': {'n': 'keep', 'i0_idx': 'int'}},
                          1: {'inv': outer_inv, 'kinds': {'op': 'keep'}},
                          2: {'inv': inner_inv, 'assume': inner_assume, 'kinds': {'op': 'keep'}},
                          3: {'inv': free_inv},
                          4: {'inv': stems_inv},
                          5: {'inv': po_inv, 'kinds': {'n': 'keep'}}}}
    return Config(f'any op table / level partition / interface, c_reuse={reuse}', contract, setup, None)


def cnt_lemmas():
    """monotonicity of CNT by induction on k2 (base and step are quantifier-light obligations)"""
    def build():
        S = z3.Array('stemsL', I, I)
        res = lambda x: z3.If(S[x] >= 0, S[x], x)
        x, k1, k2, n = z3.Ints('x k1 k2 n')
        step_ax = cnt_step(res, k2)
        # base: k1 = k2
        yield 'CNT-mono base: CNT(x,k) <= CNT(x,k)', [], CNT(x, k1) <= CNT(x, k1)
        # step: CNT(x,k1) <= CNT(x,k2) and the recurrence at k2  |-  CNT(x,k1) <= CNT(x,k2+1)
        yield 'CNT-mono step', [step_ax, CNT(x, k1) <= CNT(x, k2)], CNT(x, k1) <= CNT(x, k2 + 1)
        yield 'CNT step counts an operand at least once', [step_ax, res(OPS(k2, 3)) == x], CNT(x, k2 + 1) >= CNT(x, k2) + 1
        yield 'mustfail:CNT is constant', [step_ax], CNT(x, k2 + 1) == CNT(x, k2), 'refuted'
    return Lemmas('lemma:CNT monotone in k (induction on the upper index)', build,
                  note='justifies the assumed clause forall x, k1 <= k2: CNT(x,k1) <= CNT(x,k2) of the allocation-phase contract')


def targets():
    return [Target('sim', 'SimOps.__init__', [alloc_config(False), alloc_config(True)], prims=prims, instantiate='fallback', body_slice=phase,
                   label='allocation phase', note='statements from `self.c_locs = np.full(..)` to the end of the level-wise allocation loop; Heap by contract'),
            cnt_lemmas()]
