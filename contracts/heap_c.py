"""Contract of kyupy.sim.Heap (C08): representation invariant HeapInv + abstract view ``live = dom(chunks) \\ released``."""
import z3

from pyvc.engine import State, NotInSubset
from pyvc.values import SInt, SBool, to_int
from pyvc.models_obj import SObj
from pyvc.models_coll import SDict, SList, bisect_prims, sorted_strict
from pyvc.verify import Config, Target

I = z3.IntSort()


def view(st):
    return dict(dom=st.heap[('chunks', 'dom')], size=st.heap[('chunks', 'val')], rel=st.heap[('released', 'arr')],
                mem=st.heap[('released', 'mem')], pos=st.heap[('released', 'pos')],
                rlen=to_int(st.heap[('released', 'len')]), cs=to_int(st.heap[('self', 'current_size')]),
                ms=to_int(st.heap[('self', 'max_size')]))


def heap_inv(s):
    dom, size, rel, rlen, cs, ms = s['dom'], s['size'], s['rel'], s['rlen'], s['cs'], s['ms']
    mem, pos = s['mem'], s['pos']
    k, k2, i, j = z3.Ints('hk hk2 hi hj')
    return [
        ('ghost G1: every released entry is a member, at its index', z3.ForAll([i], z3.Implies(z3.And(0 <= i, i < rlen), z3.And(mem[rel[i]], pos[rel[i]] == i)))),
        ('ghost G2: every member occurs in released', z3.ForAll([k], z3.Implies(mem[k], z3.And(0 <= pos[k], pos[k] < rlen, rel[pos[k]] == k)))),
        ('sizes and bounds', z3.And(cs >= 0, ms >= cs, rlen >= 0)),
        ('every chunk has positive size and lies inside [0,current_size)', z3.ForAll([k], z3.Implies(dom[k], z3.And(k >= 0, size[k] > 0, k + size[k] <= cs)))),
        ('chunks do not overlap', z3.ForAll([k, k2], z3.Implies(z3.And(dom[k], dom[k2], k < k2), k + size[k] <= k2))),
        ('chunks tile: every chunk ends at current_size or at the start of another chunk', z3.ForAll([k], z3.Implies(dom[k], z3.Or(k + size[k] == cs, dom[k + size[k]])))),
        ('chunks tile: a non-empty heap has a chunk at 0', z3.Implies(cs > 0, dom[0])),
        ('released entries are chunks', z3.ForAll([i], z3.Implies(z3.And(0 <= i, i < rlen), dom[rel[i]]))),
        ('released is strictly sorted', z3.ForAll([i, j], z3.Implies(z3.And(0 <= i, i < j, j < rlen), rel[i] < rel[j]))),
        ('no free chunk at the end of the managed range (tail trimmed)', z3.ForAll([i], z3.Implies(z3.And(0 <= i, i < rlen), rel[i] + size[rel[i]] != cs))),
        ('adjacent free chunks are coalesced', z3.ForAll([i, j], z3.Implies(z3.And(0 <= i, i < rlen, 0 <= j, j < rlen), rel[i] + size[rel[i]] != rel[j]))),
    ]


def live(s, x):
    """x is a chunk and not in the free list (membership through the ghost characteristic function, tied to the list by G1/G2)"""
    return z3.And(s['dom'][x], z3.Not(s['mem'][x]))


def make_state(ex):
    st = State()
    chunks = SDict.new(ex, st, 'chunks')
    released = SList.new(ex, st, 'released')
    cs, ms = ex.fv('current_size', 'int'), ex.fv('max_size', 'int')
    selfo = SObj.new(st, 'self', chunks=chunks, released=released, current_size=cs, max_size=ms)
    st.env['self'] = selfo
    for nm, c in heap_inv(view(st)):
        st.assume(SBool(c))
    return st


def alloc_config():
    def setup(ex):
        st = make_state(ex)
        size = ex.fv('size', 'int')
        st.assume(size > 0)
        st.env['size'] = size
        ex.size = size
        return st

    def inv(ex, st):
        return []

    def post(ex, st):
        s0, s1 = view(ex.st0), view(st)
        r = to_int(st.ret)
        sz = to_int(ex.size)
        for nm, c in heap_inv(s1):
            yield 'HeapInv: ' + nm, SBool(c)
        x = z3.Int('hx')
        yield 'result is a live chunk of the requested size', SBool(z3.And(live(s1, r), s1['size'][r] == sz))
        yield 'result was not live before', SBool(z3.Not(live(s0, r)))
        yield 'live view grows by exactly the result', SBool(z3.ForAll([x], z3.Implies(x != r, live(s1, x) == live(s0, x))))
        yield 'sizes of previously live chunks unchanged', SBool(z3.ForAll([x], z3.Implies(live(s0, x), s1['size'][x] == s0['size'][x])))
        yield 'result region is disjoint from every previously live chunk', \
            SBool(z3.ForAll([x], z3.Implies(live(s0, x), z3.Or(x + s0['size'][x] <= r, r + sz <= x))))
        yield 'result region lies inside the managed range', SBool(z3.And(r >= 0, r + sz <= s1['cs']))
        yield 'max_size is the high-water mark', SBool(s1['ms'] == z3.If(s0['ms'] > s1['cs'], s0['ms'], s1['cs']))
        ex.prove(st, 'mustfail:the result was already live', SBool(live(s0, r)), ex.fn, expect='refuted')

    def replay(model, obl, ex):
        return heap_replay(model, ex, 'alloc')
    return Config('alloc', {'post': post, 'loops': {0: {'inv': inv, 'modifies': []}}}, setup, replay, finite=heap_finite)


def free_config():
    def setup(ex):
        st = make_state(ex)
        loc = ex.fv('loc', 'int')
        st.assume(SBool(live(view(st), loc.e)))        # requires: loc is a live chunk
        st.env['loc'] = loc
        ex.loc = loc
        return st

    def post(ex, st):
        s0, s1 = view(ex.st0), view(st)
        loc = to_int(ex.loc)
        for nm, c in heap_inv(s1):
            yield 'HeapInv: ' + nm, SBool(c)
        x = z3.Int('hx')
        yield 'freed chunk is no longer live', SBool(z3.Not(live(s1, loc)))
        yield 'live view shrinks by exactly loc', SBool(z3.ForAll([x], z3.Implies(x != loc, live(s1, x) == live(s0, x))))
        yield 'sizes of the other live chunks unchanged', SBool(z3.ForAll([x], z3.Implies(z3.And(live(s0, x), x != loc), s1['size'][x] == s0['size'][x])))
        yield 'max_size unchanged', SBool(s1['ms'] == s0['ms'])
        ex.prove(st, 'mustfail:the freed chunk stays live', SBool(live(s1, loc)), ex.fn, expect='refuted')

    def replay(model, obl, ex):
        return heap_replay(model, ex, 'free')
    return Config('free', {'post': post}, setup, replay, finite=heap_finite)


def init_config():
    """Heap(): establishes HeapInv with an empty live view (base case of the induction over alloc/free histories)"""
    def setup(ex):
        st = State()
        st.env['self'] = SObj.new(st, 'self')
        return st

    def post(ex, st):
        try:
            s1 = view(st)
        except KeyError:
            yield 'chunks, released, current_size, max_size are initialised', False
            return
        for nm, c in heap_inv(s1):
            yield 'HeapInv: ' + nm, SBool(c)
        x = z3.Int('hx')
        yield 'no chunk is live, sizes are zero', SBool(z3.And(z3.ForAll([x], z3.Not(live(s1, x))), s1['cs'] == 0, s1['ms'] == 0))
    return Config('constructor', {'post': post}, setup, None)


def init_prims(globs):
    def mkdict(ex, st, args, kwargs, node):
        if args or kwargs:
            raise NotInSubset('dict(...) with arguments')
        st.heap[('chunks', 'dom')] = z3.K(I, z3.BoolVal(False))
        st.heap[('chunks', 'val')] = z3.K(I, z3.IntVal(0))
        return SDict('chunks')

    def mklist(ex, st, args, kwargs, node):
        if args or kwargs:
            raise NotInSubset('list(...) with arguments')
        st.heap[('released', 'arr')] = z3.K(I, z3.IntVal(0))
        st.heap[('released', 'len')] = SInt(z3.IntVal(0))
        st.heap[('released', 'mem')] = z3.K(I, z3.BoolVal(False))
        st.heap[('released', 'pos')] = z3.K(I, z3.IntVal(0))
        return SList('released')
    return {dict: mkdict, list: mklist}


def heap_finite(ex):
    s0 = view(ex.st0)
    extra = [s0['cs'] <= 10, s0['rlen'] <= 4]
    for i in range(4):
        extra.append(z3.Implies(i < s0['rlen'], z3.And(s0['rel'][i] >= 0, s0['rel'][i] <= 10)))
    if hasattr(ex, 'loc'):
        extra.append(z3.And(to_int(ex.loc) >= 0, to_int(ex.loc) <= 10))
    if hasattr(ex, 'size'):
        extra.append(z3.And(to_int(ex.size) >= 1, to_int(ex.size) <= 10))
    return -1, 11, extra


def heap_replay(model, ex, call):
    """concretise the model's pre-state into a public-API history: allocate every chunk in address order, free the released
    ones (in an order that cannot coalesce because HeapInv forbids adjacent free chunks), then run the failing call"""
    s0 = view(ex.st0)
    ev = lambda e: model.eval(e, model_completion=True)
    cs = ev(s0['cs']).as_long()
    if cs > 400:
        return None
    chunks = []
    pos = 0
    while pos < cs:
        if not z3.is_true(ev(s0['dom'][pos])):
            return None
        sz = ev(s0['size'][pos]).as_long()
        if sz <= 0:
            return None
        chunks.append((pos, sz))
        pos += sz
    rlen = ev(s0['rlen']).as_long()
    rel = [ev(s0['rel'][i]).as_long() for i in range(min(rlen, 200))]
    args = {'chunks': chunks, 'released': rel, 'call': call}
    if call == 'alloc':
        args['size'] = ev(to_int(ex.size)).as_long()
    else:
        args['loc'] = ev(to_int(ex.loc)).as_long()
    return 'contracts.heap_c:run_heap', args


def run_heap(args):
    from kyupy.sim import Heap
    from bounded.heap_drv import heap_inv as conc_inv
    h = Heap()
    live = {}
    for loc, sz in args['chunks']:
        got = h.alloc(sz)
        if got != loc:
            return {'reproduced': False, 'note': f'could not rebuild the pre-state (alloc returned {got}, wanted {loc})'}
        live[loc] = sz
    hwm = h.max_size
    for r in args['released']:
        h.free(r)
        live.pop(r, None)
    pre = {'chunks': dict(h.chunks), 'released': list(h.released), 'current_size': h.current_size, 'max_size': h.max_size}
    if sorted(h.released) != sorted(args['released']):
        return {'reproduced': False, 'note': 'pre-state of the model is not reachable through the public API', 'pre': pre}
    try:
        if args['call'] == 'alloc':
            loc = h.alloc(args['size'])
            for l, s in live.items():
                if loc < l + s and l < loc + args['size']:
                    return {'reproduced': True, 'pre': pre, 'observed': f'alloc({args["size"]}) returned {loc}, overlapping live chunk ({l},{s})'}
            live[loc] = args['size']
            hwm = max(hwm, h.current_size)
        else:
            if args['loc'] not in live:
                return {'reproduced': False, 'note': 'loc not live in rebuilt state'}
            h.free(args['loc'])
            del live[args['loc']]
    except Exception as e:  # noqa
        return {'reproduced': True, 'pre': pre, 'observed': repr(e)}
    bad = conc_inv(h, live, hwm)
    return {'reproduced': bool(bad), 'pre': pre, 'violated': bad,
            'post': {'chunks': dict(h.chunks), 'released': list(h.released), 'current_size': h.current_size, 'max_size': h.max_size}}


def targets():
    def prims(globs):
        return bisect_prims(globs['bisect'], globs['insort_left'])
    return [Target('sim', 'Heap.__init__', [init_config()], prims=init_prims, instantiate='fallback'),
            Target('sim', 'Heap.alloc', [alloc_config()], prims=prims, instantiate='fallback'),
            Target('sim', 'Heap.free', [free_config()], prims=prims, instantiate='fallback')]
