"""Contracts of the container primitives under kyupy.circuit.Circuit (C09): IndexList.__delitem__ and GrowingList.__setitem__,
on a sequence / object-heap model: a list is (arr : Int -> ObjId, len); an object's ``index`` field is an array ObjId -> Int."""
import ast

import z3

from pyvc.engine import State, Model, NotInSubset
from pyvc.values import SInt, SBool, to_int, is_sym, _conc_int
from pyvc.verify import Config, Target

NONE_ID = -1


class ObjRef(Model):
    def __init__(self, oid):
        self.oid = oid

    def m_setattr(self, ex, st, name, val, node):
        key = ('field', name)
        if key not in st.heap:
            raise NotInSubset(f'object field {name}')
        st.heap[key] = z3.Store(st.heap[key], to_int(self.oid), to_int(val))

    def m_getattr(self, ex, st, name, node):
        return SInt(z3.Select(st.heap[('field', name)], to_int(self.oid)))


class Rep(Model):
    """[x] * n with symbolic n, optionally followed by values appended afterwards"""
    def __init__(self, elem, count, tail=()):
        self.elem, self.count, self.tail = elem, count, tuple(tail)

    def m_getattr(self, ex, st, name, node):
        if name == 'append':
            def append(ex_, st_, args, node_):
                # a local list object: the name bound to it sees the appended value (the model object is updated in place)
                self.tail = self.tail + (args[0],)
            return Method(append)
        raise NotInSubset(f'list.{name} on a repeated list')


class Method(Model):
    def __init__(self, fn):
        self.fn = fn

    def m_call(self, ex, st, args, kwargs, node):
        return self.fn(ex, st, args, node)


class ListObj(Model):
    """``self`` of a list subclass: heap[(name,'arr')], heap[(name,'len')]"""

    def __init__(self, name):
        self.name = name

    def arr(self, st): return st.heap[(self.name, 'arr')]
    def length(self, st): return st.heap[(self.name, 'len')]

    def m_len(self, ex, st, node):
        return self.length(st)

    def _wrap(self, e):
        return ObjRef(SInt(e))

    def base_delitem(self, ex, st, args, node):
        i = to_int(args[0])
        n = to_int(self.length(st))
        ex.prove(st, 'no-exception:IndexError list.__delitem__', z3.And(i >= 0, i < n), node)
        j = z3.Int('j!ld')
        a = self.arr(st)
        st.heap[(self.name, 'arr')] = z3.Lambda([j], z3.If(j < i, z3.Select(a, j), z3.Select(a, j + 1)))
        st.heap[(self.name, 'len')] = self.length(st) - 1

    def base_setitem(self, ex, st, args, node):
        i = to_int(args[0])
        n = to_int(self.length(st))
        ex.prove(st, 'no-exception:IndexError list.__setitem__', z3.And(i >= 0, i < n), node)
        v = args[1]
        vid = to_int(v.oid) if isinstance(v, ObjRef) else (z3.IntVal(NONE_ID) if v is None else to_int(v))
        st.heap[(self.name, 'arr')] = z3.Store(self.arr(st), i, vid)

    def pop(self, ex, st, args, node):
        if args:
            raise NotInSubset('pop(i)')
        n = to_int(self.length(st))
        ex.prove(st, 'no-exception:IndexError pop from empty list', n >= 1, node)
        e = z3.Select(self.arr(st), n - 1)
        st.heap[(self.name, 'len')] = self.length(st) - 1
        return self._wrap(e)

    def extend(self, ex, st, args, node):
        r = args[0]
        if not isinstance(r, Rep) or r.elem is not None:
            raise NotInSubset('extend with something other than [None] * n (+ appended values)')
        c = to_int(r.count)
        ex.prove(st, 'list repetition count is not negative here', c >= 0, node)
        n = to_int(self.length(st))
        j = z3.Int('j!ext')
        a = self.arr(st)
        new = z3.Lambda([j], z3.If(j < n, z3.Select(a, j), z3.IntVal(NONE_ID)))
        for k, v in enumerate(r.tail):
            vid = to_int(v.oid) if isinstance(v, ObjRef) else (z3.IntVal(NONE_ID) if v is None else to_int(v))
            new = z3.Store(new, n + c + k, vid)
        st.heap[(self.name, 'arr')] = new
        st.heap[(self.name, 'len')] = self.length(st) + SInt(c) + len(r.tail)

    def m_getattr(self, ex, st, name, node):
        if name == 'pop':
            return Method(self.pop)
        if name == 'extend':
            return Method(self.extend)
        raise NotInSubset(f'list.{name}')


class SuperProxy(Model):
    def __init__(self, obj):
        self.obj = obj

    def m_getattr(self, ex, st, name, node):
        if name == '__delitem__':
            return Method(self.obj.base_delitem)
        if name == '__setitem__':
            return Method(self.obj.base_setitem)
        raise NotInSubset(f'super().{name}')


def prims(globs):
    def super_model(ex, st, args, kwargs, node):
        return SuperProxy(st.env['self'])
    return {super: super_model}


def binop_hook(ex, st, op, a, b, node):
    if op is ast.Mult and isinstance(a, list) and len(a) == 1 and is_sym(b):
        return Rep(a[0], b)
    return NotImplemented


def new_list(ex, st):
    st.heap[('L', 'arr')] = z3.Array('L_arr', z3.IntSort(), z3.IntSort())
    n = ex.fv('len', 'int')
    st.heap[('L', 'len')] = n
    st.assume(n >= 0)
    return ListObj('L'), n


def delitem_config():
    def setup(ex):
        st = State()
        L, n = new_list(ex, st)
        st.heap[('field', 'index')] = z3.Array('index_field', z3.IntSort(), z3.IntSort())
        idx = ex.fv('index', 'int')
        a, f = st.heap[('L', 'arr')], st.heap[('field', 'index')]
        i = z3.Int('i')
        st.assume(SBool(z3.And(idx.e >= 0, idx.e < n.e)))                                   # requires: a valid, non-negative position
        st.assume(SBool(z3.ForAll([i], z3.Implies(z3.And(0 <= i, i < n.e), z3.And(a[i] != NONE_ID, f[a[i]] == i)))))   # wf: element i carries index i
        st.env.update(self=L, index=idx)
        ex.g = dict(n=n.e, idx=idx.e, a=a, f=f)
        return st

    def post(ex, st):
        g = ex.g
        a1, f1, n1 = st.heap[('L', 'arr')], st.heap[('field', 'index')], to_int(st.heap[('L', 'len')])
        i, o = z3.Int('i'), z3.Int('o')
        yield 'length decreases by one', SBool(n1 == g['n'] - 1)
        yield 'all other positions keep their element', SBool(z3.ForAll([i], z3.Implies(z3.And(0 <= i, i < n1, i != g['idx']), a1[i] == g['a'][i])))
        yield 'the hole is filled by the former last element', SBool(z3.Implies(g['idx'] < g['n'] - 1, a1[g['idx']] == g['a'][g['n'] - 1]))
        yield 'indices stay consecutive: element i carries index i', SBool(z3.ForAll([i], z3.Implies(z3.And(0 <= i, i < n1), f1[a1[i]] == i)))
        yield 'frame: only the moved element is re-indexed', SBool(z3.ForAll([o], z3.Implies(o != g['a'][g['n'] - 1], f1[o] == g['f'][o])))
        ex.prove(st, 'mustfail:the list is unchanged', SBool(n1 == g['n']), ex.fn, expect='refuted')
    return Config('0 <= index < len, wf', {'post': post}, setup, None)


def setitem_config():
    def setup(ex):
        st = State()
        L, n = new_list(ex, st)
        idx = ex.fv('index', 'int')
        val = ex.fv('value', 'int')
        st.assume(SBool(idx.e >= 0))
        st.env.update(self=L, index=idx, value=ObjRef(val))
        ex.g = dict(n=n.e, idx=idx.e, a=st.heap[('L', 'arr')], v=val.e)
        return st

    def post(ex, st):
        g = ex.g
        a1, n1 = st.heap[('L', 'arr')], to_int(st.heap[('L', 'len')])
        i = z3.Int('i')
        yield 'length grows on demand to index + 1', SBool(n1 == z3.If(g['idx'] >= g['n'], g['idx'] + 1, g['n']))
        yield 'the value is stored at the index', SBool(a1[g['idx']] == g['v'])
        yield 'old entries are unchanged', SBool(z3.ForAll([i], z3.Implies(z3.And(0 <= i, i < g['n'], i != g['idx']), a1[i] == g['a'][i])))
        yield 'new entries in between are None', SBool(z3.ForAll([i], z3.Implies(z3.And(g['n'] <= i, i < n1, i != g['idx']), a1[i] == NONE_ID)))
        ex.prove(st, 'mustfail:the list never grows', SBool(n1 == g['n']), ex.fn, expect='refuted')
    return Config('index >= 0', {'post': post, 'binop_hook': binop_hook}, setup, None)


# --------------------------------------------------------------------------------------------- GrowingList.free_index
# ``next((i for i, x in enumerate(self) if x is None), len(self))``: the generator expression over enumerate(self) is kept as a value (its filter and
# its element expression are evaluated symbolically at an arbitrary position), ``next(gen, default)`` enters with the semantics of the two builtins:
# the element expression at the first position that passes the filter, the default if no position does.   ensures (the contract Line.__init__ uses):
# 0 <= r <= len; r < len -> self[r] is None; no position below r holds None.
class Elem(Model):
    def __init__(self, e):
        self.e = e
        self.is_none = SBool(e == NONE_ID)


class FilteredEnum(Model):
    def __init__(self, node, gen, lst):
        self.node, self.gen, self.lst = node, gen, lst


def free_index_config():
    def setup(ex):
        st = State()
        L, n = new_list(ex, st)
        st.env.update(self=L)
        ex.g = dict(n=n.e, a=st.heap[('L', 'arr')])
        ex.readonly.add(('L', 'arr'))
        return st

    def comp_hook(ex, st, n):
        if not isinstance(n, ast.GeneratorExp) or len(n.generators) != 1:
            return NotImplemented
        g = n.generators[0]
        if ast.unparse(g.iter) != 'enumerate(self)' or not isinstance(g.target, ast.Tuple) or len(g.target.elts) != 2 or \
                not all(isinstance(t, ast.Name) for t in g.target.elts):
            return NotImplemented
        return FilteredEnum(n, g, st.env['self'])

    def at(ex, st, fe, idx):
        """(filter, element) of the generator expression at position idx"""
        saved = dict(st.env)
        try:
            st.env[fe.gen.target.elts[0].id] = SInt(idx)
            st.env[fe.gen.target.elts[1].id] = Elem(z3.Select(fe.lst.arr(st), idx))
            conds = []
            for c in fe.gen.ifs:
                t = ex.truth(st, ex.ev(st, c), c)
                conds.append(t.e if is_sym(t) else z3.BoolVal(bool(t)))
            return z3.And(*conds) if conds else z3.BoolVal(True), to_int(ex.ev(st, fe.node.elt))
        finally:
            st.env.clear()
            st.env.update(saved)

    def next_(ex, st, args, kwargs, node):
        if len(args) != 2 or not isinstance(args[0], FilteredEnum):
            raise NotInSubset('next() of this value')
        fe, default = args
        n = to_int(fe.lst.length(st))
        ex.assumed.add('builtins: next(genexp over enumerate(list), default) is the element expression at the first position passing the filter, else the default')
        r, istar, j = ex.fv('next', 'int').e, ex.fv('first', 'int').e, z3.Int('j!nx')
        f_i, e_i = at(ex, st, fe, istar)
        f_j, _ = at(ex, st, fe, j)
        found = z3.And(0 <= istar, istar < n, f_i, z3.ForAll([j], z3.Implies(z3.And(0 <= j, j < istar), z3.Not(f_j))), r == e_i)
        none = z3.And(z3.ForAll([j], z3.Implies(z3.And(0 <= j, j < n), z3.Not(f_j))), r == to_int(default))
        st.assume(SBool(z3.Or(found, none)))
        return SInt(r)

    def post(ex, st):
        g = ex.g
        r = to_int(st.ret)
        j = z3.Int('j')
        yield 'the result is a position of the list or its length', SBool(z3.And(0 <= r, r <= g['n']))
        yield 'a position inside the list holds None', SBool(z3.Implies(r < g['n'], g['a'][r] == NONE_ID))
        yield 'no position below the result holds None (first free pin; len(self) if none is free)', SBool(z3.ForAll([j], z3.Implies(z3.And(0 <= j, j < r), g['a'][j] != NONE_ID)))
        ex.prove(st, 'mustfail:the result is always the length', SBool(r == g['n']), ex.fn, expect='refuted')
        ex.prove(st, 'mustfail:the result is always 0', SBool(r == 0), ex.fn, expect='refuted')
    def replay(model, obl, ex):
        ev = lambda e: model.eval(e, model_completion=True)
        n = ev(ex.g['n']).as_long()
        if not 0 <= n <= 40:
            return None
        return 'contracts.circuit_c:run_free_index', {'is_none': [ev(z3.Select(ex.g['a'], z3.IntVal(k))).as_long() == NONE_ID for k in range(n)]}
    def enumerate_(ex, st, args, kwargs, node):
        # the same function written as a loop (`for i, x in enumerate(self): if x is None: return i`): cut by the invariant below
        from pyvc.engine import SymIter
        if len(args) != 1 or not isinstance(args[0], ListObj) or kwargs:
            raise NotInSubset('enumerate() of this value')
        lst = args[0]
        return SymIter(lst.length(st), lambda ex_, st_, k: (SInt(to_int(k)), Elem(z3.Select(lst.arr(st_), to_int(k)))))

    def loop_inv(ex, st):
        j = z3.Int('j')
        yield 'no position passed so far holds None', SBool(z3.ForAll([j], z3.Implies(z3.And(0 <= j, j < to_int(st.env['__k0'])), ex.g['a'][j] != NONE_ID)))
    cfg = Config('any list', {'post': post, 'comp_hook': comp_hook, 'loops': {0: {'inv': loop_inv, 'modifies': [], 'kinds': {'i': 'keep', 'x': 'keep'}}}}, setup, replay)
    cfg.enumerate_ = enumerate_
    cfg.small = lambda ex: [ex.g['n'] <= 6]
    cfg.next_ = next_
    return cfg


def run_free_index(args):
    """the real GrowingList.free_index on a concrete list against the statement of the contract"""
    from kyupy.circuit import GrowingList
    g = GrowingList([None if f else object() for f in args['is_none']])
    try:
        r = g.free_index()
    except Exception as e:  # noqa
        return {'reproduced': True, 'observed': repr(e)}
    want = next((k for k, f in enumerate(args['is_none']) if f), len(args['is_none']))
    return {'reproduced': r != want, 'observed': repr(r), 'expected': want}


def targets_free_index():
    cfg = free_index_config()
    return [Target('circuit', 'GrowingList.free_index', [cfg], prims=lambda globs: {next: cfg.next_, enumerate: cfg.enumerate_}, instantiate='fallback',
                   note='the generator expression is evaluated symbolically at an arbitrary position (filter and element); next() / enumerate() by their Python semantics')]


def targets():
    return [Target('circuit', 'IndexList.__delitem__', [delitem_config()], prims=prims, instantiate='fallback'),
            Target('circuit', 'GrowingList.__setitem__', [setitem_config()], prims=prims, instantiate='fallback')]
