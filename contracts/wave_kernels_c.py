"""Contracts for the small kernels of kyupy.wave_sim: wave_capture_cpu, wave_capture_gpu, wave_assign_gpu, and kyupy.cdiv.

Capture (C13, also CPU == GPU kernel for C06): for a waveform w = c[c_loc : c_loc+c_len, lane] with ghost length n (first entry
>= TMAX, n < c_len) and sd = 0, the result is
   (w0 <= TMIN, EAT(n), LST(n), n mod 2, val, val, 0, [w_n == TMAX_OVL])   with val = CNT(n) mod 2
where the folds are defined by recurrences over the entries (ghost functions):
   CNT(0) = 0, CNT(k+1) = CNT(k) + [w_k < T]                 (# entries strictly before the capture time)
   EAT(0) = TMAX, EAT(k+1) = w_k <= TMIN ? EAT(k) : min(EAT(k), w_k)
   LST(0) = TMIN, LST(k+1) = w_k <= TMIN ? LST(k) : max(LST(k), w_k)
"""
import z3

from pyvc.engine import State, Model, NotInSubset, SymIter
from pyvc.values import SInt, SBool, SReal, to_int, to_real, is_sym, _conc_int
from pyvc.models_obj import IntArr
from pyvc.timealg import STime, TimeMem, TMIN_E, TMAX_E, TMAX_OVL_E, BACKGROUND, const_hook, TMAX
from pyvc.verify import Config, Target

CNT = z3.Function('CNT', z3.IntSort(), z3.IntSort())
EAT = z3.Function('EAT', z3.IntSort(), z3.RealSort())
LST = z3.Function('LST', z3.IntSort(), z3.RealSort())


class WaveSlice(Model):
    """w = c[c_loc:c_loc+c_len, lane]: a view of c_len entries"""

    def __init__(self, mem, base, length):
        self.mem, self.base, self.length = mem, base, length

    def m_iter(self, ex, st, node):
        return SymIter(self.length, lambda ex_, st_, k: self.mem.m_getitem(ex_, st_, (self.base + k, st_.env[self.mem.lane_key]), node))

    def m_getitem(self, ex, st, idx, node):
        k = _conc_int(idx)
        if k is None or k < 0:
            raise NotInSubset('index into a waveform slice')
        ex.prove(st, 'index-in-bounds:waveform slice', to_int(self.length) > k, node)
        return self.mem.m_getitem(ex, st, (self.base + k, st.env[self.mem.lane_key]), node)


class SlicedTimeMem(TimeMem):
    def m_getitem(self, ex, st, idx, node):
        if isinstance(idx, tuple) and len(idx) == 2 and isinstance(idx[0], slice):
            sl = idx[0]
            if sl.step is not None:
                raise NotInSubset('stepped slice')
            self._idx(ex, st, (sl.start, idx[1]), node)
            return WaveSlice(self, sl.start, sl.stop - sl.start)
        return super().m_getitem(ex, st, idx, node)

    def m_getattr(self, ex, st, name, node):
        if name == 'shape':
            return (st.env['__c_len__'], st.env['__nsims__'])
        raise NotInSubset(f'c.{name}')


def fold_axioms(W, T, k):
    """instances of the fold recurrences at index k; W(k) = k-th entry"""
    w = W(k)
    return [CNT(k + 1) == CNT(k) + z3.If(w < T, 1, 0),
            EAT(k + 1) == z3.If(w <= TMIN_E, EAT(k), z3.If(w < EAT(k), w, EAT(k))),
            LST(k + 1) == z3.If(w <= TMIN_E, LST(k), z3.If(w > LST(k), w, LST(k)))]


def capture_common(ex, st, lane_name):
    for b in BACKGROUND:
        st.assume(SBool(b))
    c_len_total, nsims = ex.fv('c_len', 'int'), ex.fv('nsims', 'int')
    st.env['__c_len__'], st.env['__nsims__'] = c_len_total, nsims
    lane = ex.fv(lane_name, 'int')
    st.env[lane_name] = lane
    st.assume(z3.And(c_len_total.e > 0, nsims.e > 0))
    return c_len_total, nsims, lane


def capture_cpu_config():
    def setup(ex):
        st = State()
        c_len_total, nsims, lane = capture_common(ex, st, 'vector')
        c_loc, c_len, n = ex.fv('c_loc', 'int'), ex.fv('c_len_w', 'int'), z3.Int('n_w')
        time = STime(z3.Real('T'))
        seed = ex.fv('seed', 'int')

        def reads(ex_, st_, i):
            j = to_int(i)
            return z3.And(j >= c_loc.e, j < c_loc.e + c_len.e)
        mem = SlicedTimeMem.new(ex, st, 'c', lane_key='vector', reads=reads, writes=lambda *a: False)
        cb = st.heap['c']
        W = lambda k: cb[c_loc.e + k]
        ex.g = dict(W=W, n=n, T=time.e, c_loc=c_loc, c_len=c_len)
        i = z3.Int('i')
        st.assume(SBool(z3.And(c_loc.e >= 0, c_len.e >= 1, c_loc.e + c_len.e <= c_len_total.e, lane.e >= 0, lane.e < nsims.e,
                               n >= 0, n < c_len.e, W(n) >= TMAX_E, z3.ForAll([i], z3.Implies(z3.And(0 <= i, i < n), W(i) < TMAX_E)),
                               CNT(0) == 0, EAT(0) == TMAX_E, LST(0) == TMIN_E)))
        st.env.update(c=mem, c_loc=c_loc, c_len=c_len, vector=lane, time=time, sd=0.0, seed=seed)
        return st

    def loop_assume(ex, st):
        k = to_int(st.env['__k0'])
        for a in fold_axioms(ex.g['W'], ex.g['T'], k):
            st.assume(SBool(a))

    def inv(ex, st):
        g = ex.g
        k = to_int(st.env['__k0'])
        e = st.env
        i = z3.Int('i')
        return [('I0:all consumed entries are below TMAX', SBool(z3.ForAll([i], z3.Implies(z3.And(0 <= i, i < k), g['W'](i) < TMAX_E)))),
                ('I1:final = k mod 2', SBool(to_int(e['final']) == k % 2)),
                ('I2:val = parity of the entries before T', SBool(to_int(e['val']) == CNT(k) % 2)),
                ('I3:eat = fold', SBool(to_real(e['eat']) == EAT(k))),
                ('I4:lst = fold', SBool(to_real(e['lst']) == LST(k))),
                ('I5:ovl = 0, acc = 0 while scanning', SBool(z3.And(to_int(e['ovl']) == 0, to_real(e['acc']) == 0)))]

    def post(ex, st):
        g = ex.g
        n = g['n']
        r = st.ret
        yield 'result has 8 components', isinstance(r, tuple) and len(r) == 8
        if not (isinstance(r, tuple) and len(r) == 8):
            return
        init, eat, lst, final, acc, val, zero, ovl = r
        from pyvc.values import to_bool
        yield 'initial value = [w0 <= TMIN]', SBool(to_bool(init) == (g['W'](0) <= TMIN_E))
        yield 'earliest arrival = min of the finite entries (TMAX if none)', SBool(to_real(eat) == EAT(n))
        yield 'latest stabilisation = max of the finite entries (TMIN if none)', SBool(to_real(lst) == LST(n))
        yield 'final value = parity of the number of entries', SBool(to_int(final) == n % 2)
        yield 'value captured at T = value just before T (parity of the entries strictly before T)', SBool(to_int(val) == CNT(n) % 2)
        yield 'capture value (sd = 0) equals the value at T', SBool(to_real(acc) == z3.ToReal(CNT(n) % 2))
        yield 'slack placeholder is 0', SBool(to_int(zero) == 0) if is_sym(zero) else (zero == 0)
        yield 'overflow indicator = [terminator is TMAX_OVL]', SBool(to_int(ovl) == z3.If(g['W'](n) == TMAX_OVL_E, 1, 0))
        ex.prove(st, 'mustfail:a waveform never has transitions', SBool(n == 0), ex.fn, expect='refuted')

    contract = {'post': post, 'const_hook_factory': lambda ex: const_hook(ex.globs['np'], ex.globs),
                'loops': {0: {'inv': inv, 'assume': loop_assume, 'modifies': [], 'kinds': {'m': 'real', 'acc': 'real', 'eat': 'time', 'lst': 'time', 't': 'keep'}}}}
    return Config('sd=0', contract, setup, None)


# ------------------------------------------------------------------------------------------------------------ GPU capture
class CudaModel(Model):
    def m_getattr(self, ex, st, name, node):
        if name == 'grid':
            return GridFn()
        raise NotInSubset(f'cuda.{name}')


class GridFn(Model):
    def m_call(self, ex, st, args, kwargs, node):
        return (st.env['__x__'], st.env['__y__'])


class SMem3(Model):
    """s: float32 array (11, s_len, sims) -- one cell family s[r, y, x] for the own (y, x): heap['s'] : Array Int(row) -> Real"""

    def __init__(self, name):
        self.name = name

    @staticmethod
    def new(ex, st, name):
        st.heap[name] = z3.Array(f'{name}!{next(ex.fresh)}', z3.IntSort(), z3.RealSort())
        return SMem3(name)

    def _row(self, ex, st, idx, node):
        if not (isinstance(idx, tuple) and len(idx) == 3):
            raise NotInSubset('s must be indexed [row, y, lane]')
        r, y, x = idx
        ok = z3.And(to_int(y) == to_int(st.env['__y__']), to_int(x) == to_int(st.env['__x__']))
        ex.prove(st, f'lane:{self.name} accessed only at the own (port row, lane)', ok, node)
        rr = _conc_int(r)
        if rr is None or not 0 <= rr < 11:
            raise NotInSubset('row index of s')
        return rr

    def m_getitem(self, ex, st, idx, node):
        r = self._row(ex, st, idx, node)
        return SReal(z3.Select(st.heap[self.name], z3.IntVal(r)))

    def m_setitem(self, ex, st, idx, val, node):
        r = self._row(ex, st, idx, node)
        w = st.env.get('__s_writable__', ())
        ex.prove(st, f'frame:{self.name} row {r} may be written by this kernel', r in w, node)
        v = ex.load(st, val)
        st.heap[self.name] = z3.Store(st.heap[self.name], z3.IntVal(r), to_real(v))

    def m_getattr(self, ex, st, name, node):
        if name == 'shape':
            return (11, st.env['__s_len__'], st.env['__nsims__'])
        raise NotInSubset(f's.{name}')


def capture_gpu_config():
    def setup(ex):
        st = State()
        c_len_total, nsims, x = capture_common(ex, st, '__x__')
        y = ex.fv('y', 'int')
        st.env['__y__'] = y
        nlocs, s_len, ppo = ex.fv('c_locs_len', 'int'), ex.fv('s_len', 'int'), ex.fv('ppo_offset', 'int')
        st.env['__s_len__'] = s_len
        st.env['__s_writable__'] = (3, 4, 5, 6, 7, 8, 9, 10)
        c_locs = IntArr.new(ex, st, 'c_locs', length=nlocs)
        c_caps = IntArr.new(ex, st, 'c_caps', length=nlocs)
        locs, caps = st.heap['c_locs'], st.heap['c_caps']
        line, tdim = locs[ppo.e + y.e], caps[ppo.e + y.e]
        n = z3.Int('n_w')
        time = STime(z3.Real('T'))

        def reads(ex_, st_, i):
            j = to_int(i)
            return z3.And(j >= line, j < line + tdim, j >= 0, j < c_len_total.e)
        mem = SlicedTimeMem.new(ex, st, 'c', lane_key='__x__', reads=reads, writes=lambda *a: False)
        cb = st.heap['c']
        W = lambda k: cb[line + k]
        ex.g = dict(W=W, n=n, T=time.e, line=line, tdim=tdim, x=x, y=y, nsims=nsims, ppo=ppo, nlocs=nlocs, s0=None)
        i = z3.Int('i')
        st.assume(SBool(z3.And(x.e >= 0, y.e >= 0, ppo.e >= 0, s_len.e >= 0, nlocs.e > 0, ppo.e + s_len.e <= nlocs.e)))
        # requires (when the thread is active): the output slot holds a well-formed waveform inside c
        active = z3.And(ppo.e + y.e < nlocs.e, line >= 0, x.e < nsims.e)
        st.assume(SBool(z3.Implies(active, z3.And(tdim >= 1, line + tdim <= c_len_total.e, n >= 0, n < tdim, W(n) >= TMAX_E,
                                                  z3.ForAll([i], z3.Implies(z3.And(0 <= i, i < n), W(i) < TMAX_E)),
                                                  y.e < s_len.e))))
        st.assume(SBool(z3.And(CNT(0) == 0, EAT(0) == TMAX_E, LST(0) == TMIN_E)))
        ex.g['active'] = active
        s = SMem3.new(ex, st, 's')
        ex.g['s0'] = st.heap['s']
        st.env.update(c=mem, s=s, c_locs=c_locs, c_caps=c_caps, ppo_offset=ppo, time=time, s_sqrt2=0.0, seed=ex.fv('seed', 'int'),
                      cuda=CudaModel())
        return st

    def loop_assume(ex, st):
        k = to_int(st.env['__k0'])
        for a in fold_axioms(ex.g['W'], ex.g['T'], k):
            st.assume(SBool(a))

    def inv(ex, st):
        g = ex.g
        k = to_int(st.env['__k0'])
        e = st.env
        i = z3.Int('i')
        return [('I0:all consumed entries are below TMAX', SBool(z3.ForAll([i], z3.Implies(z3.And(0 <= i, i < k), g['W'](i) < TMAX_E)))),
                ('I1:final = k mod 2', SBool(to_int(e['final']) == k % 2)),
                ('I2:val = parity of the entries before T', SBool(to_int(e['val']) == CNT(k) % 2)),
                ('I3:eat = fold', SBool(to_real(e['eat']) == EAT(k))),
                ('I4:lst = fold', SBool(to_real(e['lst']) == LST(k))),
                ('I5:ovl = 0, acc = 0 while scanning', SBool(z3.And(to_int(e['ovl']) == 0, to_real(e['acc']) == 0))),
                ('I6:s untouched while scanning', SBool(st.heap['s'] == g['s0']))]

    def post(ex, st):
        g = ex.g
        n = g['n']
        s1, s0 = st.heap['s'], g['s0']
        act = g['active']
        want = {3: z3.If(g['W'](0) <= TMIN_E, z3.RealVal(1), z3.RealVal(0)), 4: EAT(n), 5: LST(n), 6: z3.ToReal(n % 2),
                7: z3.ToReal(CNT(n) % 2), 8: z3.ToReal(CNT(n) % 2), 9: z3.RealVal(0),
                10: z3.If(g['W'](n) == TMAX_OVL_E, z3.RealVal(1), z3.RealVal(0))}
        names = {3: 'initial value', 4: 'earliest arrival', 5: 'latest stabilisation', 6: 'final value', 7: 'capture value (sd = 0)',
                 8: 'value at T', 9: 'slack placeholder', 10: 'overflow indicator'}
        for r, w in want.items():
            yield f's[{r}] = {names[r]} of the waveform (same fold as wave_capture_cpu)', SBool(z3.Implies(act, s1[r] == w))
        yield 'inactive thread (no output slot / lane out of range) writes nothing', SBool(z3.Implies(z3.Not(act), s1 == s0))
        for r in (0, 1, 2):
            yield f'frame: stimulus row s[{r}] untouched', SBool(s1[r] == s0[r])
        ex.prove(st, 'mustfail:the kernel never writes s', SBool(s1 == s0), ex.fn, expect='refuted')

    contract = {'post': post, 'const_hook_factory': lambda ex: const_hook(ex.globs['np'], ex.globs),
                'loops': {0: {'inv': inv, 'assume': loop_assume, 'modifies': [], 'kinds': {'m': 'real', 'acc': 'real', 'eat': 'time', 'lst': 'time', 't': 'keep'}}}}
    return Config('s_sqrt2=0', contract, setup, None)


# ------------------------------------------------------------------------------------------------------------ GPU assign
def assign_binop_hook(ex, st, op, a, b, node):
    import ast
    if op is ast.BitOr and isinstance(a, SInt) and isinstance(b, SInt):
        # value = int(final) | 2*int(initial): bitwise or of a 0/1 and a 0/2 value is their sum
        ex.prove(st, 'bit-or operands are a 0/1 and a 0/2 value', z3.And(z3.Or(a.e == 0, a.e == 1), z3.Or(b.e == 0, b.e == 2)), node)
        return SInt(a.e + b.e)
    return NotImplemented


def assign_gpu_config():
    def setup(ex):
        st = State()
        c_len_total, nsims, x = capture_common(ex, st, '__x__')
        y = ex.fv('y', 'int')
        st.env['__y__'] = y
        nlocs, s_len, ppi = ex.fv('c_locs_len', 'int'), ex.fv('s_len', 'int'), ex.fv('ppi_offset', 'int')
        st.env['__s_len__'] = s_len
        st.env['__s_writable__'] = ()
        c_locs = IntArr.new(ex, st, 'c_locs', length=nlocs)
        locs = st.heap['c_locs']
        c_loc = locs[ppi.e + y.e]

        def writes(ex_, st_, i):
            j = to_int(i)
            return z3.And(j >= c_loc, j <= c_loc + 2, j >= 0, j < c_len_total.e)
        mem = SlicedTimeMem.new(ex, st, 'c', lane_key='__x__', reads=lambda *a: False, writes=writes)
        s = SMem3.new(ex, st, 's')
        active = z3.And(y.e < s_len.e, c_loc >= 0, x.e < nsims.e)
        st.assume(SBool(z3.And(x.e >= 0, y.e >= 0, ppi.e >= 0, s_len.e >= 0, ppi.e + s_len.e <= nlocs.e,
                               z3.Implies(active, c_loc + 3 <= c_len_total.e))))
        ex.g = dict(active=active, c_loc=c_loc, c0=st.heap['c'], s0=st.heap['s'])
        st.env.update(c=mem, s=s, c_locs=c_locs, ppi_offset=ppi, cuda=CudaModel())
        return st

    def post(ex, st):
        g = ex.g
        c1, c0, s0, loc = st.heap['c'], g['c0'], g['s0'], g['c_loc']
        ini, fin, t = s0[0] >= z3.RealVal('0.5'), s0[2] >= z3.RealVal('0.5'), s0[1]
        w0 = z3.If(ini, TMIN_E, z3.If(fin, t, TMAX_E))
        w1 = z3.If(z3.And(ini, z3.Not(fin)), t, TMAX_E)
        act = g['active']
        yield 'entry 0 encodes the initial value / the rising time', SBool(z3.Implies(act, c1[loc] == w0))
        yield 'entry 1 is the falling time or the terminator', SBool(z3.Implies(act, c1[loc + 1] == w1))
        yield 'entry 2 is the terminator', SBool(z3.Implies(act, c1[loc + 2] == TMAX_E))
        i = z3.Int('i')
        yield 'frame: nothing but the three entries of the own input slot is written', \
            SBool(z3.ForAll([i], z3.Implies(z3.Or(z3.Not(act), i < loc, i > loc + 2), c1[i] == c0[i])))
        yield 'frame: s untouched', SBool(st.heap['s'] == s0)
        ex.prove(st, 'mustfail:the kernel never writes c', SBool(c1 == c0), ex.fn, expect='refuted')

    contract = {'post': post, 'binop_hook': assign_binop_hook, 'const_hook_factory': lambda ex: const_hook(ex.globs['np'], ex.globs)}
    return Config('all stimulus values', contract, setup, None)


# ------------------------------------------------------------------------------------------------------------ ppo_to_ppi_gpu (one thread)
def ppo_to_ppi_gpu_config():
    """one thread (x = lane, y = port): for a state element (y >= number of primary ports) inside the array with a mapped output slot the assignment rows become
    (previous final, time, sampled capture); every other thread writes nothing -- the element-wise statement of WaveSim.s_ppo_to_ppi"""
    def setup(ex):
        st = State()
        x, y = ex.fv('x', 'int'), ex.fv('y', 'int')
        nsims, s_len, nlocs = ex.fv('nsims', 'int'), ex.fv('s_len', 'int'), ex.fv('c_locs_len', 'int')
        ppi, ppo, start = ex.fv('ppi_offset', 'int'), ex.fv('ppo_offset', 'int'), ex.fv('ppio_start', 'int')
        st.env.update(__x__=x, __y__=y, __s_len__=s_len, __nsims__=nsims)
        st.env['__s_writable__'] = (0, 1, 2)
        c_locs = IntArr.new(ex, st, 'c_locs', length=nlocs)
        s = SMem3.new(ex, st, 's')
        t = ex.fv('time', 'time')
        st.assume(SBool(z3.And(x.e >= 0, y.e >= 0, nsims.e >= 0, s_len.e >= 0, ppi.e >= 0, ppo.e >= 0, start.e >= 0, ppi.e + s_len.e <= nlocs.e, ppo.e + s_len.e <= nlocs.e)))
        active = z3.And(y.e >= start.e, y.e < s_len.e, x.e < nsims.e, st.heap['c_locs'][ppo.e + y.e] >= 0)
        ex.g = dict(active=active, s0=st.heap['s'], t=t)
        st.env.update(s=s, c_locs=c_locs, time=t, ppi_offset=ppi, ppo_offset=ppo, ppio_start=start, cuda=CudaModel())
        return st

    def post(ex, st):
        g = ex.g
        s1, s0, act = st.heap['s'], g['s0'], g['active']
        from pyvc.values import to_real
        yield 'state element in range: s[0] <- s[2] (previous final value), s[1] <- time, s[2] <- s[8] (sampled capture)', \
            SBool(z3.Implies(act, z3.And(s1[0] == s0[2], s1[1] == to_real(g['t']), s1[2] == s0[8])))
        r = z3.Int('r')
        yield 'frame: rows 3.. are untouched; an inactive thread writes nothing', \
            SBool(z3.And(z3.ForAll([r], z3.Implies(r >= 3, s1[r] == s0[r])), z3.Implies(z3.Not(act), s1 == s0)))
        ex.prove(st, 'mustfail:the kernel never writes s', SBool(s1 == s0), ex.fn, expect='refuted')
    return Config('any thread (x, y)', {'post': post}, setup, None)


def targets_ppo():
    return [Target('wave_sim', 'ppo_to_ppi_gpu', [ppo_to_ppi_gpu_config()], kinds={'time': lambda n: STime(z3.Real(n))}, instantiate='fallback')]


# ------------------------------------------------------------------------------------------------------------ cdiv
def cdiv_config():
    def setup(ex):
        st = State()
        x, y = ex.fv('x', 'int'), ex.fv('y', 'int')
        st.assume(SBool(z3.And(x.e >= 0, y.e > 0)))
        st.env.update(x=x, y=y)
        ex.g = dict(x=x, y=y)
        return st

    def post(ex, st):
        x, y, r = ex.g['x'].e, ex.g['y'].e, to_int(st.ret)
        yield 'cdiv rounds up: (r-1)*y < x <= r*y', SBool(z3.And((r - 1) * y < x, x <= r * y))
        ex.prove(st, 'mustfail:cdiv rounds down', SBool(r * y <= x), ex.fn, expect='refuted')
    return Config('x >= 0, y > 0', {'post': post}, setup, None)


def targets_c13():
    return [Target('wave_sim', 'wave_capture_cpu', [capture_cpu_config()], kinds={'time': lambda n: STime(z3.Real(n))}, instantiate='fallback'),
            Target('wave_sim', 'wave_capture_gpu', [capture_gpu_config()], kinds={'time': lambda n: STime(z3.Real(n))}, instantiate='fallback')]


def targets_assign():
    return [Target('wave_sim', 'wave_assign_gpu', [assign_gpu_config()], kinds={'time': lambda n: STime(z3.Real(n))}, instantiate='fallback')]


def targets_c06():
    from . import launcher_c
    return targets_c13() + targets_assign() + targets_ppo() + [Target('__init__', 'cdiv', [cdiv_config()])] + launcher_c.targets() + targets_level()


def targets_c07():
    from . import launcher_c
    return [Target('__init__', 'cdiv', [cdiv_config()])] + launcher_c.targets() + targets_level()


# ------------------------------------------------------------------------------------------------------------ level loops
from pyvc.models_obj import Table2  # noqa: E402

NR = z3.Function('NR', z3.IntSort(), z3.IntSort(), z3.IntSort())      # ghost: rising count returned for (op index, lane)
NF = z3.Function('NF', z3.IntSort(), z3.IntSort(), z3.IntSort())
OPSF = z3.Function('OPS', z3.IntSort(), z3.IntSort(), z3.IntSort())
I2 = z3.ArraySort(z3.IntSort(), z3.ArraySort(z3.IntSort(), z3.IntSort()))


class Opaque(Model):
    """an argument that is only passed on (c, c_locs, c_caps, delays)"""
    def __init__(self, name):
        self.name = name


class SimCtl(Model):
    def m_getitem(self, ex, st, idx, node):
        if isinstance(idx, tuple) and len(idx) == 2 and idx[0] == slice(None, None, None):
            return SimCtlCol(idx[1])
        raise NotInSubset('simctl_int index')


class SimCtlCol(Model):
    def __init__(self, lane):
        self.lane = lane


class Abuf(Model):
    """abuf[a_loc, sim] : heap['abuf'] : Array Int -> Array Int -> Int"""

    def _ij(self, idx):
        if not (isinstance(idx, tuple) and len(idx) == 2):
            raise NotInSubset('abuf index')
        return to_int(idx[0]), to_int(idx[1])

    def m_getitem(self, ex, st, idx, node):
        a, s = self._ij(idx)
        return SInt(st.heap['abuf'][a][s])

    def m_setitem(self, ex, st, idx, val, node):
        a, s = self._ij(idx)
        ex.prove(st, 'lane:abuf updated only in the own lane', s == to_int(st.env['__lane__']), node)
        ex.prove(st, 'index-in-bounds:abuf row', z3.And(a >= 0, a < to_int(st.env['__abuf_len__'])), node)
        A = st.heap['abuf']
        st.heap['abuf'] = z3.Store(A, a, z3.Store(A[a], s, to_int(val)))


def eval_callee(ex, st, args, kwargs, node):
    """modular call of wave_eval_cpu / _wave_eval_gpu against the contract of _wave_eval (proved in C03): returns the ghost counts of
    (op, lane); ghost call counter per (op index, lane); the waveform memory is passed through (frame: own output region of the own lane)"""
    op, c, c_locs, c_caps, sim, delays, sc, seed = args
    k = st.env['__op_index__']
    ok = isinstance(op, tuple) and len(op) == 9 and all(z3.eq(z3.simplify(to_int(op[j]) - OPSF(to_int(k), j)), z3.IntVal(0)) for j in range(9))
    ex.prove(st, 'call:evaluates the row of the current op index', ok, node)
    ex.prove(st, 'call:passes c, c_locs, c_caps, delays through', all(isinstance(x, Opaque) and x.name == nm for x, nm in zip((c, c_locs, c_caps, delays), ('c', 'c_locs', 'c_caps', 'delays'))), node)
    ex.prove(st, 'call:lane control column is the own lane', isinstance(sc, SimCtlCol) and (to_int(sc.lane) == to_int(sim)), node)
    st.env['__lane__'] = sim
    C = st.heap['calls']
    kk, ss = to_int(k), to_int(sim)
    st.heap['calls'] = z3.Store(C, kk, z3.Store(C[kk], ss, C[kk][ss] + 1))
    return (SInt(NR(kk, ss)), SInt(NF(kk, ss)))


def contrib(k, s):
    return NR(k, s) * OPSF(k, 7) + NF(k, s) * OPSF(k, 8)


def level_eval_config():
    def setup(ex):
        st = State()
        a, b_, s0, s1, nops, alen = (ex.fv(n, 'int') for n in ('op_start', 'op_stop', 'sim_start', 'sim_stop', 'n_ops', 'abuf_len'))
        st.assume(SBool(z3.And(0 <= a.e, a.e <= b_.e, b_.e <= nops.e, 0 <= s0.e, s0.e <= s1.e, alen.e >= 1)))
        k = z3.Int('k')
        st.assume(SBool(z3.ForAll([k], z3.Implies(z3.And(0 <= k, k < nops.e), OPSF(k, 6) < alen.e))))       # requires: accumulator indices inside abuf
        st.heap['abuf'] = z3.Const('abuf0', I2)
        st.heap['calls'] = z3.K(z3.IntSort(), z3.K(z3.IntSort(), z3.IntVal(0)))
        st.env.update(ops=Table2(OPSF, nops, 9), op_start=a, op_stop=b_, c=Opaque('c'), c_locs=Opaque('c_locs'), c_caps=Opaque('c_caps'), abuf=Abuf(),
                      sim_start=s0, sim_stop=s1, delays=Opaque('delays'), simctl_int=SimCtl(), seed=ex.fv('seed', 'int'))
        st.env['__abuf_len__'] = alen
        ex.g = dict(a=a.e, b=b_.e, s0=s0.e, s1=s1.e, abuf0=st.heap['abuf'])
        return st

    def expected(g, kcur, scur):
        """abuf after all ops < kcur on all lanes, and op kcur on lanes < scur:  via the ghost ACC(k, a, s) recurrence"""
        return None

    ACC = z3.Function('ACC', z3.IntSort(), z3.IntSort(), z3.IntSort(), z3.IntSort())     # ACC(k, a, s): accumulated value of abuf[a, s] after ops [op_start, k)

    def acc_axiom(g, k):
        a, s = z3.Ints('qa qs')
        inl = z3.And(g['s0'] <= s, s < g['s1'])
        return z3.ForAll([a, s], ACC(k + 1, a, s) == ACC(k, a, s) + z3.If(z3.And(inl, OPSF(k, 6) == a, a >= 0), contrib(k, s), 0))

    def outer_assume(ex, st):
        g = ex.g
        k = g['a'] + to_int(st.env['__k0'])
        st.assume(SBool(acc_axiom(g, k)))
        st.env['__op_index__'] = SInt(k)

    def outer_inv(ex, st):
        g = ex.g
        k = g['a'] + to_int(st.env['__k0'])
        a, s, j = z3.Ints('qa qs qj')
        yield 'abuf = accumulated contributions of the ops evaluated so far', SBool(z3.ForAll([a, s], st.heap['abuf'][a][s] == ACC(k, a, s)))
        yield 'every (op, lane) of the finished ops was evaluated exactly once, nothing else', \
            SBool(z3.ForAll([j, s], st.heap['calls'][j][s] == z3.If(z3.And(g['a'] <= j, j < k, g['s0'] <= s, s < g['s1']), 1, 0)))

    def inner_inv(ex, st):
        g = ex.g
        k = g['a'] + to_int(st.env['__k0'])
        sc = g['s0'] + to_int(st.env['__k1'])
        a, s, j = z3.Ints('qa qs qj')
        done = z3.And(g['s0'] <= s, s < sc, OPSF(k, 6) == a, a >= 0)
        yield 'abuf = finished ops + the lanes of the current op evaluated so far', \
            SBool(z3.ForAll([a, s], st.heap['abuf'][a][s] == ACC(k, a, s) + z3.If(done, contrib(k, s), 0)))
        yield 'exactly-once counter (finished ops, and lanes of the current op so far)', \
            SBool(z3.ForAll([j, s], st.heap['calls'][j][s] == z3.If(z3.Or(z3.And(g['a'] <= j, j < k, g['s0'] <= s, s < g['s1']),
                                                                         z3.And(j == k, g['s0'] <= s, s < sc)), 1, 0)))
        yield 'outer index in range', SBool(z3.And(g['a'] <= k, k < g['b']))

    def post(ex, st):
        g = ex.g
        a, s, j = z3.Ints('qa qs qj')
        yield 'abuf[a, s] = old value + sum over the ops of the range with that accumulator of nrise*wr + nfall*wf (ghost recurrence ACC)', \
            SBool(z3.ForAll([a, s], st.heap['abuf'][a][s] == ACC(g['b'], a, s)))
        yield 'every (op, lane) pair of the range is evaluated exactly once and no other', \
            SBool(z3.ForAll([j, s], st.heap['calls'][j][s] == z3.If(z3.And(g['a'] <= j, j < g['b'], g['s0'] <= s, s < g['s1']), 1, 0)))
        ex.prove(st, 'mustfail:nothing is ever evaluated', SBool(z3.ForAll([j, s], st.heap['calls'][j][s] == 0)), ex.fn, expect='refuted')

    def setup2(ex):
        st = setup(ex)
        a, s = z3.Ints('qa qs')
        st.assume(SBool(z3.ForAll([a, s], ACC(ex.g['a'], a, s) == ex.g['abuf0'][a][s])))
        return st
    contract = {'post': post, 'loop_match': {0: ('range(op_start, op_stop)', 0), 1: ('range(sim_start, sim_stop)', None)},
                'loops': {0: {'inv': outer_inv, 'assume': outer_assume, 'modifies': ['abuf', 'calls'], 'kinds': {'op': 'keep', 'a_loc': 'int', 'a_wr': 'int', 'a_wf': 'int', 'nrise': 'int', 'nfall': 'int'}},
                                        1: {'inv': inner_inv, 'modifies': ['abuf', 'calls'], 'kinds': {'a_loc': 'int', 'a_wr': 'int', 'a_wf': 'int', 'nrise': 'int', 'nfall': 'int'}}}}
    return Config('any op range x lane range', contract, setup2, None)


def level_prims(globs):
    p = {}
    for nm in ('wave_eval_cpu', '_wave_eval_gpu'):
        if nm in globs:
            p[globs[nm]] = eval_callee
    return p


def targets_level():
    return [Target('wave_sim', 'level_eval_cpu', [level_eval_config()], prims=level_prims, instantiate='fallback',
                   note='accumulation of weighted switching activity and exactly-once evaluation, against the contract of _wave_eval')]


class AtomicModel(Model):
    def m_getattr(self, ex, st, name, node):
        if name == 'add':
            def add(ex_, st_, args, kwargs, node_):
                arr, idx, val = args
                if not isinstance(arr, Abuf) or not (isinstance(idx, tuple) and len(idx) == 2):
                    raise NotInSubset('atomic.add target')
                cur = arr.m_getitem(ex_, st_, idx, node_)
                arr.m_setitem(ex_, st_, idx, cur + val, node_)
                return cur
            return Method2(add)
        raise NotInSubset(f'cuda.atomic.{name}')


class Method2(Model):
    def __init__(self, fn):
        self.fn = fn

    def m_call(self, ex, st, args, kwargs, node):
        return self.fn(ex, st, args, kwargs, node)


class CudaModel2(CudaModel):
    def m_getattr(self, ex, st, name, node):
        if name == 'atomic':
            return AtomicModel()
        return super().m_getattr(ex, st, name, node)


class OpsRows(Table2):
    """ops[op_idx] also records which op index the thread works on (for the callee's call-site check)"""
    def m_getitem(self, ex, st, idx, node):
        r = super().m_getitem(ex, st, idx, node)
        if isinstance(r, tuple):
            st.env['__op_index__'] = idx
        return r


def eval_gpu_config():
    def setup(ex):
        st = State()
        a, b_, s0, s1, nops, alen = (ex.fv(n, 'int') for n in ('op_start', 'op_stop', 'sim_start', 'sim_stop', 'n_ops', 'abuf_len'))
        x, y = ex.fv('x', 'int'), ex.fv('y', 'int')
        st.assume(SBool(z3.And(0 <= a.e, a.e <= b_.e, b_.e <= nops.e, 0 <= s0.e, s0.e <= s1.e, alen.e >= 1, x.e >= 0, y.e >= 0)))
        k = z3.Int('k')
        st.assume(SBool(z3.ForAll([k], z3.Implies(z3.And(0 <= k, k < nops.e), OPSF(k, 6) < alen.e))))
        st.heap['abuf'] = z3.Const('abuf0', I2)
        st.heap['calls'] = z3.K(z3.IntSort(), z3.K(z3.IntSort(), z3.IntVal(0)))
        st.env.update(ops=OpsRows(OPSF, nops, 9), op_start=a, op_stop=b_, cbuf=Opaque('c'), c_locs=Opaque('c_locs'), c_caps=Opaque('c_caps'), abuf=Abuf(),
                      sim_start=s0, sim_stop=s1, delays=Opaque('delays'), simctl_int=SimCtl(), seed=ex.fv('seed', 'int'), cuda=CudaModel2())
        st.env['__x__'], st.env['__y__'] = x, y
        st.env['__abuf_len__'] = alen
        ex.g = dict(a=a.e, b=b_.e, s0=s0.e, s1=s1.e, x=x.e, y=y.e, abuf0=st.heap['abuf'])
        return st

    def post(ex, st):
        g = ex.g
        sim, k = g['s0'] + g['x'], g['a'] + g['y']
        active = z3.And(sim < g['s1'], k < g['b'])
        aq, sq, jq = z3.Ints('qa qs qj')
        A1, A0, C1 = st.heap['abuf'], g['abuf0'], st.heap['calls']
        yield 'an active thread evaluates exactly its (op, lane) pair once; an inactive thread evaluates nothing', \
            SBool(z3.ForAll([jq, sq], C1[jq][sq] == z3.If(z3.And(active, jq == k, sq == sim), 1, 0)))
        yield 'abuf changes only at [accumulator of the op, own lane] by nrise*wr + nfall*wf', \
            SBool(z3.ForAll([aq, sq], A1[aq][sq] == A0[aq][sq] + z3.If(z3.And(active, OPSF(k, 6) == aq, aq >= 0, sq == sim), contrib(k, sim), 0)))
        ex.prove(st, 'mustfail:the thread never evaluates anything', SBool(z3.ForAll([jq, sq], C1[jq][sq] == 0)), ex.fn, expect='refuted')
    return Config('any thread (x, y)', {'post': post}, setup, None)


def targets_level():
    return [Target('wave_sim', 'level_eval_cpu', [level_eval_config()], prims=level_prims, instantiate='fallback',
                   note='accumulation of weighted switching activity and exactly-once evaluation, against the contract of _wave_eval'),
            Target('wave_sim', 'wave_eval_gpu', [eval_gpu_config()], prims=level_prims, instantiate='fallback',
                   note='one GPU thread: guards, one evaluation of its (op, lane), atomic accumulation')]
