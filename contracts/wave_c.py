"""Contract of kyupy.wave_sim._wave_eval (the one body behind wave_eval_cpu and _wave_eval_gpu), stages 1 and 2 of
DESIGN.md 5-C03, plus the Q4 count clauses of C13 and the lane / frame clauses of C06 / C07.

Waveform abstraction W(x) of a region [c_locs[x], +c_caps[x]) in the lane ``sim``: n_x = index of the first entry >= TMAX
(ghost, 0 <= n_x < cap), entries before it < TMAX; init = [w_0 <= TMIN]; final = n_x mod 2.

requires  lut in [0,65535]; z_cap >= 4; operands well formed with ghost length n_X and TMIN only at index 0; output region
          disjoint from every operand region, all regions inside [0,c_len); delays in [0,DMAX], DMAX < HUGE; finite entries
          stay below the sentinel after adding a delay; 0 <= dataset < len(delays) for the selected dataset.
ensures   Q1 W(z) well formed, n_z = z_cur <= z_cap-1;  Q2 final(z) = LUT[final(a..d)];  Q3 frame: only the own output
          region of the own lane is written, only operand/own regions are read;  Q4 rise/fall counts;
          Q5 init(z) = LUT[init(a..d)];  Q6 own overflow => terminator TMAX_OVL, else terminator = max of the operand terminators.
"""
import z3

from pyvc.engine import State, Model, NotInSubset
from pyvc.values import SInt, SBool, SReal, to_int, to_real, SHR, is_sym
from pyvc.models_obj import IntArr
from pyvc.timealg import STime, TimeMem, TMIN_E, TMAX_E, TMAX_OVL_E, HUGE, BACKGROUND, const_hook
from pyvc.verify import Config, Target

DFUN = z3.Function('D', z3.IntSort(), z3.IntSort(), z3.IntSort(), z3.IntSort(), z3.RealSort())


class Delays4(Model):
    """delays: float array (n_datasets, c_locs_len, 2, 2)"""

    def __init__(self, n):
        self.n = n

    def m_len(self, ex, st, node):
        return self.n

    def m_getitem(self, ex, st, idx, node):
        if isinstance(idx, (tuple, slice)):
            raise NotInSubset('unsupported index into delays')
        i = to_int(idx)
        ex.prove(st, 'index-in-bounds:delays dataset', z3.And(i >= 0, i < to_int(self.n)), node)
        return Delays3(idx)


class Delays3(Model):
    def __init__(self, ds):
        self.ds = ds

    def m_getitem(self, ex, st, idx, node):
        if not (isinstance(idx, tuple) and len(idx) == 3):
            raise NotInSubset('unsupported index into a delay dataset')
        i, p, q = idx
        pi, qi = to_int(p), to_int(q)
        ex.prove(st, 'index-in-bounds:delays polarity', z3.And(pi >= 0, pi <= 1, qi >= 0, qi <= 1), node)
        nl = st.env['__nlocs__']
        ex.prove(st, 'index-in-bounds:delays line', z3.And(to_int(i) >= 0, to_int(i) < to_int(nl)), node)
        return SReal(DFUN(to_int(self.ds), to_int(i), pi, qi))

    def m_merge(self, ex, cond, other):
        from pyvc.logic import ite
        return Delays3(ite(cond, self.ds, other.ds))


def binop_hook(ex, st, op, a, b, node):
    import ast
    # x % n with a symbolic divisor (dataset selection): Python's % equals z3's mod for a positive divisor
    if op is ast.Mod and is_sym(b) and isinstance(b, SInt):
        ex.prove(st, 'no-exception:modulo by a positive number', b > 0, node)
        return SInt(to_int(a) % to_int(b))
    return NotImplemented


def wave_eval_config():
    def setup(ex):
        st = State()
        for b in BACKGROUND:
            st.assume(SBool(b))
        names = ['lut', 'z_idx', 'a_idx', 'b_idx', 'c_idx', 'd_idx', 'a_loc', 'a_wr', 'a_wf']
        op = tuple(ex.fv('op_' + n, 'int') for n in names)
        nlocs, c_len, ndel = ex.fv('c_locs_len', 'int'), ex.fv('c_len', 'int'), ex.fv('n_datasets', 'int')
        DMAX = z3.Real('DMAX')
        st.env['__nlocs__'] = nlocs
        c_locs = IntArr.new(ex, st, 'c_locs', length=nlocs)
        c_caps = IntArr.new(ex, st, 'c_caps', length=nlocs)
        simctl = IntArr.new(ex, st, 'simctl_int', length=2)
        sim = ex.fv('sim', 'int')
        seed = ex.fv('seed', 'int')
        locs, caps = st.heap['c_locs'], st.heap['c_caps']
        lut, zi = op[0].e, op[1].e
        X = {k: op[2 + j].e for j, k in enumerate('abcd')}
        n = {k: z3.Int('n_' + k) for k in 'abcd'}
        zmem, zcap = locs[zi], caps[zi]
        ex.g = dict(lut=lut, zi=zi, X=X, n=n, zmem=zmem, zcap=zcap, locs=locs, caps=caps, DMAX=DMAX, c_len=c_len, sim=sim)

        def in_regions(ex_, st_, idx):
            j = to_int(idx)
            r = [z3.And(zmem <= j, j < zmem + zcap)]
            for k in 'abcd':
                r.append(z3.And(locs[X[k]] <= j, j < locs[X[k]] + caps[X[k]]))
            return z3.And(z3.Or(*r), j >= 0, j < c_len.e)

        def in_z(ex_, st_, idx):
            j = to_int(idx)
            return z3.And(zmem <= j, j < zmem + zcap)
        cbuf = TimeMem.new(ex, st, 'cbuf', lane_key='sim', reads=in_regions, writes=in_z)
        cb0 = st.heap['cbuf']
        ex.g['cb0'] = cb0
        i = z3.Int('i')
        pre = [lut >= 0, lut <= 65535, ndel.e >= 1, DMAX >= 0, HUGE > DMAX, nlocs.e > 0, c_len.e > 0,
               zi >= 0, zi < nlocs.e, zcap >= 4, zmem >= 0, zmem + zcap <= c_len.e]
        for k in 'abcd':
            m, cp = locs[X[k]], caps[X[k]]
            pre += [X[k] >= 0, X[k] < nlocs.e, n[k] >= 0, n[k] < cp, m >= 0, m + cp <= c_len.e,
                    z3.ForAll([i], z3.Implies(z3.And(0 <= i, i < n[k]),
                                              z3.And(cb0[m + i] < TMAX_E, z3.Or(cb0[m + i] <= TMIN_E, cb0[m + i] + DMAX < TMAX_E)))),
                    cb0[m + n[k]] >= TMAX_E,
                    z3.ForAll([i], z3.Implies(z3.And(1 <= i, i < n[k]), cb0[m + i] > TMIN_E)),
                    z3.Or(zmem + zcap <= m, m + cp <= zmem)]
        q = [z3.Int('_q%d' % j) for j in range(4)]
        pre.append(z3.ForAll(q, z3.And(DFUN(*q) >= 0, DFUN(*q) <= DMAX)))
        # delay dataset selection modes: the requires fix the range of the explicitly selected dataset
        sc = st.heap['simctl_int']
        pre.append(z3.Implies(z3.And(ndel.e > 1, sc[1] == 0), z3.And(seed.e >= 0, seed.e < ndel.e)))
        pre.append(z3.Implies(z3.And(ndel.e > 1, sc[1] == 1), z3.And(sc[0] >= 0, sc[0] < ndel.e)))
        init = {k: z3.If(cb0[locs[X[k]]] <= TMIN_E, 1, 0) for k in 'abcd'}
        I0 = init['a'] + 2 * init['b'] + 4 * init['c'] + 8 * init['d']
        ex.g['I0'] = I0
        ex.g['init'] = init
        xs = z3.Int('_x')
        pre.append(z3.ForAll([xs], SHR(xs, 0) == xs))
        pre.append(SHR(lut, 0) == lut)
        for c in pre:
            st.assume(SBool(c))
        st.env.update(op=op, cbuf=cbuf, c_locs=c_locs, c_caps=c_caps, sim=sim, delays=Delays4(ndel), simctl_int=simctl, seed=seed)
        ex.g['ndel'] = ndel
        return st

    def inv(ex, s):
        g = ex.g
        e = s.env
        cb = s.heap['cbuf']
        cb0, locs, X, n, zmem, zcap, lut = g['cb0'], g['locs'], g['X'], g['n'], g['zmem'], g['zcap'], g['lut']
        i = z3.Int('i')
        out = []
        d = e['delays']
        out.append(('J9:a single delay dataset is selected', isinstance(d, Delays3)))
        if not isinstance(d, Delays3):
            return [(a, SBool(z3.BoolVal(bool(b)))) for a, b in out]
        ds = to_int(d.ds)
        out.append(('J9b:dataset index in range', z3.And(ds >= 0, ds < to_int(g['ndel']))))
        cur = {k: to_int(e[k + '_cur']) for k in 'abcd'}
        zc, zv, inp = to_int(e['z_cur']), to_int(e['z_val']), to_int(e['inputs'])
        for k in 'abcd':
            out.append((f'J1:{k}_cur in [0,n_{k}]', z3.And(0 <= cur[k], cur[k] <= n[k])))
            tt = STime(cb[locs[X[k]] + cur[k]]) + SReal(DFUN(ds, X[k], cur[k] % 2, zv))
            out.append((f'J3:{k} is the pending event of operand {k} (entry + delay)', to_real(e[k]) == tt.e))
        out.append(('J2:inputs = current operand parities', inp == cur['a'] % 2 + 2 * (cur['b'] % 2) + 4 * (cur['c'] % 2) + 8 * (cur['d'] % 2)))
        out.append(('J4:0 <= z_cur <= z_cap-1', z3.And(0 <= zc, zc <= zcap - 1)))
        out.append(('J4b:z_val = z_cur mod 2', zv == zc % 2))
        out.append(('J5:output parity = LUT[inputs]', zc % 2 == SHR(lut, inp) % 2))
        out.append(('J6:stored prefix is finite', z3.ForAll([i], z3.Implies(z3.And(0 <= i, i < zc), cb[zmem + i] < TMAX_E))))
        out.append(('J6b:TMIN occurs only at index 0 of the stored prefix', z3.ForAll([i], z3.Implies(z3.And(1 <= i, i < zc), cb[zmem + i] > TMIN_E))))
        out.append(('J7:frame (nothing outside the own output region changed)',
                    z3.ForAll([i], z3.Implies(z3.Not(z3.And(zmem <= i, i < zmem + zcap)), cb[i] == cb0[i]))))
        ct = to_real(e['current_t'])
        ra, rb, rc, rd = (to_real(e[k]) for k in 'abcd')
        out.append(('J8:current_t = min(a,b,c,d)', z3.And(ct <= ra, ct <= rb, ct <= rc, ct <= rd, z3.Or(ct == ra, ct == rb, ct == rc, ct == rd))))
        init, I0 = g['init'], g['I0']
        B0 = SHR(lut, I0) % 2
        allinit = z3.And(*[z3.Implies(init[k] == 1, cur[k] >= 1) for k in 'abcd'])
        noneextra = z3.And(*[cur[k] <= init[k] for k in 'abcd'])
        prev = to_real(e['previous_t'])
        out.append(('K0:no finite event is consumed before every TMIN event', z3.Implies(z3.Not(allinit), noneextra)))
        out.append(('Ka:TMIN phase', z3.Implies(noneextra, z3.And(zc <= 1, z3.Implies(zc == 1, cb[zmem] == TMIN_E), prev == TMIN_E))))
        out.append(('K1:an initial 1 is never filtered away', z3.Implies(z3.And(allinit, B0 == 1),
                                                                        z3.And(zc >= 1, cb[zmem] == TMIN_E, z3.Implies(zc == 1, prev == TMIN_E)))))
        out.append(('K2:an initial 0 stays 0', z3.Implies(z3.And(allinit, B0 == 0, zc >= 1), cb[zmem] > TMIN_E)))
        out.append(('J10:overflows >= 0', to_int(e['overflows']) >= 0))
        return [(a, SBool(b) if not isinstance(b, bool) else SBool(z3.BoolVal(b))) for a, b in out]

    def variant(ex, s):
        n = ex.g['n']
        return SInt(sum((n[k] - to_int(s.env[k + '_cur']) for k in 'abcd'), z3.IntVal(0)))

    def post(ex, s):
        g = ex.g
        e = s.env
        cb = s.heap['cbuf']
        cb0, locs, X, n, zmem, zcap, lut = g['cb0'], g['locs'], g['X'], g['n'], g['zmem'], g['zcap'], g['lut']
        zc = to_int(e['z_cur'])
        i = z3.Int('i')
        nrise, nfall = s.ret
        fin = sum(((n[k] % 2) * (1 << j) for j, k in enumerate('abcd')), z3.IntVal(0))
        init_z = z3.If(cb[zmem] == TMIN_E, 1, 0)
        term = {k: cb0[locs[X[k]] + n[k]] for k in 'abcd'}
        mx = term['a']
        for k in 'bcd':
            mx = z3.If(term[k] > mx, term[k], mx)
        res = [('Q1:W(z) well formed, terminated within capacity',
                z3.And(0 <= zc, zc <= zcap - 1, cb[zmem + zc] >= TMAX_E, z3.ForAll([i], z3.Implies(z3.And(0 <= i, i < zc), cb[zmem + i] < TMAX_E)))),
               ('Q2:final value (parity) = LUT[final values of the operands]', zc % 2 == SHR(lut, fin) % 2),
               ('Q3:frame: only the own output region of the own lane is written',
                z3.ForAll([i], z3.Implies(z3.Not(z3.And(zmem <= i, i < zmem + zcap)), cb[i] == cb0[i]))),
               ('Q4:nfall = number of falling entries', to_int(nfall) == zc / 2),
               ('Q4:nrise = number of rising finite entries',
                to_int(nrise) == z3.If((zc + 1) / 2 - init_z > 0, (zc + 1) / 2 - init_z, 0)),
               ('Q5:initial value = LUT[initial values of the operands]', (cb[zmem] <= TMIN_E) == (SHR(lut, g['I0']) % 2 == 1)),
               ('Q6:own overflow marks the terminator TMAX_OVL', z3.Implies(to_int(e['overflows']) > 0, cb[zmem + zc] == TMAX_OVL_E)),
               ('Q6b:without own overflow the terminator is the max of the operand terminators',
                z3.Implies(to_int(e['overflows']) == 0, cb[zmem + zc] == mx)),
               ('Q7:TMIN occurs only at index 0 of the output', z3.ForAll([i], z3.Implies(z3.And(1 <= i, i < zc), cb[zmem + i] > TMIN_E)))]
        for nm, c in res:
            yield nm, SBool(c)
        # vacuity guard with a pinned witness shape (makes the sat answer cheap): a BUF1 of a constant-1 waveform
        ex.prove(s, 'mustfail:no run with lut=BUF1 over constant operands exists',
                 SBool(z3.Not(z3.And(lut == 0xAAAA, n['a'] == 1, n['b'] == 0, n['c'] == 0, n['d'] == 0, cb0[locs[X['a']]] == TMIN_E, zc == 1))),
                 ex.fn, expect='refuted')

    def hook_factory(ex):
        return const_hook(ex.globs['np'], ex.globs)

    contract = {'post': post, 'binop_hook': binop_hook, 'merge_ifs': True,
                'loops': {1: {'inv': inv, 'variant': variant, 'kinds': {'thresh': 'real', 'next_t': 'time', 'a': 'time', 'b': 'time', 'c': 'time', 'd': 'time',
                                                                           'current_t': 'time', 'previous_t': 'time'},
                              'modifies': ['cbuf']}},
                'const_hook_factory': hook_factory}
    return Config('stages 1+2', contract, setup, None)


def targets():
    return [Target('wave_sim', '_wave_eval', [wave_eval_config()], kinds={'time': lambda n: STime(z3.Real(n))}, instantiate='always',
                   note='the one body behind wave_eval_cpu and _wave_eval_gpu')]
