"""Contract of kyupy.wave_sim._wave_eval (the one body behind wave_eval_cpu and _wave_eval_gpu), stages 1 and 2 of
DESIGN.md 5-C03, plus the Q4 count clauses of C13 and the lane / frame clauses of C06 / C07.

Waveform abstraction W(x) of a region [c_locs[x], +c_caps[x]) in the lane ``sim``: n_x = index of the first entry >= TMAX
(ghost, 0 <= n_x < cap), entries before it < TMAX; init = [w_0 <= TMIN]; final = n_x mod 2.

requires  lut in [0,65535]; z_cap >= 4; operands well formed with ghost length n_X and TMIN only at index 0; output region
          disjoint from every operand region, all regions inside [0,c_len); delays in [0,DMAX], DMAX < HUGE; finite entries
          stay below the sentinel after adding a delay; 0 <= dataset < len(delays) for the selected dataset.
ensures   Q1 W(z) well formed, n_z = z_cur <= z_cap-1;  Q2 final(z) = LUT[final(a..d)];  Q3 frame: only the own output
          region of the own lane is written, only operand/own regions are read;  Q4 rise/fall counts;
          Q5 init(z) = LUT[init(a..d)];  Q6 own overflow => terminator TMAX_OVL, else terminator = max of the operand terminators.
"""
import z3

from pyvc.engine import State, Model, NotInSubset
from pyvc.values import SInt, SBool, SReal, to_int, to_real, SHR, is_sym
from pyvc.models_obj import IntArr
from pyvc.timealg import STime, TimeMem, TMIN_E, TMAX_E, TMAX_OVL_E, HUGE, BACKGROUND, const_hook
from pyvc.verify import Config, Target

DFUN = z3.Function('D', z3.IntSort(), z3.IntSort(), z3.IntSort(), z3.IntSort(), z3.RealSort())


class Delays4(Model):
    """delays: float array (n_datasets, c_locs_len, 2, 2)"""

    def __init__(self, n):
        self.n = n

    def m_len(self, ex, st, node):
        return self.n

    def m_getitem(self, ex, st, idx, node):
        if isinstance(idx, (tuple, slice)):
            raise NotInSubset('unsupported index into delays')
        i = to_int(idx)
        ex.prove(st, 'index-in-bounds:delays dataset', z3.And(i >= 0, i < to_int(self.n)), node)
        return Delays3(idx)


class Delays3(Model):
    def __init__(self, ds):
        self.ds = ds

    def m_getitem(self, ex, st, idx, node):
        if not (isinstance(idx, tuple) and len(idx) == 3):
            raise NotInSubset('unsupported index into a delay dataset')
        i, p, q = idx
        pi, qi = to_int(p), to_int(q)
        ex.prove(st, 'index-in-bounds:delays polarity', z3.And(pi >= 0, pi <= 1, qi >= 0, qi <= 1), node)
        nl = st.env['__nlocs__']
        ex.prove(st, 'index-in-bounds:delays line', z3.And(to_int(i) >= 0, to_int(i) < to_int(nl)), node)
        return SReal(DFUN(to_int(self.ds), to_int(i), pi, qi))

    def m_merge(self, ex, cond, other):
        from pyvc.logic import ite
        return Delays3(ite(cond, self.ds, other.ds))


def binop_hook(ex, st, op, a, b, node):
    import ast
    # x % n with a symbolic divisor (dataset selection): Python's % equals z3's mod for a positive divisor
    if op is ast.Mod and is_sym(b) and isinstance(b, SInt):
        ex.prove(st, 'no-exception:modulo by a positive number', b > 0, node)
        return SInt(to_int(a) % to_int(b))
    return NotImplemented


def wave_eval_config(stage3=False):
    def setup(ex):
        st = State()
        for b in BACKGROUND:
            st.assume(SBool(b))
        names = ['lut', 'z_idx', 'a_idx', 'b_idx', 'c_idx', 'd_idx', 'a_loc', 'a_wr', 'a_wf']
        op = tuple(ex.fv('op_' + n, 'int') for n in names)
        nlocs, c_len, ndel = ex.fv('c_locs_len', 'int'), ex.fv('c_len', 'int'), ex.fv('n_datasets', 'int')
        DMAX = z3.Real('DMAX')
        st.env['__nlocs__'] = nlocs
        c_locs = IntArr.new(ex, st, 'c_locs', length=nlocs)
        c_caps = IntArr.new(ex, st, 'c_caps', length=nlocs)
        simctl = IntArr.new(ex, st, 'simctl_int', length=2)
        sim = ex.fv('sim', 'int')
        seed = ex.fv('seed', 'int')
        locs, caps = st.heap['c_locs'], st.heap['c_caps']
        lut, zi = op[0].e, op[1].e
        X = {k: op[2 + j].e for j, k in enumerate('abcd')}
        n = {k: z3.Int('n_' + k) for k in 'abcd'}
        zmem, zcap = locs[zi], caps[zi]
        ex.g = dict(lut=lut, zi=zi, X=X, n=n, zmem=zmem, zcap=zcap, locs=locs, caps=caps, DMAX=DMAX, c_len=c_len, sim=sim)

        def in_regions(ex_, st_, idx):
            j = to_int(idx)
            r = [z3.And(zmem <= j, j < zmem + zcap)]
            for k in 'abcd':
                r.append(z3.And(locs[X[k]] <= j, j < locs[X[k]] + caps[X[k]]))
            return z3.And(z3.Or(*r), j >= 0, j < c_len.e)

        def in_z(ex_, st_, idx):
            j = to_int(idx)
            return z3.And(zmem <= j, j < zmem + zcap)
        cbuf = TimeMem.new(ex, st, 'cbuf', lane_key='sim', reads=in_regions, writes=in_z)
        cb0 = st.heap['cbuf']
        ex.g['cb0'] = cb0
        i = z3.Int('i')
        pre = [lut >= 0, lut <= 65535, ndel.e >= 1, DMAX >= 0, HUGE > DMAX, nlocs.e > 0, c_len.e > 0,
               zi >= 0, zi < nlocs.e, zcap >= 4, zmem >= 0, zmem + zcap <= c_len.e]
        for k in 'abcd':
            m, cp = locs[X[k]], caps[X[k]]
            pre += [X[k] >= 0, X[k] < nlocs.e, n[k] >= 0, n[k] < cp, m >= 0, m + cp <= c_len.e,
                    z3.ForAll([i], z3.Implies(z3.And(0 <= i, i < n[k]),
                                              z3.And(cb0[m + i] < TMAX_E, z3.Or(cb0[m + i] <= TMIN_E, cb0[m + i] + DMAX < TMAX_E)))),
                    cb0[m + n[k]] >= TMAX_E,
                    z3.ForAll([i], z3.Implies(z3.And(1 <= i, i < n[k]), cb0[m + i] > TMIN_E)),
                    z3.Or(zmem + zcap <= m, m + cp <= zmem)]
        q = [z3.Int('_q%d' % j) for j in range(4)]
        finite_delays = bool(ex.c.get('unroll'))      # bounded-refutation mode: explicit instances instead of quantifiers

        def forall_delays(body):
            """body(ds, line, p, q) for all delay entries"""
            if not finite_delays:
                return [z3.ForAll(q, body(*q))]
            return [body(z3.IntVal(d_), z3.IntVal(l_), z3.IntVal(p_), z3.IntVal(q_)) for d_ in range(2) for l_ in range(6) for p_ in range(2) for q_ in range(2)]
        pre += forall_delays(lambda d_, l_, p_, q_: z3.And(DFUN(d_, l_, p_, q_) >= 0, DFUN(d_, l_, p_, q_) <= DMAX))
        # delay dataset selection modes: the requires fix the range of the explicitly selected dataset
        sc = st.heap['simctl_int']
        pre.append(z3.Implies(z3.And(ndel.e > 1, sc[1] == 0), z3.And(seed.e >= 0, seed.e < ndel.e)))
        pre.append(z3.Implies(z3.And(ndel.e > 1, sc[1] == 1), z3.And(sc[0] >= 0, sc[0] < ndel.e)))
        init = {k: z3.If(cb0[locs[X[k]]] <= TMIN_E, 1, 0) for k in 'abcd'}
        I0 = init['a'] + 2 * init['b'] + 4 * init['c'] + 8 * init['d']
        ex.g['I0'] = I0
        ex.g['init'] = init
        xs = z3.Int('_x')
        pre.append(z3.ForAll([xs], SHR(xs, 0) == xs))
        pre.append(SHR(lut, 0) == lut)
        if stage3:
            # (a) one-op static-timing step: every finite operand entry plus any of its line's delays lies in [LO, HI]
            LO, HI = z3.Real('LO'), z3.Real('HI')
            ex.g['LO'], ex.g['HI'] = LO, HI
            DLO, DHI = z3.Function('DLO', z3.IntSort(), z3.RealSort()), z3.Function('DHI', z3.IntSort(), z3.RealSort())
            pre += forall_delays(lambda d_, l_, p_, q_: z3.And(DLO(l_) <= DFUN(d_, l_, p_, q_), DFUN(d_, l_, p_, q_) <= DHI(l_)))
            for k in 'abcd':
                m = locs[X[k]]
                emin, emax = z3.Real('EMIN_' + k), z3.Real('EMAX_' + k)
                pre.append(z3.ForAll([i], z3.Implies(z3.And(0 <= i, i < n[k], cb0[m + i] > TMIN_E), z3.And(emin <= cb0[m + i], cb0[m + i] <= emax))))
                pre.append(z3.And(LO <= emin + DLO(X[k]), emax + DHI(X[k]) <= HI))
            # (b) polarity-independent delays and strictly increasing operand waveforms (for the monotonicity clause)
            DX = z3.Function('DX', z3.IntSort(), z3.IntSort(), z3.RealSort())
            pre += forall_delays(lambda d_, l_, p_, q_: DFUN(d_, l_, p_, q_) == DX(d_, l_))
            for k in 'abcd':
                m = locs[X[k]]
                pre.append(z3.ForAll([i], z3.Implies(z3.And(0 <= i, i + 1 < n[k]), cb0[m + i] < cb0[m + i + 1])))
        for c in pre:
            st.assume(SBool(c))
        st.env.update(op=op, cbuf=cbuf, c_locs=c_locs, c_caps=c_caps, sim=sim, delays=Delays4(ndel), simctl_int=simctl, seed=seed)
        ex.g['ndel'] = ndel
        return st

    def inv(ex, s):
        g = ex.g
        e = s.env
        cb = s.heap['cbuf']
        cb0, locs, X, n, zmem, zcap, lut = g['cb0'], g['locs'], g['X'], g['n'], g['zmem'], g['zcap'], g['lut']
        i = z3.Int('i')
        out = []
        d = e['delays']
        out.append(('J9:a single delay dataset is selected', isinstance(d, Delays3)))
        if not isinstance(d, Delays3):
            return [(a, SBool(z3.BoolVal(bool(b)))) for a, b in out]
        ds = to_int(d.ds)
        out.append(('J9b:dataset index in range', z3.And(ds >= 0, ds < to_int(g['ndel']))))
        cur = {k: to_int(e[k + '_cur']) for k in 'abcd'}
        zc, zv, inp = to_int(e['z_cur']), to_int(e['z_val']), to_int(e['inputs'])
        for k in 'abcd':
            out.append((f'J1:{k}_cur in [0,n_{k}]', z3.And(0 <= cur[k], cur[k] <= n[k])))
            tt = STime(cb[locs[X[k]] + cur[k]]) + SReal(DFUN(ds, X[k], cur[k] % 2, zv))
            out.append((f'J3:{k} is the pending event of operand {k} (entry + delay)', to_real(e[k]) == tt.e))
        out.append(('J2:inputs = current operand parities', inp == cur['a'] % 2 + 2 * (cur['b'] % 2) + 4 * (cur['c'] % 2) + 8 * (cur['d'] % 2)))
        out.append(('J4:0 <= z_cur <= z_cap-1', z3.And(0 <= zc, zc <= zcap - 1)))
        out.append(('J4b:z_val = z_cur mod 2', zv == zc % 2))
        out.append(('J5:output parity = LUT[inputs]', zc % 2 == SHR(lut, inp) % 2))
        out.append(('J6:stored prefix is finite', z3.ForAll([i], z3.Implies(z3.And(0 <= i, i < zc), cb[zmem + i] < TMAX_E))))
        out.append(('J6b:TMIN occurs only at index 0 of the stored prefix', z3.ForAll([i], z3.Implies(z3.And(1 <= i, i < zc), cb[zmem + i] > TMIN_E))))
        out.append(('J7:frame (nothing outside the own output region changed)',
                    z3.ForAll([i], z3.Implies(z3.Not(z3.And(zmem <= i, i < zmem + zcap)), cb[i] == cb0[i]))))
        ct = to_real(e['current_t'])
        ra, rb, rc, rd = (to_real(e[k]) for k in 'abcd')
        out.append(('J8:current_t = min(a,b,c,d)', z3.And(ct <= ra, ct <= rb, ct <= rc, ct <= rd, z3.Or(ct == ra, ct == rb, ct == rc, ct == rd))))
        init, I0 = g['init'], g['I0']
        B0 = SHR(lut, I0) % 2
        allinit = z3.And(*[z3.Implies(init[k] == 1, cur[k] >= 1) for k in 'abcd'])
        noneextra = z3.And(*[cur[k] <= init[k] for k in 'abcd'])
        prev = to_real(e['previous_t'])
        out.append(('K0:no finite event is consumed before every TMIN event', z3.Implies(z3.Not(allinit), noneextra)))
        out.append(('Ka:TMIN phase', z3.Implies(noneextra, z3.And(zc <= 1, z3.Implies(zc == 1, cb[zmem] == TMIN_E), prev == TMIN_E))))
        out.append(('K1:an initial 1 is never filtered away', z3.Implies(z3.And(allinit, B0 == 1),
                                                                        z3.And(zc >= 1, cb[zmem] == TMIN_E, z3.Implies(zc == 1, prev == TMIN_E)))))
        out.append(('K2:an initial 0 stays 0', z3.Implies(z3.And(allinit, B0 == 0, zc >= 1), cb[zmem] > TMIN_E)))
        out.append(('J10:overflows >= 0', to_int(e['overflows']) >= 0))
        if stage3:
            out.append(('W1:every stored finite entry lies in the static-timing window [LO, HI]',
                        z3.ForAll([i], z3.Implies(z3.And(0 <= i, i < zc, cb[zmem + i] > TMIN_E), z3.And(g['LO'] <= cb[zmem + i], cb[zmem + i] <= g['HI'])))))
            out.append(('N2:previous_t is not before the last kept entry', z3.Implies(zc >= 1, prev >= cb[zmem + zc - 1])))
            out.append(('N3:stored time stamps strictly increase', z3.ForAll([i], z3.Implies(z3.And(1 <= i, i < zc), cb[zmem + i - 1] < cb[zmem + i]))))
        if stage3:
            # the stage-1/2 clauses are proved by the configuration 'stages 1+2' under weaker requires: assumed here ('~')
            out = [(a if a[:2] in ('W1', 'N2', 'N3') else '~' + a, b) for a, b in out]
        return [(a, SBool(b) if not isinstance(b, bool) else SBool(z3.BoolVal(b))) for a, b in out]

    def variant(ex, s):
        n = ex.g['n']
        return SInt(sum((n[k] - to_int(s.env[k + '_cur']) for k in 'abcd'), z3.IntVal(0)))

    def post(ex, s):
        g = ex.g
        e = s.env
        cb = s.heap['cbuf']
        cb0, locs, X, n, zmem, zcap, lut = g['cb0'], g['locs'], g['X'], g['n'], g['zmem'], g['zcap'], g['lut']
        zc = to_int(e['z_cur'])
        i = z3.Int('i')
        nrise, nfall = s.ret
        fin = sum(((n[k] % 2) * (1 << j) for j, k in enumerate('abcd')), z3.IntVal(0))
        init_z = z3.If(cb[zmem] == TMIN_E, 1, 0)
        term = {k: cb0[locs[X[k]] + n[k]] for k in 'abcd'}
        mx = term['a']
        for k in 'bcd':
            mx = z3.If(term[k] > mx, term[k], mx)
        res = [('Q1:W(z) well formed, terminated within capacity',
                z3.And(0 <= zc, zc <= zcap - 1, cb[zmem + zc] >= TMAX_E, z3.ForAll([i], z3.Implies(z3.And(0 <= i, i < zc), cb[zmem + i] < TMAX_E)))),
               ('Q2:final value (parity) = LUT[final values of the operands]', zc % 2 == SHR(lut, fin) % 2),
               ('Q3:frame: only the own output region of the own lane is written',
                z3.ForAll([i], z3.Implies(z3.Not(z3.And(zmem <= i, i < zmem + zcap)), cb[i] == cb0[i]))),
               ('Q4:nfall = number of falling entries', to_int(nfall) == zc / 2),
               ('Q4:nrise = number of rising finite entries',
                to_int(nrise) == z3.If((zc + 1) / 2 - init_z > 0, (zc + 1) / 2 - init_z, 0)),
               ('Q5:initial value = LUT[initial values of the operands]', (cb[zmem] <= TMIN_E) == (SHR(lut, g['I0']) % 2 == 1)),
               ('Q6:own overflow marks the terminator TMAX_OVL', z3.Implies(to_int(e['overflows']) > 0, cb[zmem + zc] == TMAX_OVL_E)),
               ('Q6b:without own overflow the terminator is the max of the operand terminators',
                z3.Implies(to_int(e['overflows']) == 0, cb[zmem + zc] == mx)),
               ('Q7:TMIN occurs only at index 0 of the output', z3.ForAll([i], z3.Implies(z3.And(1 <= i, i < zc), cb[zmem + i] > TMIN_E)))]
        if stage3:
            res = [('~' + a, b) for a, b in res] + [
                ('Q8:every finite output entry lies in the static-timing window of the operands (one-op STA step)',
                 z3.ForAll([i], z3.Implies(z3.And(0 <= i, i < zc, cb[zmem + i] > TMIN_E), z3.And(g['LO'] <= cb[zmem + i], cb[zmem + i] <= g['HI'])))),
                ('Q9:with polarity-independent delays the output time stamps strictly increase',
                 z3.ForAll([i], z3.Implies(z3.And(1 <= i, i < zc), cb[zmem + i - 1] < cb[zmem + i])))]
        for nm, c in res:
            yield nm, SBool(c)
        # vacuity guard with a pinned witness shape (makes the sat answer cheap): a BUF1 of a constant-1 waveform
        ex.prove(s, 'mustfail:no run with lut=BUF1 over constant operands exists',
                 SBool(z3.Not(z3.And(lut == 0xAAAA, n['a'] == 1, n['b'] == 0, n['c'] == 0, n['d'] == 0, cb0[locs[X['a']]] == TMIN_E, zc == 1))),
                 ex.fn, expect='refuted')

    def hook_factory(ex):
        return const_hook(ex.globs['np'], ex.globs)

    contract = {'post': post, 'binop_hook': binop_hook, 'merge_ifs': True,
                'loops': {1: {'inv': inv, 'variant': variant, 'kinds': {'thresh': 'real', 'next_t': 'time', 'a': 'time', 'b': 'time', 'c': 'time', 'd': 'time',
                                                                           'current_t': 'time', 'previous_t': 'time'},
                              'modifies': ['cbuf']}},
                'const_hook_factory': hook_factory}
    cfg = Config('stage 3: timing window + monotone stamps' if stage3 else 'stages 1+2', contract, setup, None)
    cfg.bmc = lambda: wave_eval_bmc_config(stage3)
    cfg.bmc_domain = (-1, 8)
    cfg.fuzz = lambda: fuzz_wave_eval(stage3)
    return cfg


def targets(stage3=False):
    return [Target('wave_sim', '_wave_eval', [wave_eval_config(stage3)], kinds={'time': lambda n: STime(z3.Real(n))}, instantiate='always',
                   note='the one body behind wave_eval_cpu and _wave_eval_gpu')]


# ------------------------------------------------------------------------------------------------------------------
# Bounded refutation of _wave_eval (used only when an obligation is undecided, or refuted without a replayable model):
# the while loop is unrolled (operands with at most 2 entries, <= 9 iterations), quantifiers are expanded over a small
# index domain, and a model of (requires and not postcondition) is replayed on the real function.  A candidate that does
# not fail on the real code is discarded.
def wave_eval_bmc_config(stage3=False):
    base = wave_eval_config(stage3)

    def setup(ex):
        st = base.setup(ex)
        g = ex.g
        locs, caps, X, n = g['locs'], g['caps'], g['X'], g['n']
        nlocs = to_int(st.env['__nlocs__'])
        sc_ = st.heap['simctl_int']
        extra = [sc_[1] >= 0, sc_[1] <= 2, sc_[0] >= 0, sc_[0] <= 3, st.env['seed'].e >= 0, st.env['seed'].e <= 3, nlocs <= 6, g['c_len'].e <= 30, to_int(g['ndel']) <= 2, g['zcap'] <= 6, g['sim'].e == 0, g['DMAX'] <= 16,
                 TMIN_E == -1000, TMAX_E == 1000, TMAX_OVL_E == 1100, HUGE == 5000]
        for k in 'abcd':
            extra += [n[k] <= 2, caps[X[k]] <= 4, caps[X[k]] >= 1]
        for c in extra:
            st.assume(SBool(c))
        return st
    contract = dict(base.contract)
    contract['unroll'] = {1: 9}
    contract['merge_ifs'] = True

    def replay(model, obl, ex):
        g = ex.g
        ev = lambda e: model.eval(e, model_completion=True)
        num = lambda e: float(ev(e).as_fraction()) if z3.is_rational_value(ev(e)) or z3.is_int_value(ev(e)) else None
        st0 = ex.st0
        nlocs, c_len, ndel = ev(to_int(st0.env['__nlocs__'])).as_long(), ev(g['c_len'].e).as_long(), ev(to_int(g['ndel'])).as_long()
        if not (0 < nlocs <= 6 and 0 < c_len <= 30 and 1 <= ndel <= 2):
            return None
        op = [ev(o.e).as_long() for o in st0.env['op']]
        locs = [ev(g['locs'][i]).as_long() for i in range(nlocs)]
        caps = [ev(g['caps'][i]).as_long() for i in range(nlocs)]
        cb = [num(g['cb0'][i]) for i in range(c_len)]
        delays = [[[[num(DFUN(z3.IntVal(d), z3.IntVal(l), z3.IntVal(p), z3.IntVal(q))) for q in range(2)] for p in range(2)] for l in range(nlocs)] for d in range(ndel)]
        simctl = [ev(st0.heap['simctl_int'][i]).as_long() for i in range(2)]
        seed = ev(st0.env['seed'].e).as_long()
        return 'contracts.wave_c:run_wave_eval', {'op': op, 'c_locs': locs, 'c_caps': caps, 'cbuf': cb, 'delays': delays, 'simctl_int': simctl, 'seed': seed,
                                                  'stage3': stage3, 'sentinels': [-1000, 1000, 1100]}
    return Config(base.name + ' [bounded unrolling]', contract, setup, replay)


def run_wave_eval(args):
    """replay on the real code: one call of kyupy.wave_sim._wave_eval on concrete arrays, postcondition evaluated concretely"""
    import numpy as np
    from kyupy import wave_sim as W
    tmin, tmax, tovl = args['sentinels']

    def tv(v):
        if v <= tmin:
            return W.TMIN
        if v >= tovl:
            return W.TMAX_OVL
        if v >= tmax:
            return W.TMAX
        return np.float32(v)
    op = np.array(args['op'], dtype=np.int32)
    c_locs, c_caps = np.array(args['c_locs'], dtype=np.int32), np.array(args['c_caps'], dtype=np.int32)
    cbuf = np.array([[tv(v)] for v in args['cbuf']], dtype=np.float32)
    delays = np.array(args['delays'], dtype=np.float64)
    simctl = np.array(args['simctl_int'], dtype=np.int64)
    c0 = cbuf.copy()
    lut, z, xs = int(op[0]), int(op[1]), [int(v) for v in op[2:6]]

    def wave(mem, loc, cap):
        w = mem[loc:loc + cap, 0]
        for k, t in enumerate(w):
            if t >= W.TMAX:
                return [float(x) for x in w[:k]], float(t)
        return None
    ops_w = [wave(c0, c_locs[x], c_caps[x]) for x in xs]
    if any(w is None for w in ops_w):
        return {'reproduced': False, 'note': 'model operands are not well formed after rounding to float32'}
    try:
        nrise, nfall = W._wave_eval(op, cbuf, c_locs, c_caps, 0, delays, simctl, args['seed'])
    except Exception as e:  # noqa
        return {'reproduced': True, 'observed': repr(e)}
    bad = []
    zl, zc = int(c_locs[z]), int(c_caps[z])
    out = wave(cbuf, zl, zc)
    mask = np.ones(len(cbuf), dtype=bool)
    mask[zl:zl + zc] = False
    if not np.array_equal(cbuf[mask], c0[mask]):
        bad.append('Q3 frame: memory outside the own output region changed')
    if out is None:
        bad.append('Q1: no terminator inside the output capacity')
    else:
        ent, term = out
        fin = sum((len(w[0]) & 1) << j for j, w in enumerate(ops_w))
        ini = sum((1 if (w[0] and w[0][0] <= W.TMIN) else 0) << j for j, w in enumerate(ops_w))
        if (len(ent) & 1) != ((lut >> fin) & 1):
            bad.append(f'Q2: final parity {len(ent) & 1} != LUT[{fin}] = {(lut >> fin) & 1}; output {ent}')
        if (1 if (ent and ent[0] <= W.TMIN) else 0) != ((lut >> ini) & 1):
            bad.append(f'Q5: initial value != LUT[{ini}]; output {ent}')
        if any(t <= W.TMIN for t in ent[1:]):
            bad.append('Q7: TMIN after index 0')
        if int(nfall) != len(ent) // 2 or int(nrise) != max(0, (len(ent) + 1) // 2 - (1 if (ent and ent[0] == W.TMIN) else 0)):
            bad.append(f'Q4: counts ({nrise},{nfall}) do not match the output waveform {ent}')
        finite = [t for t in ent if t > W.TMIN]
        if args.get('stage3'):
            lo, hi = None, None
            for x, w in zip(xs, ops_w):
                for t in w[0]:
                    if t > W.TMIN:
                        a, b_ = t + float(delays[:, x].min()), t + float(delays[:, x].max())
                        lo = a if lo is None else min(lo, a)
                        hi = b_ if hi is None else max(hi, b_)
            if finite and (lo is None or min(finite) < np.float32(lo) or max(finite) > np.float32(hi)):
                bad.append(f'Q8: output entries {finite} outside the static-timing window [{lo}, {hi}]')
            indep = all(len(set(np.asarray(delays[:, x]).ravel().tolist())) == 1 for x in set(xs))
            incr = all(all(a < b_ for a, b_ in zip(w[0], w[0][1:])) for w in ops_w)
            if indep and incr and any(a >= b_ for a, b_ in zip(finite, finite[1:])):
                bad.append(f'Q9: time stamps not strictly increasing with polarity-independent delays: {finite}')
    return {'reproduced': bool(bad), 'violated': bad, 'output': None if out is None else out[0], 'operands': [w[0] for w in ops_w]}


def fuzz_wave_eval(stage3, trials=40000, seed=1):
    """bounded stand-in of the same function: the contract of _wave_eval evaluated concretely on the real function over random
    small inputs that satisfy the requires (entries and delays on a small integer grid so that coincidences are frequent).
    -> (runner, args, result) of the first failing input, or None"""
    import random
    rng = random.Random(seed)
    luts = [0x6666, 0x9696, 0x6996, 0x8888, 0xEEEE, 0x8000, 0xFFFE, 0xCACA, 0x7777, 0xAAAA, 0x5555, 0xF888, 0xE0E0]
    for _ in range(trials):
        lut = rng.choice(luts) if rng.random() < 0.8 else rng.randrange(1 << 16)
        k = rng.randrange(1, 5)
        waves = []
        for j in range(4):
            if j >= k:
                waves.append([])
                continue
            n = rng.randrange(0, 4)
            ts = sorted(rng.sample(range(0, 10), n))
            w = ([-1000] if rng.random() < 0.4 else []) + [float(t) for t in ts]
            waves.append(w[:3])
        # memory layout: zero slot 0 (cap 4), operands, output
        c_locs, c_caps, cbuf = [0], [4], [1000.0] * 4
        xs = []
        for j in range(4):
            if j >= k:
                xs.append(0)
                continue
            loc = len(cbuf)
            cap = 4
            cbuf += waves[j] + [1000.0] * (cap - len(waves[j]))
            c_locs.append(loc)
            c_caps.append(cap)
            xs.append(len(c_locs) - 1)
        zcap = rng.choice([4, 4, 8])
        c_locs.append(len(cbuf))
        c_caps.append(zcap)
        cbuf += [float(rng.randrange(0, 9)) for _ in range(zcap)] + [7.0]
        z = len(c_locs) - 1
        nl = len(c_locs)
        if stage3 or rng.random() < 0.5:
            delays = [[[[float(d)] * 2] * 2 for d in [rng.choice([0, 0, 1, 2, 3, 4]) for _ in range(nl)]]]
        else:
            delays = [[[[float(rng.choice([0, 1, 2, 3])) for _ in range(2)] for _ in range(2)] for _ in range(nl)]]
        args = {'op': [lut, z] + xs + [0, 0, 0], 'c_locs': c_locs, 'c_caps': c_caps, 'cbuf': cbuf, 'delays': delays, 'simctl_int': [0, 0], 'seed': 0,
                'stage3': True, 'sentinels': [-1000, 1000, 1100]}
        r = run_wave_eval(args)
        if r.get('reproduced'):
            return 'contracts.wave_c:run_wave_eval', args, r
    return None
