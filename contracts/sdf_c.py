"""Contract of kyupy.sdf.sanitize (C14: "a single value list applies to both output polarities").

An INTERCONNECT / IOPATH entry reaches ``sanitize`` as the argument list [name1, name2, triple (, triple)].  ensures: the result is
[str(name1), str(name2), rise, fall] with rise = the first value list and fall = the second value list if one is given, otherwise the
*same* first value list; nothing else is in the result.  The list is modelled functionally (a tuple of symbolic items in the heap),
so ``append`` on one path cannot leak into another.
"""
import ast

import z3

from pyvc.engine import Model, NotInSubset
from pyvc.values import SInt, SBool, to_int, _conc_int
from pyvc.verify import Config, Target

I = z3.IntSort()
STR = z3.Function('STR', I, I)            # str(x) of an opaque item (lark Token -> str), uninterpreted


class Method(Model):
    def __init__(self, fn):
        self.fn = fn

    def m_call(self, ex, st, args, kwargs, node):
        return self.fn(ex, st, args, kwargs, node)


class Items(Model):
    """a python list of opaque items with a concrete length; contents in st.heap[key] (a tuple of SInt), key None = a temporary"""

    def __init__(self, key, items=None):
        self.key, self.items_ = key, items

    def get(self, st):
        return st.heap[self.key] if self.key is not None else self.items_

    def m_len(self, ex, st, node):
        return len(self.get(st))

    def m_getitem(self, ex, st, idx, node):
        it = self.get(st)
        if isinstance(idx, slice):
            if any(x is not None and _conc_int(x) is None for x in (idx.start, idx.stop, idx.step)):
                raise NotInSubset('symbolic slice of the argument list')
            return Items(None, tuple(it[idx]))
        k = _conc_int(idx)
        if k is None:
            raise NotInSubset('symbolic index into the argument list')
        ex.prove(st, 'no-exception:IndexError args[k]', z3.BoolVal(-len(it) <= k < len(it)), node)
        if not -len(it) <= k < len(it):
            raise NotInSubset('index outside the argument list')
        return it[k]

    def m_getattr(self, ex, st, name, node):
        if name == 'append' and self.key is not None:
            def append(ex_, st_, args, kwargs, node_):
                st_.heap[self.key] = tuple(st_.heap[self.key]) + (args[0],)
                return None
            return Method(append)
        raise NotInSubset(f'list.{name}')

    def m_binop(self, ex, st, op, a, b, node):
        if op is ast.Add:
            la = list(a.get(st)) if isinstance(a, Items) else (list(a) if isinstance(a, list) else None)
            lb = list(b.get(st)) if isinstance(b, Items) else (list(b) if isinstance(b, list) else None)
            if la is not None and lb is not None:
                return Items(None, tuple(la + lb))
        raise NotInSubset('operator on the argument list')


def prims():
    def str_(ex, st, args, kwargs, node):
        if len(args) == 1 and isinstance(args[0], SInt):
            return SInt(STR(to_int(args[0])))
        raise NotInSubset('str of a non-item')
    return {str: str_}


def config(n):
    def setup(ex):
        from pyvc.engine import State
        st = State()
        items = tuple(SInt(z3.Int(f'item{k}')) for k in range(n))
        st.heap['args'] = items
        st.env['args'] = Items('args')
        ex.g = dict(items=items)
        return st

    def post(ex, st, ret=None):
        it = ex.g['items']
        r = st.ret if ret is None else ret
        ok = isinstance(r, (Items, list))
        got = list(r.get(st)) if isinstance(r, Items) else (list(r) if isinstance(r, list) else [])
        yield 'the result is a list of four entries: two names, rise values, fall values', SBool(z3.BoolVal(ok and len(got) == 4))
        if not ok or len(got) != 4:
            return
        if not all(isinstance(x, SInt) for x in got):
            yield 'every entry of the result is a name string or one of the given value lists', SBool(z3.BoolVal(False))
            return
        yield 'every entry of the result is a name string or one of the given value lists', SBool(z3.BoolVal(True))
        yield 'names are the strings of the first two arguments', SBool(z3.And(to_int(got[0]) == STR(to_int(it[0])), to_int(got[1]) == STR(to_int(it[1]))))
        yield 'rise values = the first value list', SBool(to_int(got[2]) == to_int(it[2]))
        yield 'fall values = the second value list if given, otherwise the single value list applies to both polarities', \
            SBool(to_int(got[3]) == to_int(it[3] if n == 4 else it[2]))
        ex.prove(st, 'mustfail:rise and fall values are always the same list', SBool(to_int(got[3]) == to_int(got[2])), ex.fn, expect='refuted' if n == 4 else 'proved')
    return Config(f'{n - 2} value list(s)', {'post': post}, setup, None)


def targets():
    return [Target('sdf', 'sanitize', [config(3), config(4)], prims=prims(), note='argument list functional (tuple in the heap); str() of a token uninterpreted')]


# --------------------------------------------------------------------------------------------- SdfTransformer.start (CELL grouping)
# "however the file groups entries into CELL blocks": args = the children of the (DELAYFILE ...) tree in file order; child k is either a
# CELL block (a tuple (instance name | None, entries)) or something else (the design name string).  Ghost: CNTE(nm, k) = number of
# entries of the blocks named nm among the first k children.   ensures: cells[nm] holds exactly CNTE(nm, n) entries and the j-th entry
# of block i sits at position CNTE(name(i), i) + j of cells[name(i)]  --  every block of an instance is kept, in file order.
B = z3.BoolSort()
ISTUP, BNAME, ELEN = z3.Function('ISTUP', I, B), z3.Function('BNAME', I, I), z3.Function('ELEN', I, I)
EV = z3.Function('EV', I, I, I)                  # EV(k, j): j-th entry of block k
CNTE = z3.Function('CNTE', I, I, I)
HASB = z3.Function('HASB', I, I, B)              # HASB(nm, k): some block among the first k children is named nm


class Entries(Model):
    """t[1] of block k: a list of ELEN(k) opaque entries"""

    def __init__(self, k):
        self.k = k


class Block(Model):
    def __init__(self, k):
        self.k = k

    def m_isinstance(self, ex, st, cls, node):
        if cls is tuple:
            return SBool(ISTUP(self.k))
        if cls is str:
            return SBool(z3.Not(ISTUP(self.k)))
        raise NotInSubset('isinstance of a parse-tree child against another class')

    def m_getitem(self, ex, st, idx, node):
        c = _conc_int(idx)
        ex.prove(st, 'requires:a child is indexed only after it was found to be a CELL block (tuple)', SBool(ISTUP(self.k)), node)
        if c == 0:
            return SInt(BNAME(self.k))
        if c == 1:
            return Entries(self.k)
        raise NotInSubset('component of a CELL block tuple')


class Args(Model):
    def __init__(self, n):
        self.n = n

    def m_iter(self, ex, st, node):
        from pyvc.engine import SymIter
        return SymIter(SInt(self.n), lambda ex_, st_, k: Block(to_int(k)))


class ListRef(Model):
    """cells[nm]: contents heap['L'][nm] (array position -> entry), length heap['LL'][nm]"""

    def __init__(self, nm):
        self.nm = nm

    def m_getattr(self, ex, st, name, node):
        if name == 'extend':
            def extend(ex_, st_, args, kwargs, node_):
                e = args[0]
                if not isinstance(e, Entries) or len(args) != 1:
                    raise NotInSubset('extend with something that is not the entry list of a block')
                L, LL = st_.heap['L'], st_.heap['LL']
                ex_.fresh_id = getattr(ex_, 'fresh_id', 0) + 1
                L2 = z3.Array(f'L_{ex_.fresh_id}', I, z3.ArraySort(I, I))
                nm, j = z3.Ints('nm j')
                ln = LL[self.nm]
                st_.assume(SBool(z3.ForAll([nm, j], L2[nm][j] == z3.If(z3.And(nm == self.nm, j >= ln, j < ln + ELEN(e.k)), EV(e.k, j - ln), L[nm][j]))))
                st_.heap['L'] = L2
                st_.heap['LL'] = z3.Store(LL, self.nm, ln + ELEN(e.k))
                return None
            return Method(extend)
        if name == 'append':
            raise NotInSubset('append to a cell list')
        raise NotInSubset(f'list.{name}')


class Cells(Model):
    def m_getattr(self, ex, st, name, node):
        if name == 'setdefault':
            def setdefault(ex_, st_, args, kwargs, node_):
                if len(args) != 2 or args[1] != [] or not isinstance(args[0], SInt):
                    raise NotInSubset('setdefault with a default other than []')
                nm = to_int(args[0])
                st_.heap['DOM'] = z3.Store(st_.heap['DOM'], nm, True)          # a new key starts with the empty list: LL is 0 outside DOM (invariant)
                return ListRef(nm)
            return Method(setdefault)
        raise NotInSubset(f'dict.{name}')

    def m_getitem(self, ex, st, idx, node):
        nm = to_int(idx)
        ex.prove(st, 'no-exception:KeyError cells[name]', SBool(st.heap['DOM'][nm]), node)
        return ListRef(nm)


def start_slice(stmts):
    """from the statement that creates ``cells`` to the end of the loop that fills it"""
    a = next((i for i, s_ in enumerate(stmts) if isinstance(s_, ast.Assign) and len(s_.targets) == 1 and isinstance(s_.targets[0], ast.Name) and s_.targets[0].id == 'cells'), None)
    b = next((i for i, s_ in enumerate(stmts) if isinstance(s_, ast.For) and a is not None and i > a), None)
    if a is None or b is None:
        from pyvc.source import ContractError
        raise ContractError('grouping phase (cells = ...; for ...) not found in SdfTransformer.start')
    return a, b + 1


def start_config():
    def setup(ex):
        from pyvc.engine import State
        st = State()
        n = ex.fv('n_children', 'int').e
        k, nm, k2 = z3.Ints('k nm k2')
        st.assume(SBool(z3.And(n >= 0, z3.ForAll([k], ELEN(k) >= 0))))
        st.assume(SBool(z3.ForAll([nm], z3.And(CNTE(nm, 0) == 0, z3.Not(HASB(nm, 0))))))
        st.assume(SBool(z3.ForAll([nm, k], z3.Implies(k >= 0, z3.And(
            CNTE(nm, k + 1) == CNTE(nm, k) + z3.If(z3.And(ISTUP(k), BNAME(k) == nm), ELEN(k), 0),
            HASB(nm, k + 1) == z3.Or(HASB(nm, k), z3.And(ISTUP(k), BNAME(k) == nm)))))))
        st.assume(SBool(z3.ForAll([nm, k, k2], z3.Implies(z3.And(0 <= k, k <= k2), CNTE(nm, k) <= CNTE(nm, k2)))))      # monotone (lemma below)
        st.heap['L'] = z3.Array('L_garbage', I, z3.ArraySort(I, I))
        st.heap['LL'] = z3.Array('LL_garbage', I, I)
        st.heap['DOM'] = z3.Array('DOM_garbage', I, B)
        st.env['args'] = Args(n)
        ex.g = dict(n=n)
        return st

    def dict_hook(ex, st, keys, vals, node):
        if keys:
            return NotImplemented
        st.heap['LL'] = z3.K(I, z3.IntVal(0))
        st.heap['DOM'] = z3.K(I, z3.BoolVal(False))
        return Cells()

    def clauses(st, k):
        L, LL, DOM = st.heap['L'], st.heap['LL'], st.heap['DOM']
        nm, i, j = z3.Ints('nm i j')
        return [('G1:cells[nm] holds as many entries as the blocks named nm seen so far', z3.ForAll([nm], LL[nm] == CNTE(nm, k))),
                ('G2:entry j of block i sits at position (entries of earlier blocks of that name) + j',
                 z3.ForAll([i, j], z3.Implies(z3.And(0 <= i, i < k, ISTUP(i), 0 <= j, j < ELEN(i)), L[BNAME(i)][CNTE(BNAME(i), i) + j] == EV(i, j)))),
                ('G3:the keys are the names of the blocks seen so far', z3.ForAll([nm], DOM[nm] == HASB(nm, k)))]

    def inv(ex, st):
        k = to_int(st.env['__k0'])
        for name, c in clauses(st, k):
            yield name, SBool(c)

    def post(ex, st):
        if not isinstance(st.env.get('cells'), Cells):
            yield 'cells is the dictionary built by the loop', SBool(z3.BoolVal(False))
            return
        for name, c in clauses(st, ex.g['n']):
            yield name.split(':', 1)[1] + ' (all children)', SBool(c)
        nm = z3.Int('nm')
        ex.prove(st, 'mustfail:every list stays empty', SBool(z3.ForAll([nm], st.heap['LL'][nm] == 0)), ex.fn, expect='refuted')
    contract = {'post': post, 'dict_hook': dict_hook, 'merge_ifs': True,
                'loops': {0: {'inv': inv, 'modifies': ['L', 'LL', 'DOM'], 'kinds': {'t': 'keep'}}}}
    return Config('any sequence of children, any block names and sizes', contract, setup, None)


def start_lemmas():
    from pyvc.verify import Lemmas

    def build():
        nm, k, k2 = z3.Ints('nm k k2')
        step = z3.And(CNTE(nm, k2 + 1) == CNTE(nm, k2) + z3.If(z3.And(ISTUP(k2), BNAME(k2) == nm), ELEN(k2), 0), ELEN(k2) >= 0)
        yield 'CNTE-mono base', [], CNTE(nm, k) <= CNTE(nm, k)
        yield 'CNTE-mono step', [step, CNTE(nm, k) <= CNTE(nm, k2)], CNTE(nm, k) <= CNTE(nm, k2 + 1)
        yield 'mustfail:CNTE is constant', [step], CNTE(nm, k2 + 1) == CNTE(nm, k2), 'refuted'
    return Lemmas('lemma:CNTE monotone in k (induction on the upper index)', build, note='justifies the assumed monotonicity clause of the SdfTransformer.start contract')


def targets_start():
    return [Target('sdf', 'SdfTransformer.start', [start_config()], prims=prims(), instantiate='fallback', body_slice=start_slice, label='CELL grouping',
                   note='statements `cells = {}` and the loop over the children; the design-name lookup before and the DelayFile constructor after are not part of the verified text'),
            start_lemmas()]
