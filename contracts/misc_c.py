"""Small ground contracts: the popcount lookup table (C15)."""
from pyvc.verify import Lemmas


def popcount_lemmas():
    def build():
        from pyvc import source
        ns = source.module_namespace('__init__')
        lut = ns['_pop_count_lut']
        yield 'popcount table has 256 entries', [], len(lut) == 256
        for i in range(256):
            yield f'_pop_count_lut[{i}] == number of one bits', [], int(lut[i]) == bin(i).count('1')
        yield 'mustfail: the table is constant', [], int(lut[255]) == int(lut[0]), 'refuted'
    return Lemmas('kyupy._pop_count_lut (ground)', build, note='popcount(a) = sum of table entries; np.sum is an assumed numpy contract')


def targets_c15():
    return [popcount_lemmas()]
