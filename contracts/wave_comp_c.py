"""Composition of the waveform evaluation over the op list and the levels (C03): ``level_eval_cpu`` and ``WaveSim.c_prop``.

Abstraction.  For a slot x (line / interface slot) and a lane l the contract of ``_wave_eval`` (proved in wave_c: Q1 well-formed and
terminated, Q2 final value = LUT of the operands' final values incl. the overflow arm, Q5 initial value = LUT of the operands' initial
values, Q3 only the own output region of the own lane is written) speaks about three summaries of the memory region
[c_locs[x], c_locs[x]+c_caps[x]) of lane l:   WOK[x][l]  it holds a well-formed waveform,  FIN[x][l] / INI[x][l]  its final / initial value.
They are ghost state here; a call  wave_eval_cpu(op_k, .., lane s, ..)  changes them exactly as that contract says:
   requires  WOK[in][s] for the four operands
   ensures   for every slot y with the same region as the output:  WOK'[y][s],  FIN'[y][s] = LB(lut_k, FIN[in0..3][s]),  INI' likewise
             for every slot y whose region is disjoint from the output's, and for every other lane:  nothing changes
             (slots that overlap the output region partially: unknown)
Ghost netlist values VF(x,l), VI(x,l) are defined along the op list (A1).  With the memory-map hypotheses
   A2  operands are live when read                  A3  liveness only starts at production (same region as the output)
   A4w whoever lives after op k is either disjoint from the output region or has exactly that region and carries the output's value
(D and A2 are proved for the allocation phase in alloc_c; the rest is evaluated on real SimOps by the bounded part) the invariant
   Inv(k):  forall x, lane.  LIVE(x,k) -> WOK[x][lane] and FIN[x][lane] = VF(x,lane) and INI[x][lane] = VI(x,lane)
is proved to be carried by the two nested loops of level_eval_cpu (mixed form Inv(k+1) for lanes done / Inv(k) for lanes to do) and, with
level_eval_cpu by contract, by the level loop of WaveSim.c_prop:  Inv(0) -> Inv(n): every line that is live at the end (captured) holds a
well-formed waveform whose initial and final values are the Boolean netlist values of the initial and final input values.
The same induction carries the static-timing window (C04): WIN[x][l] = every finite entry of the region lies in [LO(x), HI(x)], where the ghost bounds satisfy the
window recurrence (LO(out) <= LO(in) + smallest line delay, HI(out) >= HI(in) + largest line delay: the definition of the window); the one-op step Q8 (stage 3 of wave_c)
turns "operands inside their windows" into "output inside its window", hence Inv also gives WIN for every live slot.
"""
import z3

from pyvc.engine import State, Model, NotInSubset
from pyvc.values import SInt, SBool, to_int
from pyvc.models_obj import SObj, Table2
from pyvc.verify import Config, Target
from contracts.wave_kernels_c import OPSF, Opaque, SimCtl, SimCtlCol, Abuf, NR, NF, I2
from contracts.simops_c import IntList

I, B = z3.IntSort(), z3.BoolSort()
A2B = z3.ArraySort(I, z3.ArraySort(I, B))
VF = z3.Function('VF', I, I, B)
VI = z3.Function('VI', I, I, B)
LIVE = z3.Function('LIVE', I, I, B)
CLf = z3.Function('CLf', I, I)
CCf = z3.Function('CCf', I, I)
LB = z3.Function('LB', I, B, B, B, B, B)       # output bit of the op's lookup table for four operand bits (any function: A1 and Q2 use the same)


def disj(y, o):
    return z3.Or(CLf(y) + CCf(y) <= CLf(o), CLf(o) + CCf(o) <= CLf(y))


def same(y, o):
    return z3.And(CLf(y) == CLf(o), CCf(y) == CCf(o))


def ok(st, x, l):
    return z3.And(st.heap['WOK'][x][l], st.heap['FIN'][x][l] == VF(x, l), st.heap['INI'][x][l] == VI(x, l), st.heap['WIN'][x][l])


def hyps(k):
    """A1-A4w for op k"""
    out = OPSF(k, 1)
    ins = [OPSF(k, c) for c in range(2, 6)]
    lut = OPSF(k, 0)
    x, l = z3.Ints('x l')
    h = [z3.ForAll([l], z3.And(VF(out, l) == LB(lut, *[VF(i, l) for i in ins]), VI(out, l) == LB(lut, *[VI(i, l) for i in ins])))]       # A1
    h += [LIVE(i, k) for i in ins]                                                                                                    # A2
    h.append(z3.ForAll([x], z3.Implies(z3.And(LIVE(x, k + 1), z3.Not(same(x, out))), LIVE(x, k))))                                     # A3
    h.append(z3.ForAll([x, l], z3.Implies(LIVE(x, k + 1), z3.Or(disj(x, out), z3.And(same(x, out), VF(x, l) == VF(out, l), VI(x, l) == VI(out, l))))))   # A4w
    h.append(z3.And(*[disj(i, out) for i in ins]))      # the output region never overlaps an operand region (requires of _wave_eval)
    h.append(z3.ForAll([x], CCf(x) >= 1))               # every mapped region has a positive capacity (clause M of the allocation phase)
    return h


def eval_callee_comp(ex, st, args, kwargs, node):
    op, c, c_locs, c_caps, sim, delays, sc, seed = args
    k = st.env['__op_index__']
    okrow = isinstance(op, tuple) and len(op) == 9 and all(z3.eq(z3.simplify(to_int(op[j]) - OPSF(to_int(k), j)), z3.IntVal(0)) for j in range(9))
    ex.prove(st, 'call:evaluates the row of the current op index', okrow, node)
    ex.prove(st, 'call:passes c, c_locs, c_caps, delays through', all(isinstance(x_, Opaque) and x_.name == nm for x_, nm in zip((c, c_locs, c_caps, delays), ('c', 'c_locs', 'c_caps', 'delays'))), node)
    ex.prove(st, 'call:lane control column is the own lane', isinstance(sc, SimCtlCol) and (to_int(sc.lane) == to_int(sim)), node)
    st.env['__lane__'] = sim
    kk, s = to_int(k), to_int(sim)
    out, lut = OPSF(kk, 1), OPSF(kk, 0)
    ins = [OPSF(kk, c_) for c_ in range(2, 6)]
    W0, F0, I0, N0 = st.heap['WOK'], st.heap['FIN'], st.heap['INI'], st.heap['WIN']
    for j, i in enumerate(ins):
        ex.prove(st, f'requires _wave_eval: operand {j} holds a well-formed waveform in this lane', W0[i][s], node)
        ex.prove(st, f'requires _wave_eval: the output region does not overlap the region of operand {j}', disj(i, out), node)
    n_ = next(ex.fresh)
    W1, F1, I1, N1 = (z3.Const(f'{nm}!{n_}', A2B) for nm in ('WOK', 'FIN', 'INI', 'WIN'))
    y, l = z3.Ints('y l')
    st.assume(SBool(z3.ForAll([y, l], z3.Implies(z3.Or(l != s, disj(y, out)), z3.And(W1[y][l] == W0[y][l], F1[y][l] == F0[y][l], I1[y][l] == I0[y][l], N1[y][l] == N0[y][l])))))
    # Q8 (one-op static-timing step, proved in wave_c stage 3) with the window recurrence  LO(out) <= min_c(LO(in_c) + dmin_c), HI(out) >= max_c(HI(in_c) + dmax_c)
    # (the definition of the static-timing window): operands inside their windows  =>  the output inside its window
    st.assume(SBool(z3.ForAll([y], z3.Implies(same(y, out), z3.And(W1[y][s], F1[y][s] == LB(lut, *[F0[i][s] for i in ins]), I1[y][s] == LB(lut, *[I0[i][s] for i in ins]),
                                                                  z3.Implies(z3.And(*[N0[i][s] for i in ins]), N1[y][s]))))))
    st.heap['WOK'], st.heap['FIN'], st.heap['INI'], st.heap['WIN'] = W1, F1, I1, N1
    C = st.heap['calls']
    st.heap['calls'] = z3.Store(C, kk, z3.Store(C[kk], s, C[kk][s] + 1))
    return (SInt(NR(kk, s)), SInt(NF(kk, s)))


def inv_at(st, k, lo, hi):
    x, l = z3.Ints('x l')
    return z3.ForAll([x, l], z3.Implies(z3.And(lo <= l, l < hi, LIVE(x, k)), ok(st, x, l)))


def level_comp_config():
    def setup(ex):
        st = State()
        a, b_, s0, s1, nops, alen = (ex.fv(n, 'int') for n in ('op_start', 'op_stop', 'sim_start', 'sim_stop', 'n_ops', 'abuf_len'))
        st.assume(SBool(z3.And(0 <= a.e, a.e <= b_.e, b_.e <= nops.e, 0 <= s0.e, s0.e <= s1.e, alen.e >= 1)))
        k = z3.Int('k')
        st.assume(SBool(z3.ForAll([k], z3.Implies(z3.And(0 <= k, k < nops.e), OPSF(k, 6) < alen.e))))
        st.heap['abuf'] = z3.Const('abuf0', I2)
        st.heap['calls'] = z3.K(I, z3.K(I, z3.IntVal(0)))
        for nm in ('WOK', 'FIN', 'INI', 'WIN'):
            st.heap[nm] = z3.Const(nm + '0', A2B)
        st.env.update(ops=Table2(OPSF, nops, 9), op_start=a, op_stop=b_, c=Opaque('c'), c_locs=Opaque('c_locs'), c_caps=Opaque('c_caps'), abuf=Abuf(),
                      sim_start=s0, sim_stop=s1, delays=Opaque('delays'), simctl_int=SimCtl(), seed=ex.fv('seed', 'int'))
        st.env['__abuf_len__'] = alen
        ex.g = dict(a=a.e, b=b_.e, s0=s0.e, s1=s1.e)
        st.assume(SBool(inv_at(st, a.e, s0.e, s1.e)))          # requires Inv(op_start) on the lanes of the call
        return st

    def outer_assume(ex, st):
        g = ex.g
        k = g['a'] + to_int(st.env['__k0'])
        st.env['__op_index__'] = SInt(k)
        for h in hyps(k):
            st.assume(SBool(h))

    def outer_inv(ex, st):
        g = ex.g
        k = g['a'] + to_int(st.env['__k0'])
        yield 'Inv: every live slot holds a well-formed waveform with the netlist initial and final value (all lanes of the call)', \
            SBool(inv_at(st, k, g['s0'], g['s1']))

    def inner_inv(ex, st):
        g = ex.g
        k = g['a'] + to_int(st.env['__k0'])
        sc = g['s0'] + to_int(st.env['__k1'])
        yield 'Inv(k+1) on the lanes already evaluated for the current op', SBool(inv_at(st, k + 1, g['s0'], sc))
        yield 'Inv(k) on the lanes still to do', SBool(inv_at(st, k, sc, g['s1']))
        yield 'outer index in range', SBool(z3.And(g['a'] <= k, k < g['b']))

    def post(ex, st):
        g = ex.g
        yield 'Inv(op_stop): every slot live after the range holds a well-formed waveform with the netlist initial and final value', \
            SBool(inv_at(st, g['b'], g['s0'], g['s1']))
        x, l = z3.Ints('x l')
        ex.prove(st, 'mustfail:every final value is 0', SBool(z3.ForAll([x, l], z3.Implies(z3.And(g['s0'] <= l, l < g['s1'], LIVE(x, g['b'])), z3.Not(st.heap['FIN'][x][l])))),
                 ex.fn, expect='refuted')
    mods = ['abuf', 'calls', 'WOK', 'FIN', 'INI', 'WIN']
    contract = {'post': post, 'loop_match': {0: ('range(op_start, op_stop)', 0), 1: ('range(sim_start, sim_stop)', None)},
                'loops': {0: {'inv': outer_inv, 'assume': outer_assume, 'modifies': mods, 'kinds': {'op': 'keep', 'a_loc': 'int', 'a_wr': 'int', 'a_wf': 'int', 'nrise': 'int', 'nfall': 'int'}},
                          1: {'inv': inner_inv, 'modifies': mods, 'kinds': {'a_loc': 'int', 'a_wr': 'int', 'a_wf': 'int', 'nrise': 'int', 'nfall': 'int'}}}}
    return Config('composition over an op range x lane range (A1-A4w)', contract, setup, None)


def level_prims(globs):
    p = {}
    for nm in ('wave_eval_cpu', '_wave_eval_gpu'):
        if nm in globs:
            p[globs[nm]] = eval_callee_comp
    return p


# ------------------------------------------------------------------------------------------------- WaveSim.c_prop over the levels
def cprop_config(sims_arg):
    def setup(ex):
        st = State()
        n, sims = ex.fv('n_ops', 'int'), ex.fv('self_sims', 'int')
        ln = ex.fv('n_levels', 'int').e
        st.assume(SBool(z3.And(n.e >= 0, sims.e >= 1)))
        L, T = z3.Array('L', I, I), z3.Array('T', I, I)
        ls, lt = IntList('level_starts'), IntList('level_stops')
        st.heap[('level_starts', 'arr')], st.heap[('level_starts', 'len')] = L, SInt(ln)
        st.heap[('level_stops', 'arr')], st.heap[('level_stops', 'len')] = T, SInt(ln)
        l = z3.Int('l')
        # S1 of the level partition (proved for the levelisation phase in simops_c)
        st.assume(SBool(z3.And(ln >= 1, L[0] == 0, T[ln - 1] == n.e)))
        st.assume(SBool(z3.ForAll([l], z3.Implies(z3.And(0 <= l, l < ln - 1), z3.And(T[l] == L[l + 1], L[l] < L[l + 1])))))
        st.assume(SBool(z3.ForAll([l], z3.Implies(z3.And(0 <= l, l < ln), z3.And(L[l] >= 0, L[l] <= n.e, T[l] >= L[l], T[l] <= n.e)))))
        for nm in ('WOK', 'FIN', 'INI', 'WIN'):
            st.heap[nm] = z3.Const(nm + '0', A2B)
        selfo = SObj.new(st, 'self', ops=Table2(OPSF, n, 9), c=Opaque('c'), c_locs=Opaque('c_locs'), c_caps=Opaque('c_caps'), abuf=Opaque('abuf'),
                         delays=Opaque('delays'), simctl_int=Opaque('simctl_int'), sims=sims, level_starts=ls, level_stops=lt)
        ex.readonly.update({('self', f) for f in ('ops', 'c', 'c_locs', 'c_caps', 'abuf', 'delays', 'simctl_int', 'sims', 'level_starts', 'level_stops')})
        ex.readonly.update({('level_starts', 'arr'), ('level_starts', 'len'), ('level_stops', 'arr'), ('level_stops', 'len')})
        if sims_arg == 'none':
            sv, eff = None, sims.e
        else:
            sv = ex.fv('sims', 'int')
            st.assume(SBool(sv.e >= 1))
            eff = z3.If(sv.e < sims.e, sv.e, sims.e)
        st.env.update(self=selfo, sims=sv, seed=ex.fv('seed', 'int'))
        ex.g = dict(n=n.e, L=L, T=T, ln=ln, eff=eff)
        st.assume(SBool(inv_at(st, z3.IntVal(0), 0, eff)))          # requires Inv(0): the sources hold their stimulus waveforms
        return st

    def level_k(g, l):
        return z3.If(l < g['ln'], g['L'][l], g['n'])

    def inv(ex, st):
        g = ex.g
        l = to_int(st.env['__k0'])
        yield 'Inv(start of the level) on the simulated lanes', SBool(inv_at(st, level_k(g, l), 0, g['eff']))

    def post(ex, st):
        g = ex.g
        yield 'Inv(n): every slot live after the last op (captured lines) holds a well-formed waveform whose initial / final value is the netlist value', \
            SBool(inv_at(st, g['n'], 0, g['eff']))
        x, l = z3.Ints('x l')
        ex.prove(st, 'mustfail:every final value is 0', SBool(z3.ForAll([x, l], z3.Implies(z3.And(0 <= l, l < g['eff'], LIVE(x, g['n'])), z3.Not(st.heap['FIN'][x][l])))),
                 ex.fn, expect='refuted')

    contract = {'post': post, 'loop_match': {0: ('zip(', 0)}, 'loops': {0: {'inv': inv, 'modifies': ['WOK', 'FIN', 'INI', 'WIN']}}}
    return Config(f'any level partition, sims={sims_arg}', contract, setup, None)


def cprop_prims(globs):
    def level_eval_model(ex, st, args, kwargs, node):
        """level_eval_cpu by its composition contract: requires Inv(op_start) on lanes [sim_start, sim_stop), ensures Inv(op_stop) there;
        other lanes untouched"""
        ops, a, b_, c, c_locs, c_caps, abuf, s0, s1, delays, sc, seed = args
        g = ex.g
        passthru = all(isinstance(v, Opaque) and v.name == nm for v, nm in ((c, 'c'), (c_locs, 'c_locs'), (c_caps, 'c_caps'), (abuf, 'abuf'), (delays, 'delays'), (sc, 'simctl_int')))
        ex.prove(st, 'call:level_eval_cpu gets ops, c, c_locs, c_caps, abuf, delays, simctl_int of self', passthru and ops is st.heap[('self', 'ops')], node)
        a, b_, s0, s1 = to_int(a), to_int(b_), to_int(s0), to_int(s1)
        ex.prove(st, 'requires level_eval_cpu: 0 <= op_start <= op_stop <= n_ops, 0 <= sim_start <= sim_stop', z3.And(0 <= a, a <= b_, b_ <= g['n'], 0 <= s0, s0 <= s1), node)
        ex.prove(st, 'requires level_eval_cpu: Inv(op_start) on the lanes of the call', inv_at(st, a, s0, s1), node)
        for k in ('hyps',):
            kk = z3.Int('kk')
            # the per-op hypotheses A1-A4w are assumed for every op of the range (they are properties of the op list and the memory map)
        n_ = next(ex.fresh)
        W1, F1, I1, N1 = (z3.Const(f'{nm}!{n_}', A2B) for nm in ('WOK', 'FIN', 'INI', 'WIN'))
        W0, F0, I0, N0 = st.heap['WOK'], st.heap['FIN'], st.heap['INI'], st.heap['WIN']
        y, l = z3.Ints('y l')
        st.assume(SBool(z3.ForAll([y, l], z3.Implies(z3.Or(l < s0, l >= s1), z3.And(W1[y][l] == W0[y][l], F1[y][l] == F0[y][l], I1[y][l] == I0[y][l], N1[y][l] == N0[y][l])))))
        st.heap['WOK'], st.heap['FIN'], st.heap['INI'], st.heap['WIN'] = W1, F1, I1, N1
        st.assume(SBool(inv_at(st, b_, s0, s1)))
        return None
    return {globs['level_eval_cpu']: level_eval_model}


def targets():
    return [Target('wave_sim', 'level_eval_cpu', [level_comp_config()], prims=level_prims, instantiate='fallback', label='composition',
                   note='Inv over the op list under A1-A4w, wave_eval_cpu by the contract of _wave_eval (Q1, Q2, Q3, Q5)'),
            Target('wave_sim', 'WaveSim.c_prop', [cprop_config('none'), cprop_config('k')], prims=cprop_prims, instantiate='fallback',
                   note='Inv over the levels, level_eval_cpu by its composition contract')]


# ------------------------------------------------------------------------------------------------- WaveSim.c_to_s (C13)
from pyvc.models_obj import IntArr  # noqa: E402

CAP = [z3.Function(f'CAP{r}', I, I, I, I) for r in range(8)]      # result r of wave_capture_cpu(c, c_loc, c_len, vector, ..) on the current memory
S3 = z3.ArraySort(I, z3.ArraySort(I, z3.ArraySort(I, I)))


class GatherArr(Model):
    """an integer array given by an element function (result of ``a + k`` or of the gather ``a[b]``)"""

    def __init__(self, length, elem, bound=None):
        self.length, self.elem, self.bound = length, elem, bound

    def m_len(self, ex, st, node):
        return self.length

    def m_iter(self, ex, st, node):
        from pyvc.engine import SymIter

        def item(ex_, st_, k):
            if self.bound is not None:
                ex_.prove(st_, 'index-in-bounds:gather', self.bound(to_int(k)), node)
            return SInt(self.elem(to_int(k)))
        return SymIter(self.length, item)


class LocArr(IntArr):
    """IntArr that supports ``arr + scalar`` / ``scalar + arr`` and the gather ``arr[index array]``"""

    def m_binop(self, ex, st, op, a, b, node):
        import ast as _ast
        other = b if a is self else a
        if op is _ast.Add and not isinstance(other, Model):
            arr, k = st.heap[self.name], to_int(other)
            return GatherArr(self.length, lambda j: z3.Select(arr, j) + k)
        raise NotInSubset('array arithmetic')

    def m_getitem(self, ex, st, idx, node):
        if isinstance(idx, IntArr):
            ia = st.heap[idx.name]
            idx = GatherArr(idx.length, lambda j: z3.Select(ia, j))
        if isinstance(idx, GatherArr):
            arr, n = st.heap[self.name], to_int(self.length)
            return GatherArr(idx.length, lambda j: z3.Select(arr, idx.elem(j)), bound=lambda j: z3.And(idx.elem(j) >= 0, idx.elem(j) < n))
        return super().m_getitem(ex, st, idx, node)


class SArr3(Model):
    """self.s : heap['s'][row][s_loc][lane]; only the slice assignment s[3:, s_loc, vector] = (8 values) is modelled"""

    row0 = 0

    def m_getitem(self, ex, st, idx, node):
        if isinstance(idx, slice) and idx.start == 3 and idx.stop is None and idx.step is None and self.row0 == 0:
            v = SArr3()          # basic slice s[3:]: a view on rows 3.. (writes go through)
            v.row0 = 3
            return v
        raise NotInSubset('read of s')

    def m_setitem(self, ex, st, idx, val, node):
        ok_direct = self.row0 == 0 and isinstance(idx, tuple) and len(idx) == 3 and isinstance(idx[0], slice) and idx[0].start == 3 and idx[0].stop is None and idx[0].step is None
        ok_view = self.row0 == 3 and isinstance(idx, tuple) and len(idx) == 3 and idx[0] == slice(None, None, None)
        if not (ok_direct or ok_view):
            raise NotInSubset('assignment into s other than s[3:, s_loc, vector]')
        if not (isinstance(val, tuple) and len(val) == 8):
            ex.prove(st, 'no-exception:the capture result has 8 entries (rows 3..10 of s)', False, node)
            return
        sl, v = to_int(idx[1]), to_int(idx[2])
        g = ex.g
        ex.prove(st, 'index-in-bounds:s[3:, s_loc, vector]', z3.And(sl >= 0, sl < g['s_len'], v >= 0, v < g['sims']), node)
        S = st.heap['s']
        for r, x in enumerate(val):
            S = z3.Store(S, 3 + r, z3.Store(S[3 + r], sl, z3.Store(S[3 + r][sl], v, to_int(x))))
        st.heap['s'] = S


def c_to_s_config():
    def setup(ex):
        st = State()
        s_len, sims, n_out, nlocs, ppo = (ex.fv(n, 'int') for n in ('s_len', 'sims', 'n_poppo', 'c_locs_len', 'ppo_offset'))
        st.assume(SBool(z3.And(s_len.e >= 0, sims.e >= 0, n_out.e >= 0, ppo.e >= 0, ppo.e + s_len.e <= nlocs.e)))
        def loc_arr(name, length):
            IntArr.new(ex, st, name, length=length)
            return LocArr(name, length, False)
        ps, cl, cc = loc_arr('poppo_s_locs', n_out), loc_arr('c_locs', nlocs), loc_arr('c_caps', nlocs)
        j = z3.Int('j')
        st.assume(SBool(z3.ForAll([j], z3.Implies(z3.And(0 <= j, j < n_out.e), z3.And(st.heap['poppo_s_locs'][j] >= 0, st.heap['poppo_s_locs'][j] < s_len.e)))))
        # the derived index table of SimOps: poppo_c_locs[j] = c_locs[ppo_offset + poppo_s_locs[j]] (available to the function, e.g. after a refactoring)
        pcl = loc_arr('poppo_c_locs', n_out)
        st.assume(SBool(z3.ForAll([j], z3.Implies(z3.And(0 <= j, j < n_out.e), st.heap['poppo_c_locs'][j] == st.heap['c_locs'][ppo.e + st.heap['poppo_s_locs'][j]]))))
        st.heap['s'] = z3.Const('s0', S3)
        selfo = SObj.new(st, 'self', poppo_s_locs=ps, poppo_c_locs=pcl, c_locs=cl, c_caps=cc, ppo_offset=ppo, sims=sims, s=SArr3(), c=Opaque('c'))
        ex.readonly.update({('self', f) for f in ('poppo_s_locs', 'poppo_c_locs', 'c_locs', 'c_caps', 'ppo_offset', 'sims', 's', 'c')})
        st.env.update(self=selfo, time=Opaque('time'), sd=Opaque('sd'), seed=Opaque('seed'))
        ex.g = dict(s_len=s_len.e, sims=sims.e, n=n_out.e, ppo=ppo.e, PS=st.heap['poppo_s_locs'], CL=st.heap['c_locs'], CC=st.heap['c_caps'], s0=st.heap['s'])
        return st

    def want(g, r, sl, v):
        return CAP[r](g['CL'][g['ppo'] + sl], g['CC'][g['ppo'] + sl], v)

    def outer_inv(ex, st):
        g = ex.g
        k = to_int(st.env['__k0'])
        S = st.heap['s']
        j, v, r, x = z3.Ints('j v r x')
        for rr in range(8):
            yield f'row {3 + rr} of every port passed so far holds result {rr} of the capture of its own waveform, in every lane', \
                SBool(z3.ForAll([j, v], z3.Implies(z3.And(0 <= j, j < k, 0 <= v, v < g['sims']), S[3 + rr][g['PS'][j]][v] == want(g, rr, g['PS'][j], v))))
        yield 'frame: rows 0..2 (the assignments) are untouched', SBool(z3.And(S[0] == g['s0'][0], S[1] == g['s0'][1], S[2] == g['s0'][2]))

    def inner_inv(ex, st):
        g = ex.g
        k, vv = to_int(st.env['__k0']), to_int(st.env['__k1'])
        S = st.heap['s']
        j, v = z3.Ints('j v')
        cur = g['PS'][k]
        for rr in range(8):
            yield f'row {3 + rr}: ports passed so far in every lane, the current port in the lanes passed so far', \
                SBool(z3.And(z3.ForAll([j, v], z3.Implies(z3.And(0 <= j, j < k, 0 <= v, v < g['sims']), S[3 + rr][g['PS'][j]][v] == want(g, rr, g['PS'][j], v))),
                             z3.ForAll([v], z3.Implies(z3.And(0 <= v, v < vv), S[3 + rr][cur][v] == want(g, rr, cur, v)))))
        yield 'frame: rows 0..2 (the assignments) are untouched', SBool(z3.And(S[0] == g['s0'][0], S[1] == g['s0'][1], S[2] == g['s0'][2]))
        yield 'outer index in range', SBool(z3.And(0 <= k, k < g['n']))

    def post(ex, st):
        g = ex.g
        S = st.heap['s']
        j, v = z3.Ints('j v')
        for rr in range(8):
            yield f's[{3 + rr}] of every output / state element holds result {rr} of the capture of its own output-slot waveform, in every lane', \
                SBool(z3.ForAll([j, v], z3.Implies(z3.And(0 <= j, j < g['n'], 0 <= v, v < g['sims']), S[3 + rr][g['PS'][j]][v] == want(g, rr, g['PS'][j], v))))
        yield 'frame: rows 0..2 (the assignments) are untouched', SBool(z3.And(S[0] == g['s0'][0], S[1] == g['s0'][1], S[2] == g['s0'][2]))
        ex.prove(st, 'mustfail:s is unchanged', SBool(S == g['s0']), ex.fn, expect='refuted')

    contract = {'post': post, 'loop_match': {0: ('zip(', 0), 1: ('@inner:0', 0)},
                'loops': {0: {'inv': outer_inv, 'modifies': ['s'], 'kinds': {}}, 1: {'inv': inner_inv, 'modifies': ['s'], 'kinds': {}}}}
    return Config('any interface, any lanes', contract, setup, None)


def c_to_s_prims(globs):
    def capture_model(ex, st, args, kwargs, node):
        """wave_capture_cpu by contract: a function of the memory region [c_loc, c_loc+c_len) of lane ``vector`` and of time / sd / seed (which are
        passed through unchanged); it does not write"""
        if len(args) != 4 or not isinstance(args[0], Opaque) or args[0].name != 'c':
            ex.prove(st, 'call:wave_capture_cpu(self.c, c_loc, c_len, vector, ...)', False, node)
            return tuple(SInt(z3.IntVal(0)) for _ in range(8))
        ok = all(isinstance(kwargs.get(k), Opaque) and kwargs[k].name == k for k in ('time', 'sd', 'seed')) and len(kwargs) == 3
        ex.prove(st, 'call:time, sd and seed are passed through to the capture', ok, node)
        loc, ln, v = (to_int(a) for a in args[1:])
        return tuple(SInt(CAP[r](loc, ln, v)) for r in range(8))
    return {globs['wave_capture_cpu']: capture_model}


def targets_c13():
    return [Target('wave_sim', 'WaveSim.c_to_s', [c_to_s_config()], prims=c_to_s_prims, instantiate='fallback',
                   note='every port row of s gets the capture of its own output-slot waveform; wave_capture_cpu by contract')]


# ------------------------------------------------------------------------------------------------- WaveSim.s_to_c (C03 / C04 / C06)
import ast as _ast  # noqa: E402

R = z3.RealSort()
SFN = z3.Function('S_in', I, I, I, R)          # s[row, s_loc, lane]
INVPC = z3.Function('INVPC', I, I)             # ghost inverse of pippi_c_locs (the input slots have distinct locations)


def rv(x):
    """python / numpy float -> exact z3 real"""
    from fractions import Fraction
    f = Fraction(float(x))
    return z3.RealVal(f'{f.numerator}/{f.denominator}')


class VArr(Model):
    """numpy array (any rank, here 2 or 3) given by an element function over index terms; kind in real / bool / int"""

    def __init__(self, rank, elem, kind):
        self.rank, self.elem, self.kind = rank, elem, kind

    def as_int(self):
        if self.kind == 'bool':
            return VArr(self.rank, lambda *ix: z3.If(self.elem(*ix), 1, 0), 'int')
        return self

    def m_getitem(self, ex, st, idx, node):
        from pyvc.values import _conc_int
        if isinstance(idx, tuple) and len(idx) == 2 and isinstance(idx[0], slice) and idx[0].start is None and idx[0].step is None and isinstance(idx[1], IntArr) and self.rank == 3 \
                and (idx[0].stop is None or (_conc_int(idx[0].stop) is not None and _conc_int(idx[0].stop) >= 3)):
            # s[:k, idx] with k >= 3: rows 0..2 are the only ones the function reads (a row index >= k would be an IndexError in numpy; k >= 3 covers them)
            arr = st.heap[idx[1].name]
            return VArr(3, lambda r, j, l: self.elem(r, z3.Select(arr, j), l), self.kind)
        k = _conc_int(idx)
        if k is not None and not isinstance(idx, tuple) and self.rank == 3:
            return VArr(2, lambda j, l: self.elem(z3.IntVal(k), j, l), self.kind)
        raise NotInSubset(f'array index {idx!r}')

    def m_compare(self, ex, st, op, a, b, node):
        other = b if a is self else a
        if isinstance(other, Model) or op not in (_ast.NotEq, _ast.Eq):
            raise NotInSubset('array comparison')
        o = rv(other) if self.kind == 'real' else z3.IntVal(int(other))
        me = self.as_int() if self.kind == 'bool' else self
        f = (lambda *ix: me.elem(*ix) != o) if op is _ast.NotEq else (lambda *ix: me.elem(*ix) == o)
        return VArr(self.rank, f, 'bool')

    def m_unary(self, ex, st, op, node):
        if op is _ast.Invert and self.kind == 'bool':
            return VArr(self.rank, lambda *ix: z3.Not(self.elem(*ix)), 'bool')
        raise NotInSubset('unary operator on an array')

    def m_binop(self, ex, st, op, a, b, node):
        x, y = a, b
        if op in (_ast.BitAnd, _ast.BitOr) and isinstance(x, VArr) and isinstance(y, VArr) and x.kind == 'bool' and y.kind == 'bool':
            f = z3.And if op is _ast.BitAnd else z3.Or
            return VArr(self.rank, lambda *ix: f(x.elem(*ix), y.elem(*ix)), 'bool')
        if op not in (_ast.Add, _ast.Mult):
            raise NotInSubset('array arithmetic other than + and *')

        def lift(v):
            if isinstance(v, VArr):
                v = v.as_int()
                if v.kind != 'int':
                    raise NotInSubset('arithmetic on a real array')
                return v.elem
            if isinstance(v, Model):
                raise NotInSubset('array arithmetic with a model')
            return lambda *ix: to_int(v)
        fx, fy = lift(x), lift(y)
        if op is _ast.Add:
            return VArr(self.rank, lambda *ix: fx(*ix) + fy(*ix), 'int')
        return VArr(self.rank, lambda *ix: fx(*ix) * fy(*ix), 'int')


class CMem(Model):
    """self.c : heap['c'][loc][lane] (reals); only scatter assignments  c[index array] = values  are modelled"""

    def m_setitem(self, ex, st, idx, val, node):
        g = ex.g
        if isinstance(idx, IntArr):
            arr = st.heap[idx.name]
            off = z3.IntVal(0)
        elif isinstance(idx, GatherArr) and getattr(idx, 'offset_of', None) is not None:
            arr, off = idx.offset_of
        else:
            raise NotInSubset('scatter index other than pippi_c_locs (+ constant)')
        if not z3.eq(arr, g['PC']):
            raise NotInSubset('scatter through another index array')
        if isinstance(val, VArr):
            if val.rank != 2 or val.kind != 'real':
                raise NotInSubset('scatter of a non-real / non-matrix value')
            vf = val.elem
        elif isinstance(val, Model):
            raise NotInSubset('scatter value')
        else:
            vf = lambda j, l: rv(val)
        C0 = st.heap['c']
        C1 = z3.Array(f'c!{next(ex.fresh)}', I, z3.ArraySort(I, R))
        loc, l = z3.Ints('loc l')
        src = INVPC(loc - off)
        inimg = z3.And(0 <= src, src < g['n'], g['PC'][src] == loc - off)
        st.assume(SBool(z3.ForAll([loc, l], C1[loc][l] == z3.If(z3.And(inimg, 0 <= l, l < g['sims']), vf(src, l), C0[loc][l]))))
        ex.assumed.add('numpy scatter c[idx] = v with pairwise distinct idx: c[idx[j], lane] = v[j, lane], everything else unchanged')
        st.heap['c'] = C1


def s_to_c_prims(globs):
    np = globs['np']

    def choose(ex, st, args, kwargs, node):
        cond, choices = args
        if not isinstance(cond, VArr) or cond.rank != 2 or not isinstance(choices, (list, tuple)):
            raise NotInSubset('np.choose shape')
        cond = cond.as_int()
        j, l = z3.Ints('j l')
        ex.prove(st, 'no-exception:np.choose selector in range', z3.ForAll([j, l], z3.And(cond.elem(j, l) >= 0, cond.elem(j, l) < len(choices))), node)
        fs = []
        for c in choices:
            if isinstance(c, VArr):
                if c.kind != 'real' or c.rank != 2:
                    raise NotInSubset('np.choose choice')
                fs.append(c.elem)
            elif isinstance(c, Model):
                raise NotInSubset('np.choose choice')
            else:
                fs.append(lambda j_, l_, c=c: rv(c))

        def elem(j_, l_):
            r = fs[-1](j_, l_)
            for k in range(len(fs) - 2, -1, -1):
                r = z3.If(cond.elem(j_, l_) == k, fs[k](j_, l_), r)
            return r
        ex.assumed.add('np.choose(selector, choices) element-wise with broadcasting of scalar choices')
        return VArr(2, elem, 'real')
    def where(ex, st, args, kwargs, node):
        if len(args) != 3 or not isinstance(args[0], VArr) or args[0].kind != 'bool' or args[0].rank != 2:
            raise NotInSubset('np.where shape')
        cnd = args[0]

        def val(v):
            if isinstance(v, VArr):
                if v.kind != 'real' or v.rank != 2:
                    raise NotInSubset('np.where operand')
                return v.elem
            if isinstance(v, Model):
                raise NotInSubset('np.where operand')
            return lambda j_, l_, v=v: rv(v)
        fa, fb = val(args[1]), val(args[2])
        ex.assumed.add('np.where(mask, a, b) element-wise with broadcasting of scalars')
        return VArr(2, lambda j_, l_: z3.If(cnd.elem(j_, l_), fa(j_, l_), fb(j_, l_)), 'real')
    return {np.choose: choose, np.where: where}


class PCArr(LocArr):
    def m_binop(self, ex, st, op, a, b, node):
        other = b if a is self else a
        if op is _ast.Add and not isinstance(other, Model):
            arr, k = st.heap[self.name], to_int(other)
            g_ = GatherArr(self.length, lambda j: z3.Select(arr, j) + k)
            g_.offset_of = (arr, k)
            return g_
        raise NotInSubset('array arithmetic')


def s_to_c_config():
    def setup(ex):
        st = State()
        n, sims = ex.fv('n_pippi', 'int'), ex.fv('sims', 'int')
        st.assume(SBool(z3.And(n.e >= 0, sims.e >= 0)))
        IntArr.new(ex, st, 'pippi_s_locs', length=n)
        IntArr.new(ex, st, 'pippi_c_locs', length=n)
        ps, pc = LocArr('pippi_s_locs', n, False), PCArr('pippi_c_locs', n, False)
        PC = st.heap['pippi_c_locs']
        j, j2 = z3.Ints('j j2')
        # requires (memory map, C08): the input slots are distinct regions of capacity >= 3 -> locations at least 3 apart; ghost inverse
        st.assume(SBool(z3.ForAll([j], z3.Implies(z3.And(0 <= j, j < n.e), z3.And(PC[j] >= 0, INVPC(PC[j]) == j)))))
        st.assume(SBool(z3.ForAll([j, j2], z3.Implies(z3.And(0 <= j, j < n.e, 0 <= j2, j2 < n.e, j != j2), z3.Or(PC[j] + 3 <= PC[j2], PC[j2] + 3 <= PC[j])))))
        st.heap['c'] = z3.Array('c0', I, z3.ArraySort(I, R))
        selfo = SObj.new(st, 'self', s=VArr(3, lambda r, sl, l: SFN(r, sl, l), 'real'), c=CMem(), pippi_s_locs=ps, pippi_c_locs=pc)
        ex.readonly.update({('self', f) for f in ('s', 'c', 'pippi_s_locs', 'pippi_c_locs')})
        st.env.update(self=selfo)
        ex.g = dict(n=n.e, sims=sims.e, PC=PC, PS=st.heap['pippi_s_locs'], c0=st.heap['c'])
        return st

    def post(ex, st):
        g = ex.g
        C = st.heap['c']
        TMAX, TMIN = rv(ex.globs['TMAX']), rv(ex.globs['TMIN'])
        j, l, loc = z3.Ints('j l loc')
        ini = SFN(0, g['PS'][j], l) != 0
        fin = SFN(2, g['PS'][j], l) != 0
        t = SFN(1, g['PS'][j], l)
        w0 = z3.If(ini, TMIN, z3.If(fin, t, TMAX))
        w1 = z3.If(z3.And(ini, z3.Not(fin)), t, TMAX)
        rng = z3.And(0 <= j, j < g['n'], 0 <= l, l < g['sims'])
        yield 'every input slot holds the waveform of its assignment: constant 0 -> [], rise -> [t], fall -> [TMIN, t], constant 1 -> [TMIN], terminated by TMAX', \
            SBool(z3.ForAll([j, l], z3.Implies(rng, z3.And(C[g['PC'][j]][l] == w0, C[g['PC'][j] + 1][l] == w1, C[g['PC'][j] + 2][l] == TMAX))))
        touched = z3.Or(*[z3.And(0 <= INVPC(loc - k), INVPC(loc - k) < g['n'], g['PC'][INVPC(loc - k)] == loc - k) for k in range(3)])
        yield 'frame: nothing outside the first three entries of the input slots (and the simulated lanes) is written', \
            SBool(z3.ForAll([loc, l], z3.Implies(z3.Or(z3.Not(touched), l < 0, l >= g['sims']), C[loc][l] == g['c0'][loc][l])))
        ex.prove(st, 'mustfail:c is unchanged', SBool(C == g['c0']), ex.fn, expect='refuted')
    return Config('any interface, any assignments', {'post': post}, setup, None)


def targets_s_to_c():
    return [Target('wave_sim', 'WaveSim.s_to_c', [s_to_c_config()], prims=s_to_c_prims, instantiate='fallback',
                   note='numpy gather / choose / scatter as element functions; waveform encoding of the (initial, time, final) assignment')]


# ------------------------------------------------------------------------------------------------- WaveSimCuda.c_prop (C06 / C07)
class Method_(Model):
    def __init__(self, fn):
        self.fn = fn

    def m_call(self, ex, st, args, kwargs, node):
        return self.fn(ex, st, args, kwargs, node)


class CudaMod(Model):
    def m_getattr(self, ex, st, name, node):
        if name == 'synchronize':
            return Method_(lambda ex_, st_, a, k, n: None)
        raise NotInSubset(f'cuda.{name}')


class Kernel(Model):
    """wave_eval_gpu[grid, block](...): the launcher runs every thread of the grid exactly once (launcher_c); one thread evaluates the pair
    (op_start + y, sim_start + x) exactly once iff both are inside their ranges, and nothing otherwise (wave_kernels_c, eval_gpu_config)"""

    def m_getitem(self, ex, st, idx, node):
        if not (isinstance(idx, tuple) and len(idx) == 2 and all(isinstance(t, tuple) and len(t) == 2 for t in idx)):
            raise NotInSubset('kernel launch configuration')
        (gx, gy), (bx, by) = idx
        return Method_(lambda ex_, st_, a, k, n, dims=(gx, gy, bx, by): self.launch(ex_, st_, a, dims, n))

    def launch(self, ex, st, args, dims, node):
        gx, gy, bx, by = (to_int(v) for v in dims)
        ops, a, b_, c, c_locs, c_caps, abuf, s0, s1, delays, sc, seed = args
        g = ex.g
        passthru = all(isinstance(v, Opaque) and v.name == nm for v, nm in ((c, 'c'), (c_locs, 'c_locs'), (c_caps, 'c_caps'), (abuf, 'abuf'), (delays, 'delays'), (sc, 'simctl_int')))
        ex.prove(st, 'call:the kernel gets ops, c, c_locs, c_caps, abuf, delays, simctl_int of self', passthru and ops is st.heap[('self', 'ops')], node)
        a, b_, s0, s1 = to_int(a), to_int(b_), to_int(s0), to_int(s1)
        ex.prove(st, 'requires wave_eval_gpu: 0 <= op_start <= op_stop <= n_ops, 0 <= sim_start <= sim_stop <= sims, grid extents >= 0',
                 z3.And(0 <= a, a <= b_, b_ <= g['n'], 0 <= s0, s0 <= s1, s1 <= g['sims'], gx >= 0, gy >= 0), node)
        ex.prove(st, 'the grid covers the level: grid_x * block_x >= lanes, grid_y * block_y >= ops of the level', z3.And(gx * bx >= s1 - s0, gy * by >= b_ - a), node)
        C = st.heap['calls']
        C1 = z3.Const(f'calls!{next(ex.fresh)}', z3.ArraySort(I, z3.ArraySort(I, I)))
        j, s = z3.Ints('j s')
        hit = z3.And(a <= j, j < b_, j - a < gy * by, s0 <= s, s < s1, s - s0 < gx * bx)
        st.assume(SBool(z3.ForAll([j, s], C1[j][s] == C[j][s] + z3.If(hit, 1, 0))))
        st.heap['calls'] = C1
        return None


def cuda_cprop_config(block, sims_arg):
    def setup(ex):
        st = State()
        n, sims = ex.fv('n_ops', 'int'), ex.fv('self_sims', 'int')
        ln = ex.fv('n_levels', 'int').e
        st.assume(SBool(z3.And(n.e >= 0, sims.e >= 1)))
        L, T = z3.Array('L', I, I), z3.Array('T', I, I)
        ls, lt = IntList('level_starts'), IntList('level_stops')
        st.heap[('level_starts', 'arr')], st.heap[('level_starts', 'len')] = L, SInt(ln)
        st.heap[('level_stops', 'arr')], st.heap[('level_stops', 'len')] = T, SInt(ln)
        l = z3.Int('l')
        st.assume(SBool(z3.And(ln >= 1, L[0] == 0, T[ln - 1] == n.e)))
        st.assume(SBool(z3.ForAll([l], z3.Implies(z3.And(0 <= l, l < ln - 1), z3.And(T[l] == L[l + 1], L[l] < L[l + 1])))))
        st.assume(SBool(z3.ForAll([l], z3.Implies(z3.And(0 <= l, l < ln), z3.And(L[l] >= 0, L[l] <= n.e, T[l] >= L[l], T[l] <= n.e)))))
        st.heap['calls'] = z3.K(I, z3.K(I, z3.IntVal(0)))
        selfo = SObj.new(st, 'self', ops=Table2(OPSF, n, 9), c=Opaque('c'), c_locs=Opaque('c_locs'), c_caps=Opaque('c_caps'), abuf=Opaque('abuf'),
                         delays=Opaque('delays'), simctl_int=Opaque('simctl_int'), sims=sims, level_starts=ls, level_stops=lt, _block_dim=block)
        ex.readonly.update({('self', f) for f in ('ops', 'c', 'c_locs', 'c_caps', 'abuf', 'delays', 'simctl_int', 'sims', 'level_starts', 'level_stops', '_block_dim')})
        ex.readonly.update({('level_starts', 'arr'), ('level_starts', 'len'), ('level_stops', 'arr'), ('level_stops', 'len')})
        if sims_arg == 'none':
            sv, eff = None, sims.e
        else:
            sv = ex.fv('sims', 'int')
            st.assume(SBool(sv.e >= 1))
            eff = z3.If(sv.e < sims.e, sv.e, sims.e)
        st.env.update(self=selfo, sims=sv, seed=ex.fv('seed', 'int'), wave_eval_gpu=Kernel(), cuda=CudaMod())
        ex.g = dict(n=n.e, L=L, T=T, ln=ln, eff=eff, sims=sims.e)
        return st

    def done(g, k):
        j, s = z3.Ints('j s')
        return j, s, z3.If(z3.And(0 <= j, j < k, 0 <= s, s < g['eff']), 1, 0)

    def inv(ex, st):
        g = ex.g
        l = to_int(st.env['__k0'])
        k = z3.If(l < g['ln'], g['L'][l], g['n'])
        j, s, want = done(g, k)
        yield 'every (op, lane) pair of the levels launched so far has been evaluated exactly once, nothing else', SBool(z3.ForAll([j, s], st.heap['calls'][j][s] == want))

    def post(ex, st):
        g = ex.g
        j, s, want = done(g, g['n'])
        yield 'every (op, lane < simulated lanes) pair is evaluated exactly once over all launches, and nothing else', SBool(z3.ForAll([j, s], st.heap['calls'][j][s] == want))
        ex.prove(st, 'mustfail:nothing is ever evaluated', SBool(z3.ForAll([j, s], st.heap['calls'][j][s] == 0)), ex.fn, expect='refuted')
    contract = {'post': post, 'loop_match': {0: ('zip(', 0)}, 'loops': {0: {'inv': inv, 'modifies': ['calls'], 'kinds': {'grid_dim': 'keep'}}}}
    return Config(f'any level partition, block {block}, sims={sims_arg}', contract, setup, None)


def targets_cuda():
    return [Target('wave_sim', 'WaveSimCuda.c_prop', [cuda_cprop_config((32, 16), 'none'), cuda_cprop_config((32, 16), 'k'), cuda_cprop_config((3, 5), 'k')], instantiate='fallback',
                   note='launch grid per level covers the level; with the launcher (every thread once) and the thread contract (its pair once iff in range) every (op, lane) pair is evaluated exactly once')]


# --------------------------------------------------------------------------- WaveSimCuda.s_to_c / c_to_s / s_ppo_to_ppi: launch geometry (C06)
class GridKernel(Model):
    """a kernel launched once over the (lanes, ports) plane: the launch is recorded in ex.g['launch']"""

    def __init__(self, name):
        self.name = name

    def m_getitem(self, ex, st, idx, node):
        if not (isinstance(idx, tuple) and len(idx) == 2 and all(isinstance(t, tuple) and len(t) == 2 for t in idx)):
            raise NotInSubset('kernel launch configuration')
        (gx, gy), (bx, by) = idx

        def launch(ex_, st_, args, kwargs, node_):
            ex_.g.setdefault('launch', []).append(dict(kernel=self.name, gx=to_int(gx), gy=to_int(gy), bx=to_int(bx), by=to_int(by), args=list(args)))
            return None
        return Method_(launch)


def cuda_io_config(method, kernel, arg_names, block):
    """method launches `kernel` once; its grid must cover every (lane < sims, port < s_len) pair; the device arrays of self are passed in the documented order"""
    def setup(ex):
        st = State()
        sims, s_len = ex.fv('sims', 'int'), ex.fv('s_len', 'int')
        st.assume(SBool(z3.And(sims.e >= 0, s_len.e >= 0)))
        fields = {nm: Opaque(nm) for nm in ('c', 's', 'c_locs', 'c_caps')}
        n_io = ex.fv('n_io', 'int')
        st.assume(SBool(z3.And(n_io.e >= 0, n_io.e <= s_len.e)))
        selfo = SObj.new(st, 'self', sims=sims, s_len=s_len, _block_dim=block, ppi_offset=ex.fv('ppi_offset', 'int'), ppo_offset=ex.fv('ppo_offset', 'int'),
                         circuit=SObj.new(st, 'circuit', io_nodes=LenOnly_(n_io)), **fields)
        st.env.update(self=selfo, time=Opaque('time'), sd=ex.fv('sd_zero', 'int'), seed=Opaque('seed'), math=ex.globs['math'])
        st.env[kernel] = GridKernel(kernel)
        ex.g = dict(sims=sims.e, s_len=s_len.e, n_io=n_io.e)
        return st

    def post(ex, st):
        g = ex.g
        ls = g.get('launch', [])
        yield f'{kernel} is launched exactly once', len(ls) == 1
        if len(ls) != 1:
            return
        L = ls[0]
        yield 'the grid covers every lane and every port: grid_x * block_x >= sims, grid_y * block_y >= s_len', \
            SBool(z3.And(L['gx'] >= 0, L['gy'] >= 0, L['gx'] * L['bx'] >= g['sims'], L['gy'] * L['by'] >= g['s_len']))
        ok = len(L['args']) >= len(arg_names)
        for a, nm in zip(L['args'], arg_names):
            if nm in ('c', 's', 'c_locs', 'c_caps'):
                ok = ok and isinstance(a, Opaque) and a.name == nm
            elif nm == 'ppi_offset' or nm == 'ppo_offset':
                ok = ok and a is st.heap[('self', nm)]
            elif nm == 'time':
                ok = ok and isinstance(a, Opaque) and a.name == 'time'
            elif nm == 'n_io':
                ok = ok and not isinstance(a, Opaque)
        yield 'the kernel gets the arrays and offsets of self in the documented order', ok
        if 'n_io' in arg_names:
            yield 'the number of primary ports passed to the kernel is len(circuit.io_nodes)', SBool(to_int(L['args'][arg_names.index('n_io')]) == g['n_io'])
    return Config(f'{method}: any sims / s_len, block {block}', {'post': post}, setup, None)


class LenOnly_(Model):
    def __init__(self, n):
        self.n = n

    def m_len(self, ex, st, node):
        return self.n


def targets_cuda_io():
    out = []
    for method, kernel, names in (('s_to_c', 'wave_assign_gpu', ('c', 's', 'c_locs', 'ppi_offset')),
                                  ('c_to_s', 'wave_capture_gpu', ('c', 's', 'c_locs', 'c_caps', 'ppo_offset', 'time')),
                                  ('s_ppo_to_ppi', 'ppo_to_ppi_gpu', ('s', 'c_locs', 'time', 'ppi_offset', 'ppo_offset', 'n_io'))):
        out.append(Target('wave_sim', f'WaveSimCuda.{method}', [cuda_io_config(method, kernel, names, b) for b in ((32, 16), (3, 5))], instantiate='fallback',
                          note='launch geometry and argument passing; the kernel itself is under its own one-thread contract (wave_kernels_c) and the launcher under launcher_c'))
    return out
