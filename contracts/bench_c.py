"""Contract of kyupy.bench.BenchTransformer.assignment (C11): what one statement  name = TYPE(d_1, .., d_m)  of a bench file adds to the circuit.

Object-heap model of C09 (contracts.graph_c).  The constructors Node(..) / Line(..) allocate a fresh object id and *inline* the current
source of Node.__init__ / Line.__init__; Circuit.get_or_add_fork is inlined too.  Names and kinds are opaque tokens (the grammar is not part of this).
requires  WF (W0-W6); the drivers are forks of the circuit (results of get_or_add_fork in `parameters`); no cell of that name yet; the cell type is
          not the reserved fork kind
ensures   WF; a new cell of the given name and type is registered; its output 0 drives the fork of the same name (created if it did not exist);
          it has exactly m inputs and input pin p is driven by driver p, through a new line appended to the outputs of that driver;
          every line that existed before keeps its driver, reader and pins; every node that existed before stays in the circuit
"""
import z3

from pyvc.engine import State, Model, NotInSubset, SymIter, UserFn
from pyvc.values import SInt, SBool, to_int
from pyvc.models_obj import SObj
from pyvc.verify import Config, Target
from pyvc import source
from contracts.graph_c import (I, NONE, V, NodeRef, LineRef, CircRef, NameVal, KindConst, EmptyPins, fresh_state, wf_lines, wf_nodes)

DRV = z3.Function('DRV', I, I)


class Drivers(Model):
    def __init__(self, m):
        self.m = m

    def m_iter(self, ex, st, node):
        return SymIter(SInt(self.m), lambda ex_, st_, k: NodeRef(DRV(to_int(k))))

    def m_len(self, ex, st, node):
        return SInt(self.m)


def fresh_node(ex, st):
    v = V(st)
    n = ex.fv('new_node', 'int').e
    i = z3.Int('i')
    st.assume(SBool(z3.And(n != NONE, z3.Not(v.inN(n)), z3.ForAll([i], z3.Implies(z3.And(0 <= i, i < v.NN), v.NS[i] != n)),
                           z3.ForAll([i], z3.And(z3.Implies(v.Fd[i], v.Fv[i] != n), z3.Implies(v.Cd[i], v.Cv[i] != n))),
                           z3.ForAll([i], z3.Implies(v.inL(i), z3.And(v.Ld[i] != n, v.Lr[i] != n))))))
    ex.g.setdefault('new_nodes', []).append(n)
    return n


def fresh_line(ex, st):
    v = V(st)
    l = ex.fv('new_line', 'int').e
    n, p, i = z3.Ints('n p i')
    st.assume(SBool(z3.And(l != NONE, z3.Not(v.inL(l)), z3.ForAll([i], z3.Implies(z3.And(0 <= i, i < v.NL), v.LS[i] != l)),
                           z3.ForAll([n, p], z3.Implies(z3.And(v.inN(n), 0 <= p), z3.And(z3.Implies(p < v.OL[n], v.O[n][p] != l), z3.Implies(p < v.IL[n], v.IN[n][p] != l)))))))
    ex.g.setdefault('new_lines', []).append(l)
    return l


def prims(globs):
    def mk_node(ex, st, args, kwargs, node):
        n = fresh_node(ex, st)
        fd, _ = source.find('circuit', 'Node.__init__')
        ex.inline(st, UserFn(fd, source.module_namespace('circuit'), nested=False, label='Node.__init__'), [NodeRef(n)] + list(args), kwargs, node)
        return NodeRef(n)

    def mk_line(ex, st, args, kwargs, node):
        l = fresh_line(ex, st)
        fd, _ = source.find('circuit', 'Line.__init__')
        ex.inline(st, UserFn(fd, source.module_namespace('circuit'), nested=False, label='Line.__init__'), [LineRef(l)] + list(args), kwargs, node)
        return LineRef(l)

    def to_str(ex, st, args, kwargs, node):
        if len(args) == 1 and isinstance(args[0], (NameVal, KindConst)):
            return args[0]
        raise NotInSubset('str() of this value')
    circ = source.module_namespace('circuit')
    return {globs['Node']: mk_node, globs['Line']: mk_line, str: to_str, circ['GrowingList']: lambda ex, st, a, k, n: EmptyPins()}


def assignment_config():
    def setup(ex):
        st = fresh_state(ex)
        v = V(st)
        for nm_, c in wf_lines(v) + wf_nodes(v):
            st.assume(SBool(c))
        nm, m = ex.fv('name', 'int').e, ex.fv('n_drivers', 'int').e
        j = z3.Int('j')
        st.assume(SBool(z3.And(m >= 0, z3.Not(v.Cd[nm]), z3.ForAll([j], z3.Implies(z3.And(0 <= j, j < m), z3.And(v.inN(DRV(j)), v.Nf[DRV(j)], v.Nc[DRV(j)] == 0))))))
        selfo = SObj.new(st, 'self', c=CircRef(z3.IntVal(0)))
        ex.readonly.add(('self', 'c'))
        st.env.update(self=selfo, args=(NameVal(nm), KindConst(z3.BoolVal(False)), Drivers(m)))
        ex.g = dict(nm=nm, m=m, v0=v)
        return st

    def cell_of(ex):
        return ex.g['new_nodes'][0]

    def loop_inv(ex, st):
        g = ex.g
        v0, v = g['v0'], V(st)
        if not g.get('new_nodes'):
            yield 'the cell has been created', False
            return
        c = cell_of(ex)
        k = to_int(st.env['__k0'])
        for nm_, cl in wf_lines(v) + wf_nodes(v):
            yield nm_, SBool(cl)
        p, l, n = z3.Ints('p l n')
        yield 'B1:the cell is in the circuit, is no fork, has one output and one input per driver passed so far', \
            SBool(z3.And(v.inN(c), z3.Not(v.Nf[c]), v.Nc[c] == 0, v.OL[c] == 1, v.O[c][0] != NONE, v.IL[c] == k, v.Nn[c] == g['nm'], v.Cd[g['nm']], v.Cv[g['nm']] == c))
        yield 'B2:input pin p of the cell is driven by driver p', \
            SBool(z3.ForAll([p], z3.Implies(z3.And(0 <= p, p < k), z3.And(v.IN[c][p] != NONE, v.Ld[v.IN[c][p]] == DRV(p)))))
        yield 'B3:the output of the cell drives the fork of its name', \
            SBool(z3.And(v.Fd[g['nm']], v.Lr[v.O[c][0]] == v.Fv[g['nm']], v.Nf[v.Fv[g['nm']]]))
        yield 'B4:every line that existed before keeps driver, reader and pins; every node that existed before stays', \
            SBool(z3.And(z3.ForAll([l], z3.Implies(v0.inL(l), z3.And(v.inL(l), v.Ld[l] == v0.Ld[l], v.Lr[l] == v0.Lr[l], v.Ldp[l] == v0.Ldp[l], v.Lrp[l] == v0.Lrp[l]))),
                         z3.ForAll([n], z3.Implies(v0.inN(n), z3.And(v.inN(n), v.Ni[n] == v0.Ni[n], v.Nf[n] == v0.Nf[n], v.Nc[n] == 0)))))

    def post(ex, st):
        g = ex.g
        v0, v = g['v0'], V(st)
        if not g.get('new_nodes'):
            yield 'a cell node is created', False
            return
        c = cell_of(ex)
        m = g['m']
        for nm_, cl in wf_lines(v) + wf_nodes(v):
            yield nm_, SBool(cl)
        p, l, n = z3.Ints('p l n')
        yield 'a new cell of the given name and type, registered under its name, with one output and exactly one input per driver', \
            SBool(z3.And(z3.Not(v0.inN(c)), v.inN(c), z3.Not(v.Nf[c]), v.Nn[c] == g['nm'], v.Cd[g['nm']], v.Cv[g['nm']] == c, v.OL[c] == 1, v.IL[c] == m))
        yield 'input pin p of the cell is driven by driver p; the output drives the fork of the same name', \
            SBool(z3.And(z3.ForAll([p], z3.Implies(z3.And(0 <= p, p < m), z3.And(v.IN[c][p] != NONE, v.Ld[v.IN[c][p]] == DRV(p)))),
                         v.Fd[g['nm']], v.Lr[v.O[c][0]] == v.Fv[g['nm']], v.Nf[v.Fv[g['nm']]]))
        yield 'every line that existed before keeps driver, reader and pins; every node that existed before stays in the circuit at its index', \
            SBool(z3.And(z3.ForAll([l], z3.Implies(v0.inL(l), z3.And(v.inL(l), v.Ld[l] == v0.Ld[l], v.Lr[l] == v0.Lr[l], v.Ldp[l] == v0.Ldp[l], v.Lrp[l] == v0.Lrp[l]))),
                         z3.ForAll([n], z3.Implies(v0.inN(n), z3.And(v.inN(n), v.Ni[n] == v0.Ni[n])))))
        ex.prove(st, 'mustfail:no node is added', SBool(v.NN == v0.NN), ex.fn, expect='refuted')
    contract = {'post': post, 'expr_fork': True, 'ifexp_fork': True, 'loops': {0: {'inv': loop_inv, 'kinds': {'d': 'keep'}}}}
    return Config('one bench assignment in a well-formed circuit', contract, setup, None)


def targets():
    return [Target('bench', 'BenchTransformer.assignment', [assignment_config()], prims=prims, instantiate='fallback',
                   note='Node(..) / Line(..) / get_or_add_fork inlined from circuit.py on the object heap')]
