"""Contract of the primitive selection inside the translation phase of kyupy.sim.SimOps.__init__ (C01, anchor "arity selection by kind
prefix"): the block  ``sp = None; for prefix, prims in kind_prefixes.items(): ...``  of the per-node loop, executed for a symbolic kind
(only the answers of ``kind.startswith(prefix)`` matter: one free Boolean per prefix of the table) and symbolic operand indices.

ensures  sp = kind_prefixes[p][v]  where p is the FIRST prefix of the table (in its order) that the kind starts with and
         v = 0 (4-input variant) if pin 3 is connected, else 1 (3-input) if pin 2 is connected, else 2 (2-input);  sp is None iff no prefix matches.
The table itself (each entry is the family member of arity 4/3/2, longer prefixes before their own prefixes) is proved as ground facts in C01.
"""
import ast

import z3

from pyvc.engine import State, Model, NotInSubset, ContractError
from pyvc.values import SInt, SBool, to_int, is_sym
from pyvc.models_obj import SObj
from pyvc.verify import Config, Target


class Method(Model):
    def __init__(self, fn):
        self.fn = fn

    def m_call(self, ex, st, args, kwargs, node):
        return self.fn(ex, st, args, kwargs, node)


class KindStr(Model):
    """the lower-cased kind of a node: only startswith(<concrete prefix>) is observed"""

    def __init__(self):
        self.asked = {}

    def starts(self, prefix):
        if prefix not in self.asked:
            self.asked[prefix] = z3.Bool(f'kind_startswith_{prefix}')
        return self.asked[prefix]

    def m_getattr(self, ex, st, name, node):
        if name == 'startswith':
            def startswith(ex_, st_, args, kwargs, node_):
                if len(args) != 1 or not isinstance(args[0], str):
                    raise NotInSubset('startswith with a non-constant prefix')
                return SBool(self.starts(args[0]))
            return Method(startswith)
        if name == 'lower':
            return Method(lambda ex_, st_, args, kwargs, node_: self)
        raise NotInSubset(f'str.{name} on the node kind')


def block(stmts):
    """inside the loop over circuit.topological_order(): from ``sp = None`` to the loop over kind_prefixes (inclusive)"""
    for s in stmts:
        if isinstance(s, ast.For) and 'topological_order' in ast.unparse(s.iter):
            a = b_ = None
            for i, x in enumerate(s.body):
                if isinstance(x, ast.Assign) and len(x.targets) == 1 and isinstance(x.targets[0], ast.Name) and x.targets[0].id == 'sp' and a is None:
                    a = i
                if a is not None and isinstance(x, ast.For) and 'kind_prefixes' in ast.unparse(x.iter):
                    b_ = i + 1
                    break
            if a is not None and b_ is not None:
                return s.body[a:b_]
    raise ContractError('primitive selection block not found in SimOps.__init__')


def select_config():
    def setup(ex):
        st = State()
        zero, i2, i3 = ex.fv('zero_idx', 'int'), ex.fv('i2_idx', 'int'), ex.fv('i3_idx', 'int')
        kind = KindStr()
        st.env.update(self=SObj.new(st, 'self', zero_idx=zero, tmp_idx=SInt(zero.e + 1)), kind=kind, i2_idx=i2, i3_idx=i3,
                      i0_idx=ex.fv('i0_idx', 'int'), i1_idx=ex.fv('i1_idx', 'int'))
        ex.readonly.update({('self', 'zero_idx'), ('self', 'tmp_idx')})
        ex.g = dict(kind=kind, zero=zero.e, i2=i2.e, i3=i3.e)
        return st

    def post(ex, st):
        g = ex.g
        table = ex.globs['kind_prefixes']
        kind = g['kind']
        sp = st.env.get('sp', 'missing')
        if isinstance(sp, str):
            yield 'sp is assigned', False
            return
        sel = lambda prims: z3.If(g['i3'] != g['zero'], int(prims[0]), z3.If(g['i2'] != g['zero'], int(prims[1]), int(prims[2])))
        want = z3.IntVal(-1)
        for prefix, prims in reversed(list(table.items())):
            want = z3.If(kind.starts(prefix), sel(prims), want)
        anym = z3.Or(*[kind.starts(p) for p in table]) if table else z3.BoolVal(False)
        if sp is None:
            yield 'sp is None only if the kind starts with no prefix of the table', SBool(z3.Not(anym))
        else:
            yield 'sp is the variant (by highest connected pin) of the first matching prefix of the table', SBool(z3.And(anym, to_int(sp) == want))
        ex.prove(st, 'mustfail:no kind ever matches', SBool(z3.Not(anym)), ex.fn, expect='refuted')
    return Config('any kind (one free Boolean per table prefix), any operand indices', {'post': post}, setup, None)


def targets():
    return [Target('sim', 'SimOps.__init__', [select_config()], body_slice=block, label='primitive selection',
                   note='block `sp = None; for prefix, prims in kind_prefixes.items(): ...` of the per-node translation loop')]
