"""Contract of the primitive selection inside the translation phase of kyupy.sim.SimOps.__init__ (C01, anchor "arity selection by kind
prefix"): the block  ``sp = None; for prefix, prims in kind_prefixes.items(): ...``  of the per-node loop, executed for a symbolic kind
(only the answers of ``kind.startswith(prefix)`` matter: one free Boolean per prefix of the table) and symbolic operand indices.

ensures  sp = kind_prefixes[p][v]  where p is the FIRST prefix of the table (in its order) that the kind starts with and
         v = 0 (4-input variant) if pin 3 is connected, else 1 (3-input) if pin 2 is connected, else 2 (2-input);  sp is None iff no prefix matches.
The table itself (each entry is the family member of arity 4/3/2, longer prefixes before their own prefixes) is proved as ground facts in C01.
"""
import ast

import z3

from pyvc.engine import State, Model, NotInSubset, ContractError
from pyvc.values import SInt, SBool, to_int, is_sym
from pyvc.models_obj import SObj
from pyvc.verify import Config, Target


class Method(Model):
    def __init__(self, fn):
        self.fn = fn

    def m_call(self, ex, st, args, kwargs, node):
        return self.fn(ex, st, args, kwargs, node)


class KindStr(Model):
    """the lower-cased kind of a node: only startswith(<concrete prefix>) is observed"""

    def __init__(self):
        self.asked = {}

    def starts(self, prefix):
        if prefix not in self.asked:
            self.asked[prefix] = z3.Bool(f'kind_startswith_{prefix}')
        return self.asked[prefix]

    def m_getattr(self, ex, st, name, node):
        if name == 'startswith':
            def startswith(ex_, st_, args, kwargs, node_):
                if len(args) != 1 or not isinstance(args[0], str):
                    raise NotInSubset('startswith with a non-constant prefix')
                return SBool(self.starts(args[0]))
            return Method(startswith)
        if name == 'lower':
            return Method(lambda ex_, st_, args, kwargs, node_: self)
        raise NotInSubset(f'str.{name} on the node kind')


def block(stmts):
    """inside the loop over circuit.topological_order(): from ``sp = None`` to the loop over kind_prefixes (inclusive)"""
    for s in stmts:
        if isinstance(s, ast.For) and 'topological_order' in ast.unparse(s.iter):
            a = b_ = None
            for i, x in enumerate(s.body):
                if isinstance(x, ast.Assign) and len(x.targets) == 1 and isinstance(x.targets[0], ast.Name) and x.targets[0].id == 'sp' and a is None:
                    a = i
                if a is not None and isinstance(x, ast.For) and 'kind_prefixes' in ast.unparse(x.iter):
                    b_ = i + 1
                    break
            if a is not None and b_ is not None:
                return s.body[a:b_]
    raise ContractError('primitive selection block not found in SimOps.__init__')


def select_config():
    def setup(ex):
        st = State()
        zero, i2, i3 = ex.fv('zero_idx', 'int'), ex.fv('i2_idx', 'int'), ex.fv('i3_idx', 'int')
        kind = KindStr()
        st.env.update(self=SObj.new(st, 'self', zero_idx=zero, tmp_idx=SInt(zero.e + 1)), kind=kind, i2_idx=i2, i3_idx=i3,
                      i0_idx=ex.fv('i0_idx', 'int'), i1_idx=ex.fv('i1_idx', 'int'))
        ex.readonly.update({('self', 'zero_idx'), ('self', 'tmp_idx')})
        ex.g = dict(kind=kind, zero=zero.e, i2=i2.e, i3=i3.e)
        return st

    def post(ex, st):
        g = ex.g
        table = ex.globs['kind_prefixes']
        kind = g['kind']
        sp = st.env.get('sp', 'missing')
        if isinstance(sp, str):
            yield 'sp is assigned', False
            return
        sel = lambda prims: z3.If(g['i3'] != g['zero'], int(prims[0]), z3.If(g['i2'] != g['zero'], int(prims[1]), int(prims[2])))
        want = z3.IntVal(-1)
        for prefix, prims in reversed(list(table.items())):
            want = z3.If(kind.starts(prefix), sel(prims), want)
        anym = z3.Or(*[kind.starts(p) for p in table]) if table else z3.BoolVal(False)
        if sp is None:
            yield 'sp is None only if the kind starts with no prefix of the table', SBool(z3.Not(anym))
        else:
            yield 'sp is the variant (by highest connected pin) of the first matching prefix of the table', SBool(z3.And(anym, to_int(sp) == want))
        ex.prove(st, 'mustfail:no kind ever matches', SBool(z3.Not(anym)), ex.fn, expect='refuted')
    return Config('any kind (one free Boolean per table prefix), any operand indices', {'post': post}, setup, None)


def targets():
    return [Target('sim', 'SimOps.__init__', [select_config()], body_slice=block, label='primitive selection',
                   note='block `sp = None; for prefix, prims in kind_prefixes.items(): ...` of the per-node translation loop')]


# ------------------------------------------------------------------------------------------------------ translation of one node
"""The body of ``for n in circuit.topological_order():`` for one symbolic node n (C01, first anchor): which ops are appended for it.

Node model: NOUT / NIN pin counts, OUT(k) / IN(k) = index of the line on pin k or -1 (None), kind seen only through
``== '__fork__'``, ``'dff' in kind`` and ``startswith(prefix)``, membership / position in the interface (s_nodes) as free Boolean / integer.
ensures (ops' = ops ++ rows, every row = (primitive, output, in0, in1, in2, in3, *a_ctrl[output])):
  interface node that is not a fork with an input:   one BUF1 per connected output pin from its interface input slot  ppi_offset + position,
        except output 1 of a flip-flop, which gets INV1; a flip-flop's pins beyond 1 get nothing;   operands 1..3 are the zero slot
  fork:      with strip_forks nothing; else one BUF1 per connected output from (in0, in1, in2, in3)
  cell:      one row (selected primitive, out0 or the tmp slot, in0..in3 with the zero slot for missing / unconnected pins), nothing if no prefix matches
Rows appear in pin order; CNTO(k) = number of connected output pins below k (ghost recurrence) gives the position of pin k's row.
"""
I = z3.IntSort()
OUT = z3.Function('OUTPIN', I, I)
INP = z3.Function('INPIN', I, I)
ACT = z3.Function('A_CTRL', I, I, I)
CNTO = z3.Function('CNTO', I, I)


class TLine(SInt):
    """a pin entry: a Line (its index) or None (< 0)"""
    __slots__ = ('is_none',)

    def __init__(self, e):
        super().__init__(e)
        self.is_none = SBool(e < 0)


class TLineObj(Model):
    """a Line object or None: ``.index``, ``is None`` and use as an array index"""

    def __init__(self, e):
        self.e = e
        self.is_none = SBool(e < 0)

    def m_getattr(self, ex, st, name, node):
        if name == 'index':
            ex.prove(st, 'no-exception:AttributeError .index of None', self.e >= 0, node)
            return SInt(self.e)
        raise NotInSubset(f'line.{name}')


class TPins(Model):
    def __init__(self, fn, length, start=0):
        self.fn, self.length, self.start = fn, length, start

    def m_len(self, ex, st, node):
        return SInt(z3.If(self.length - self.start > 0, self.length - self.start, 0))

    def m_getitem(self, ex, st, idx, node):
        if isinstance(idx, slice):
            from pyvc.values import _conc_int
            a = _conc_int(idx.start) if idx.start is not None else 0
            if idx.stop is not None or idx.step is not None or a is None or a < 0:
                raise NotInSubset('pin list slice other than [k:]')
            return TPins(self.fn, self.length, self.start + a)
        i = to_int(idx) + self.start
        ex.prove(st, 'no-exception:IndexError pin list', z3.And(i >= self.start, i < self.length), node)
        return TLineObj(self.fn(i))

    def m_iter(self, ex, st, node):
        from pyvc.engine import SymIter
        n = z3.If(self.length - self.start > 0, self.length - self.start, 0)
        ex.g['pin_iter_start'] = self.start
        return SymIter(SInt(n), lambda ex_, st_, k: TLineObj(self.fn(to_int(k) + self.start)))


class TKind(KindStr):
    def m_compare(self, ex, st, op, a, b, node):
        other = b if a is self else a
        if other != '__fork__' or op not in (ast.Eq, ast.NotEq):
            raise NotInSubset('comparison of the kind with something other than the fork kind')
        r = z3.Bool('kind_is_fork')
        return SBool(r if op is ast.Eq else z3.Not(r))

    def m_contains(self, ex, st, a, node):
        if a != 'dff':
            raise NotInSubset('substring test on the kind other than dff')
        return SBool(z3.Bool('kind_has_dff'))


class TNode(Model):
    def __init__(self, nout, nin):
        self.nout, self.nin, self.kind = nout, nin, TKind()

    def m_getattr(self, ex, st, name, node):
        if name == 'outs':
            return TPins(OUT, self.nout)
        if name == 'ins':
            return TPins(INP, self.nin)
        if name == 'kind':
            return self.kind
        raise NotInSubset(f'node.{name}')


class IfDict(Model):
    """interface_dict: node -> position in s_nodes"""

    def m_contains(self, ex, st, a, node):
        if not isinstance(a, TNode):
            raise NotInSubset('interface_dict key')
        return SBool(z3.Bool('is_interface'))

    def m_getitem(self, ex, st, idx, node):
        ex.prove(st, 'no-exception:KeyError interface_dict[n]', z3.Bool('is_interface'), node)
        return SInt(z3.Int('interface_pos'))


class ACtrl(Model):
    """a_ctrl[line or index] -> its row of three accumulation-control values"""

    def m_getitem(self, ex, st, idx, node):
        e = idx.e if isinstance(idx, TLineObj) else to_int(idx)
        if isinstance(idx, TLineObj):
            ex.prove(st, 'no-exception:TypeError None used as an index', e >= 0, node)
        ex.prove(st, 'index-in-bounds:a_ctrl', z3.And(e >= 0, e < ex.g['nlines'] + 3), node)
        return tuple(SInt(ACT(e, c)) for c in range(3))


class OpsList(Model):
    """the Python list ``ops`` of 9-tuples: heap['ops_len'], heap['ops_rows'] : Array Int -> Array Int -> Int"""

    def m_getattr(self, ex, st, name, node):
        if name == 'append':
            def append(ex_, st_, args, kwargs, node_):
                row = args[0]
                if not (isinstance(row, tuple) and len(row) == 9):
                    ex_.prove(st_, 'every op is a 9-tuple (primitive, out, 4 operands, 3 accumulation-control values)', False, node_)
                    return
                n = to_int(st_.heap['ops_len'])
                r = st_.heap['ops_rows'][n]
                for c, x in enumerate(row):
                    r = z3.Store(r, c, to_int(x))
                st_.heap['ops_rows'] = z3.Store(st_.heap['ops_rows'], n, r)
                st_.heap['ops_len'] = SInt(n + 1)
            return Method(append)
        raise NotInSubset(f'list.{name}')


def node_body(stmts):
    for s in stmts:
        if isinstance(s, ast.For) and 'topological_order' in ast.unparse(s.iter):
            return list(s.body)
    raise ContractError('per-node translation loop not found in SimOps.__init__')


def node_config(strip):
    def setup(ex):
        st = State()
        nout, nin, nlines, s_len = (ex.fv(n, 'int').e for n in ('n_outs', 'n_ins', 'n_lines', 's_len'))
        k = z3.Int('k')
        st.assume(SBool(z3.And(nout >= 0, nin >= 0, nlines >= 0, s_len >= 0,
                               z3.ForAll([k], z3.And(OUT(k) >= -1, OUT(k) < nlines, INP(k) >= -1, INP(k) < nlines)),
                               # normalisation: positions beyond the pin lists count as unconnected
                               z3.ForAll([k], z3.And(z3.Implies(z3.Or(k < 0, k >= nout), OUT(k) == -1), z3.Implies(z3.Or(k < 0, k >= nin), INP(k) == -1))),
                               z3.Int('interface_pos') >= 0, z3.Int('interface_pos') < s_len, CNTO(0) == 0,
                               z3.ForAll([k], z3.Implies(k >= 0, z3.And(CNTO(k) >= 0, CNTO(k + 1) == CNTO(k) + z3.If(OUT(k) >= 0, 1, 0)))),
                               # monotone in k (induction over the recurrence; proved as base + step in cnto_lemmas)
                               z3.ForAll([k, z3.Int('k2')], z3.Implies(z3.And(0 <= k, k <= z3.Int('k2')), CNTO(k) <= CNTO(z3.Int('k2')))))))
        zero, tmp, ppi = nlines, nlines + 1, nlines + 3
        st.heap['ops_len'] = ex.fv('ops_len', 'int')
        st.assume(SBool(to_int(st.heap['ops_len']) >= 0))
        st.heap['ops_rows'] = z3.Array('ops_rows0', I, z3.ArraySort(I, I))
        selfo = SObj.new(st, 'self', zero_idx=SInt(zero), tmp_idx=SInt(tmp), tmp2_idx=SInt(tmp + 1), ppi_offset=SInt(ppi))
        ex.readonly.update({('self', f) for f in ('zero_idx', 'tmp_idx', 'tmp2_idx', 'ppi_offset')})
        node = TNode(nout, nin)
        st.env.update(self=selfo, n=node, interface_dict=IfDict(), a_ctrl=ACtrl(), ops=OpsList(), strip_forks=strip)
        for nm in ('BUF1', 'INV1', 'kind_prefixes', 'print'):
            pass
        ex.g = dict(nout=nout, nin=nin, nlines=nlines, zero=zero, tmp=tmp, ppi=ppi, node=node, len0=to_int(st.heap['ops_len']), rows0=st.heap['ops_rows'])
        return st

    def row_is(rows, j, vals):
        return z3.And(*[rows[j][c] == v for c, v in enumerate(vals)])

    def G(ex):
        g = ex.g
        isif, isfork, isdff = z3.Bool('is_interface'), z3.Bool('kind_is_fork'), z3.Bool('kind_has_dff')
        inp = lambda k: z3.If(z3.And(g['nin'] > k, INP(k) >= 0), INP(k), g['zero'])
        fork_in = z3.And(isfork, g['nin'] > 0, INP(0) >= 0)
        iface = z3.And(isif, z3.Not(fork_in))
        return g, isif, isfork, isdff, inp, iface

    def expected_row(ex, k):
        """the row appended for connected output pin k (interface node / fork)"""
        g, isif, isfork, isdff, inp, iface = G(ex)
        BUF1, INV1 = int(ex.globs['BUF1']), int(ex.globs['INV1'])
        o = OUT(k)
        src = g['ppi'] + z3.Int('interface_pos')
        if_row = [z3.If(z3.And(isdff, k == 1), INV1, BUF1), o, src, g['zero'], g['zero'], g['zero']] + [ACT(o, c) for c in range(3)]
        fk_row = [BUF1, o, inp(0), inp(1), inp(2), inp(3)] + [ACT(o, c) for c in range(3)]
        return [z3.If(iface, a, b_) for a, b_ in zip(if_row, fk_row)]

    def pins_inv(ex, st, first):
        """loop over the output pins from ``first``: rows of the pins passed so far are in place"""
        g = ex.g
        kk = to_int(st.env[[v for v in st.env if v.startswith('__k')][-1]]) + first
        rows, n = st.heap['ops_rows'], to_int(st.heap['ops_len'])
        base = g['len0'] + (z3.If(OUT(0) >= 0, 1, 0) if first == 1 else 0)
        p, j = z3.Ints('p j')
        yield 'length = rows before + connected pins passed so far', SBool(n == base + CNTO(kk) - CNTO(first))
        yield 'the row of every connected pin passed so far is in place, in pin order', \
            SBool(z3.ForAll([p], z3.Implies(z3.And(first <= p, p < kk, OUT(p) >= 0), row_is(rows, base + CNTO(p) - CNTO(first), expected_row(ex, p)))))
        yield 'frame: earlier rows are untouched', SBool(z3.ForAll([j], z3.Implies(z3.And(0 <= j, j < base), rows[j] == st.heap['ops_rows_base'][j])))

    def post(ex, st):
        g, isif, isfork, isdff, inp, iface = G(ex)
        rows, n = st.heap['ops_rows'], to_int(st.heap['ops_len'])
        len0, rows0 = g['len0'], g['rows0']
        p, j = z3.Ints('p j')
        yield 'frame: the rows of earlier nodes are untouched', SBool(z3.ForAll([j], z3.Implies(z3.And(0 <= j, j < len0), rows[j] == rows0[j])))
        # number of rows
        npins = z3.If(isdff, z3.If(g['nout'] < 2, g['nout'], 2), g['nout'])
        cnt_if = CNTO(z3.If(npins > 0, npins, 0))
        kind = g['node'].kind
        table = ex.globs['kind_prefixes']
        anym = z3.Or(*[kind.starts(pfx) for pfx in table])
        want_n = z3.If(iface, cnt_if, z3.If(isfork, (z3.IntVal(0) if strip else CNTO(g['nout'])), z3.If(anym, 1, 0)))
        yield 'number of rows appended for the node', SBool(n == len0 + want_n)
        yield 'interface node / fork: one row per connected output pin, in pin order, of the stated form', \
            SBool(z3.ForAll([p], z3.Implies(z3.And(z3.Or(iface, z3.And(isfork, z3.BoolVal(not strip))), 0 <= p, p < z3.If(iface, npins, g['nout']), OUT(p) >= 0),
                                            row_is(rows, len0 + CNTO(p), expected_row(ex, p)))))
        sel = lambda prims: z3.If(inp(3) != g['zero'], int(prims[0]), z3.If(inp(2) != g['zero'], int(prims[1]), int(prims[2])))
        want = z3.IntVal(-1)
        for pfx, prims in reversed(list(table.items())):
            want = z3.If(kind.starts(pfx), sel(prims), want)
        o0 = z3.If(z3.And(g['nout'] > 0, OUT(0) >= 0), OUT(0), g['tmp'])
        yield 'cell: one row (selected primitive, out0 or tmp, in0..in3 or the zero slot, a_ctrl row of the output)', \
            SBool(z3.Implies(z3.And(z3.Not(iface), z3.Not(isfork), anym), row_is(rows, len0, [want, o0, inp(0), inp(1), inp(2), inp(3)] + [ACT(o0, c) for c in range(3)])))
        ex.prove(st, 'mustfail:no node ever produces an op', SBool(n == len0), ex.fn, expect='refuted')

    def mk_inv(first):
        def inv(ex, st):
            if 'ops_rows_base' not in st.heap:
                st.heap['ops_rows_base'] = st.heap['ops_rows']
            yield from pins_inv(ex, st, first)
        return inv

    def print_model(ex, st, args, kwargs, node):
        return None
    contract = {'post': post, 'loop_body': True, 'expr_fork': True,
                'loop_match': {0: ('n.outs[1:]', 0), 1: ('n.outs', 1)},
                'loops': {0: {'inv': mk_inv(1), 'modifies': ['ops_rows', 'ops_len'], 'kinds': {'o_line': 'keep'}},
                          1: {'inv': mk_inv(0), 'modifies': ['ops_rows', 'ops_len'], 'kinds': {'o_line': 'keep'}}}}
    cfg = Config(f'any node, strip_forks={strip}', contract, setup, None)
    return cfg


def node_prims(globs):
    return {print: lambda ex, st, args, kwargs, node: None}


def cnto_lemmas():
    from pyvc.verify import Lemmas

    def build():
        k1, k2 = z3.Ints('k1 k2')
        step = CNTO(k2 + 1) == CNTO(k2) + z3.If(OUT(k2) >= 0, 1, 0)
        yield 'CNTO-mono base', [], CNTO(k1) <= CNTO(k1)
        yield 'CNTO-mono step', [step, CNTO(k1) <= CNTO(k2)], CNTO(k1) <= CNTO(k2 + 1)
        yield 'mustfail:CNTO is constant', [step], CNTO(k2 + 1) == CNTO(k2), 'refuted'
    return Lemmas('lemma:CNTO monotone (induction on the upper index)', build, note='justifies the assumed monotonicity clause of the per-node translation contract')


def targets_node():
    return [Target('sim', 'SimOps.__init__', [node_config(False), node_config(True)], prims=node_prims, body_slice=node_body, instantiate='fallback', label='translation of one node',
                   note='body of `for n in circuit.topological_order():` for one symbolic node'), cnto_lemmas()]
