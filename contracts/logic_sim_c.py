"""Contracts for kyupy.logic_sim: the evaluation loops of LogicSim.c_prop (m = 2 with callback, 4, 8) and _prop_cpu.

Loop contract (functional, unbounded in the number of ops, symbolic memory map):
  ghost M_p(k) : memory plane p after the first k ops *according to the spec* (spec.gates, lifted lane-wise),
      M_p(k+1) = Store(M_p(k), c_locs[out_k], SPEC(op_k)(M(k)[c_locs[in_k0..3]]))          (definition)
  invariant  forall loc not in {t0,t1}:  c_p[loc] == M_p(k)[loc]
  requires   every op code is one of the 33 primitives; for m in {4,8}: c_locs[out_k], c_locs[in_kj] not in {t0,t1},
             t0 != t1, c_locs[out_k] != c_locs[in_kj] (except BUF1/INV1)   -- consequences of the memory map (C08), checked
             on real SimOps instances by the bounded part
  callback   (C16) exactly one call per iteration, after the result row holds the spec value, with (circuit.lines[out_k],
             a basic-index view of c[c_locs[out_k]]); the callback may overwrite that row only.
"""
import z3

from pyvc.engine import State, Model, NotInSubset, ContractError
from pyvc.values import SBV, SBool, SInt, to_int, to_bool, _conc_int
from pyvc.logic import And, Or, Not
from pyvc.models_np import PlaneMem, RowView, RowVal, PlaneRef, bv8
from pyvc.models_obj import SObj, IntArr, Table2
from pyvc.verify import Config, Target, Lemmas
from spec import gates, algebra as A

NAMES = sorted(gates.PRIMS)
BINARY = [n for n in NAMES if n not in ('BUF1', 'INV1')]


def op_codes(globs_sim):
    return {n: int(getattr(globs_sim, n)) for n in NAMES}


class Lines(Model):
    def m_len(self, ex, st, node):
        return st.env['__nlines__']

    def m_getitem(self, ex, st, idx, node):
        n = st.env['__nlines__']
        i = to_int(idx)
        ex.prove(st, 'index-in-bounds:circuit.lines', z3.And(i >= 0, i < to_int(n)), node)
        return LineRef(idx)


class LineRef(Model):
    def __init__(self, idx):
        self.idx = idx


class Callback(Model):
    """inject_cb: ghost call log + havoc of the row it is given"""

    def m_call(self, ex, st, args, kwargs, node):
        k = st.env.get('__cur_k__')
        ex.prove(st, 'callback:called inside the evaluation loop', k is not None, node)
        st.heap['cb_calls'] = st.heap.get('cb_calls', 0) + 1
        ok_arity = len(args) == 2 and not kwargs
        ex.prove(st, 'callback:called as f(line, values)', ok_arity, node)
        if not ok_arity:
            return None
        line, view = args
        out_line = st.env['__out_line__']
        ex.prove(st, 'callback:first argument is the Line object circuit.lines[out]',
                 isinstance(line, LineRef) and (line.idx == out_line), node)
        good_view = isinstance(view, RowView) and view.mem is st.env['__cmem__']
        ex.prove(st, 'callback:second argument is a writable view of the freshly computed row c[c_locs[out]]',
                 good_view and (view.loc == st.env['__out_loc__']), node)
        if good_view:
            # callback sees the freshly computed values
            for nm, g in st.env['__row_is_spec__'](st):
                ex.prove(st, f'callback:{nm}', g, node)
            # and may overwrite them (only them)
            mem = view.mem
            fresh = []
            for p in range(mem.nplanes):
                v = ex.fv(f'cb_p{p}', 'bv8')
                fresh.append(v)
                st.heap[(mem.name, p)] = z3.Store(mem.plane(st, p), to_int(view.loc), v.e)
            ghost = st.env.get('__cbrow_ghost__')
            if ghost is not None:
                for p in range(mem.nplanes):
                    st.assume(SBool(ghost[p] == fresh[p].e))
        return None


def bp_callee(m, opname):
    """modular call of logic.bp<m>v_<op>(out, *ins) against its contract (contracts.logic_c)"""
    spec = A.OPS[m][opname]
    nplanes = 3 if m == 8 else 2

    def model(ex, st, args, kwargs, node):
        out, ins = args[0], args[1:]
        if not isinstance(out, RowView) or not all(isinstance(a, RowView) for a in ins):
            raise NotInSubset('bp operator called on something that is not a row view of c')
        if out.mem.nplanes != nplanes:
            ex.prove(st, f'call:bp{m}v_{opname}:requires {nplanes} planes', False, node)
        mem = out.mem
        mem.check_loc(ex, st, out.loc, node, True)
        vals = [tuple(SBV(z3.Select(mem.plane(st, p), to_int(a.loc))) for p in range(nplanes)) for a in ins]
        res = spec(*vals)          # lane-wise lifted spec
        # callee contract (contracts.logic_c): frame = the out row only; if the out row is none of the operand rows
        # (always allowed for not/buf) it receives the spec value, otherwise unspecified values
        alias = z3.BoolVal(False)
        if opname in ('and', 'or', 'xor'):
            alias = z3.Or(*[to_int(out.loc) == to_int(a.loc) for a in ins])
        for p in range(nplanes):
            garbage = z3.BitVec(f'alias_garbage!{next(ex.fresh)}', 8)
            st.heap[(mem.name, p)] = z3.Store(mem.plane(st, p), to_int(out.loc), z3.If(alias, garbage, bv8(res[p]).e))
        return out
    return model


def spec_row(m, name, vals):
    return gates.apply(name, m, vals)


def loop_config(m, which, callback):
    """which: 'c_prop' or '_prop_cpu'"""
    nplanes = {2: 1, 4: 2, 8: 3}[m]
    loop_ordinal = {2: 0, 4: 1, 8: 2}[m] if which == 'c_prop' else 0
    scratch = m != 2

    def setup(ex):
        st = State()
        sim = ex.globs['sim']
        codes = op_codes(sim)
        ex.codes = codes
        OPS = z3.Function('OPS', z3.IntSort(), z3.IntSort(), z3.IntSort())
        nops = ex.fv('n_ops', 'int')
        clen = ex.fv('c_len', 'int')
        nlocs = ex.fv('c_locs_len', 'int')
        nlines = ex.fv('n_lines', 'int')
        st.assume(And(nops >= 0, clen > 0, nlocs > 0, nlines >= 0, nlines + 3 <= nlocs))
        ops = Table2(OPS, nops, 9)
        c_locs = IntArr.new(ex, st, 'c_locs', length=nlocs)
        CL = lambda x: z3.Select(st.heap['c_locs'], to_int(x))
        ex.CL = CL
        ex.OPS = OPS
        tmp_idx, tmp2_idx = nlines + 1, nlines + 2
        t0, t1 = SInt(CL(tmp_idx)), SInt(CL(tmp2_idx))
        ex.t0, ex.t1 = t0, t1

        def writes(ex_, st_, loc):
            k = st_.env.get('__cur_k__')
            if k is None:
                return False
            allowed = [to_int(loc) == CL(OPS(to_int(k), 1))]
            if scratch:
                allowed += [to_int(loc) == t0.e, to_int(loc) == t1.e]
            return z3.Or(*allowed)
        mem = PlaneMem.new(ex, st, 'c', nplanes, length=clen, writes=writes)
        ex.mem = mem
        # requires on the op list / memory map
        kq = z3.Int('kq')
        in_range = z3.And(kq >= 0, kq < nops.e)
        reqs = [z3.Or(*[OPS(kq, 0) == v for v in sorted(set(codes.values()))])]
        for col in range(1, 6):
            reqs.append(z3.And(OPS(kq, col) >= 0, OPS(kq, col) < nlocs.e))
            reqs.append(z3.And(CL(OPS(kq, col)) >= 0, CL(OPS(kq, col)) < clen.e))
        reqs.append(OPS(kq, 1) < nlines.e + 3)
        if scratch:
            # a node without output line evaluates into the slot of tmp_idx (= scratch row t0); its result is unobservable
            dangling = OPS(kq, 1) == nlines.e + 1
            for col in range(2, 6):
                reqs.append(z3.And(CL(OPS(kq, col)) != t0.e, CL(OPS(kq, col)) != t1.e))
            reqs.append(z3.Or(dangling, z3.And(CL(OPS(kq, 1)) != t0.e, CL(OPS(kq, 1)) != t1.e)))
            unary = z3.Or(OPS(kq, 0) == codes['BUF1'], OPS(kq, 0) == codes['INV1'])
            for col in range(2, 6):
                reqs.append(z3.Or(unary, dangling, CL(OPS(kq, 1)) != CL(OPS(kq, col))))
        st.assume(SBool(z3.ForAll([kq], z3.Implies(in_range, z3.And(*reqs)))))
        ex.req_body = lambda k: z3.And(*[z3.substitute(r, (kq, to_int(k))) for r in reqs])
        if scratch:
            st.assume(And(Not(t0 == t1), t0 >= 0, t0 < clen, t1 >= 0, t1 < clen))
        # ghost spec memory
        Ms = [z3.Function(f'M{p}', z3.IntSort(), z3.ArraySort(z3.IntSort(), z3.BitVecSort(8))) for p in range(nplanes)]
        ex.Ms = Ms
        for p in range(nplanes):
            st.assume(SBool(Ms[p](0) == st.heap[('c', p)]))
        st.env['__nlines__'] = nlines
        st.env['__cmem__'] = mem
        lines = Lines()
        circuit = SObj.new(st, 'circuit', lines=lines)
        cb = Callback() if callback else None
        ex.cb = cb
        if which == 'c_prop':
            s_arr = PlaneMem.new(ex, st, 's', 3, length=2)      # self.s: shape (2, s_len, 3, nbytes): indexing s[x] needs x in {0,1}
            selfo = SObj.new(st, 'self', ops=ops, c_locs=c_locs, c=mem, m=m, tmp_idx=tmp_idx, tmp2_idx=tmp2_idx,
                             circuit=circuit, s=SArr(), mdim=nplanes, zero_idx=nlines)
            st.env.update(self=selfo, inject_cb=cb)
        else:
            st.env.update(ops=ops, c_locs=c_locs, c=mem)
        st.heap['cb_calls'] = 0
        ex.nops = nops
        return st

    def spec_value(ex, st, k, read=None):
        """row value the spec assigns to op k, computed from the spec memory M(k) (or through ``read(slot)``)"""
        kk = to_int(k)
        ins = []
        for col in range(2, 6):
            loc = ex.CL(ex.OPS(kk, col))
            if read is not None:
                ins.append(read(ex.OPS(kk, col)))
            else:
                ins.append(tuple(SBV(z3.Select(ex.Ms[p](kk), loc)) for p in range(nplanes)))
        res = None
        for name in NAMES:
            v = spec_row(m, name, ins)
            v = tuple(bv8(x) if not isinstance(x, SBV) else x for x in v)
            if res is None:
                res = v
            else:
                c = ex.OPS(kk, 0) == ex.codes[name]
                res = tuple(SBV(z3.If(c, a.e, b.e)) for a, b in zip(v, res))
        return res

    def assume_def(ex, st):
        k = st.env[f'__k{loop_ordinal}']
        kk = to_int(k)
        st.assume(SBool(ex.req_body(k)))
        st.env['__cur_k__'] = k
        st.env['__out_line__'] = SInt(ex.OPS(kk, 1))
        st.env['__out_loc__'] = SInt(ex.CL(ex.OPS(kk, 1)))
        sv = spec_value(ex, st, k)
        ex.cur_spec = sv
        oloc = ex.CL(ex.OPS(kk, 1))
        if callback:
            # with a callback the spec memory takes whatever the callback left in the row (C16: 'overwriting is equivalent
            # to driving the signal with the overwritten values' -- downstream reads see M(k+1))
            cbrow = [z3.BitVec(f'cbrow{p}!{next(ex.fresh)}', 8) for p in range(nplanes)]
            st.env['__cbrow_ghost__'] = cbrow
            is_line = ex.OPS(kk, 1) < to_int(st.env['__nlines__'])
            for p in range(nplanes):
                st.assume(SBool(ex.Ms[p](kk + 1) == z3.Store(ex.Ms[p](kk), oloc, z3.If(is_line, cbrow[p], sv[p].e))))

            def row_is_spec(st_):
                for p in range(nplanes):
                    yield f'row holds the spec value (plane {p}) when the callback is invoked', \
                        SBool(z3.Select(st_.heap[('c', p)], oloc) == sv[p].e)
            st.env['__row_is_spec__'] = row_is_spec
        else:
            for p in range(nplanes):
                st.assume(SBool(ex.Ms[p](kk + 1) == z3.Store(ex.Ms[p](kk), oloc, sv[p].e)))
        st.heap['cb_calls'] = 0

    def inv(ex, st):
        k = st.env[f'__k{loop_ordinal}']
        kk = to_int(k)
        x = z3.Int('x')
        if callback and kk is not None and '__cbrow_ghost__' in st.env and st.env.get('__cur_k__') is not None \
                and z3.eq(z3.simplify(kk - to_int(st.env['__cur_k__'])), z3.IntVal(1)):
            # end of an iteration with callback: exactly one call, and tie the ghost row to what the callback wrote
            is_line = ex.OPS(to_int(st.env['__cur_k__']), 1) < to_int(st.env['__nlines__'])
            yield 'callback invoked exactly once for an evaluated line (never for the scratch output of a gate without output line)', \
                SBool(z3.If(is_line, z3.IntVal(1), z3.IntVal(0)) == to_int(st.heap['cb_calls']))
        for p in range(nplanes):
            excl = [x != ex.t0.e, x != ex.t1.e] if scratch else []
            body = z3.Select(st.heap[('c', p)], x) == z3.Select(ex.Ms[p](kk), x)
            yield f'c plane {p} equals the spec memory M(k) outside the scratch rows', \
                SBool(z3.ForAll([x], z3.Implies(z3.And(*excl), body) if excl else body))

    def post(ex, st):
        x = z3.Int('x')
        for p in range(nplanes):
            excl = [x != ex.t0.e, x != ex.t1.e] if scratch else []
            body = z3.Select(st.heap[('c', p)], x) == z3.Select(ex.Ms[p](ex.nops.e), x)
            yield f'final c plane {p} = fold of the spec step over all ops', \
                SBool(z3.ForAll([x], z3.Implies(z3.And(*excl), body) if excl else body))
        ex.prove(st, 'mustfail:c is unchanged by propagation',
                 SBool(z3.Implies(ex.nops.e > 0, st.heap[('c', 0)] == ex.st0.heap[('c', 0)])), ex.fn, expect='refuted')

    contract = {'post': post, 'print_unreachable': True, 'iteration_local': ['cb_calls'],       # ghost call counter: reset by assume_def at the start of every iteration
                'loops': {loop_ordinal: {'inv': inv, 'assume': assume_def, 'kinds': {}}}}
    cfg = Config(f'm={m}/{"callback" if callback else "plain"}', contract, setup, None)
    cfg.parts = dict(setup=setup, assume_def=assume_def, spec_value=spec_value, nplanes=nplanes, loop_ordinal=loop_ordinal, scratch=scratch)
    return cfg


def composition_config(m, which):
    """Composition over the op list (Inv of DESIGN.md 4): with ghost netlist values V(slot) defined along the op list (A1) and
    an abstract liveness LIVE(slot, k) satisfying the memory-map hypotheses A2-A5 (consequences of MapValid: operands are live
    when read; liveness only starts at production; whoever lives at the output location after op k carries the output's value;
    live slots never sit on a scratch row), every live slot holds its netlist value after every op:
        Inv(k):  forall x. LIVE(x, k) -> c[c_locs[x]] == V(x)
    requires Inv(0) (sources loaded); ensures Inv(n) (every captured line holds the gate-by-gate value)."""
    base = loop_config(m, which, False)
    P = base.parts
    nplanes, lo = P['nplanes'], P['loop_ordinal']

    def setup(ex):
        st = P['setup'](ex)
        ex.V = [z3.Function(f'V{p}', z3.IntSort(), z3.BitVecSort(8)) for p in range(nplanes)]
        ex.LIVE = z3.Function('LIVE', z3.IntSort(), z3.IntSort(), z3.BoolSort())
        x = z3.Int('x')
        for p in range(nplanes):
            st.assume(SBool(z3.ForAll([x], z3.Implies(ex.LIVE(x, 0), z3.Select(st.heap[('c', p)], ex.CL(x)) == ex.V[p](x)))))
        return st

    def assume_def(ex, st):
        P['assume_def'](ex, st)
        k = to_int(st.env[f'__k{lo}'])
        out = ex.OPS(k, 1)
        nl = to_int(st.env['__nlines__'])
        dangling = out == nl + 1
        readV = lambda slot: tuple(SBV(ex.V[p](slot)) for p in range(nplanes))
        sv = P['spec_value'](ex, st, st.env[f'__k{lo}'], read=readV)
        x = z3.Int('x')
        CL, LIVE, V = ex.CL, ex.LIVE, ex.V
        t0, t1 = CL(nl + 1), CL(nl + 2)
        hyp = []
        hyp.append(z3.Implies(z3.Not(dangling), z3.And(*[V[p](out) == sv[p].e for p in range(nplanes)])))                        # A1
        for col in range(2, 6):
            hyp.append(LIVE(ex.OPS(k, col), k))                                                                                  # A2
        hyp.append(z3.ForAll([x], z3.Implies(z3.And(LIVE(x, k + 1), CL(x) != CL(out)), LIVE(x, k))))                             # A3
        hyp.append(z3.ForAll([x], z3.Implies(z3.And(LIVE(x, k + 1), CL(x) == CL(out)),
                                            z3.And(z3.Not(dangling), *[V[p](x) == V[p](out) for p in range(nplanes)]))))       # A4
        for kk in (k, k + 1):
            hyp.append(z3.ForAll([x], z3.Implies(LIVE(x, kk), z3.And(CL(x) != t0, CL(x) != t1))))                                # A5
        for h in hyp:
            st.assume(SBool(h))

    def inv(ex, st):
        k = to_int(st.env[f'__k{lo}'])
        x = z3.Int('x')
        for p in range(nplanes):
            yield f'Inv: every live slot holds its netlist value (plane {p})', \
                SBool(z3.ForAll([x], z3.Implies(ex.LIVE(x, k), z3.Select(st.heap[('c', p)], ex.CL(x)) == ex.V[p](x))))

    def post(ex, st):
        x = z3.Int('x')
        n = to_int(ex.nops)
        for p in range(nplanes):
            yield f'every slot live after the last op (captured lines) holds the gate-by-gate value (plane {p})', \
                SBool(z3.ForAll([x], z3.Implies(ex.LIVE(x, n), z3.Select(st.heap[('c', p)], ex.CL(x)) == ex.V[p](x))))
        ex.prove(st, 'mustfail:live slots hold zero', SBool(z3.ForAll([x], z3.Implies(ex.LIVE(x, n), z3.Select(st.heap[('c', 0)], ex.CL(x)) == 0))),
                 ex.fn, expect='refuted')
    contract = {'post': post, 'loops': {lo: {'inv': inv, 'assume': assume_def, 'kinds': {}}}}
    return Config(f'm={m}/composition', contract, setup, None)


def composition_targets(ms=(2, 4, 8)):
    ts = []
    if 2 in ms:
        ts.append(Target('logic_sim', '_prop_cpu', [composition_config(2, '_prop_cpu')], prims=prims(2), instantiate='fallback',
                         note='composition over the op list under the memory-map hypotheses A1-A5'))
    cfgs = [composition_config(m, 'c_prop') for m in ms if m != 2]
    if cfgs:
        ts.append(Target('logic_sim', 'LogicSim.c_prop', cfgs, prims=prims(0), instantiate='fallback',
                         note='composition over the op list under the memory-map hypotheses A1-A5'))
    return ts


class SArr(Model):
    """self.s of LogicSim -- shape (2, s_len, 3, nbytes); the evaluation loop has no business indexing it"""

    def m_getitem(self, ex, st, idx, node):
        ex.prove(st, 'callback:second argument must be a view of c, not a row of the port array s', False, node)
        if isinstance(idx, (tuple, slice)):
            raise NotInSubset('index into s')
        i = to_int(idx)
        ex.prove(st, 'index-in-bounds:self.s (first axis has extent 2)', z3.And(i >= 0, i < 2), node)
        return SRow(idx)


class SRow(Model):
    def __init__(self, idx):
        self.idx = idx


def prims(m):
    def f(globs):
        logic = globs['logic']
        p = {}
        for mm in (4, 8):
            for op in ('not', 'and', 'or', 'xor', 'buf'):
                p[getattr(logic, f'bp{mm}v_{op}')] = bp_callee(mm, op)

        def prop_cpu_model(ex, st, args, kwargs, node):
            # modular call of _prop_cpu(ops, c_locs, c): ensures c == M(n_ops) (its own contract, proved separately)
            o = st.env['self']
            ok = len(args) == 3 and args[0] is st.heap[('self', 'ops')] and args[1] is st.heap[('self', 'c_locs')] \
                and args[2] is st.heap[('self', 'c')]
            ex.prove(st, 'call:_prop_cpu(self.ops, self.c_locs, self.c)', ok, node)
            mem = ex.mem
            for p in range(mem.nplanes):
                st.heap[(mem.name, p)] = ex.Ms[p](ex.nops.e)
            return None
        if '_prop_cpu' in globs:
            p[globs['_prop_cpu']] = prop_cpu_model

        def print_model(ex, st, args, kwargs, node):
            ex.prove(st, 'unreachable:print (unknown op)', False, node)
            return None
        p[print] = print_model
        return p
    return f


def targets(ms=(2, 4, 8), callback=(False, True)):
    ts = []
    if 2 in ms and False in callback:
        ts.append(Target('logic_sim', '_prop_cpu', [loop_config(2, '_prop_cpu', False)], prims=prims(2), instantiate='fallback'))
    cfgs = [loop_config(m, 'c_prop', cb) for m in ms for cb in callback]
    ts.append(Target('logic_sim', 'LogicSim.c_prop', cfgs, prims=prims(0), instantiate='fallback'))
    return ts


def xsound_lemmas():
    """C02: per primitive, over the spec only (finite): (L-Xsound) a 0/1 result of the 4-valued composition is never
    contradicted by a 0/1 completion of the X/- operands; (L-8v2v) for operands without X/-, the final / initial components of
    the 8-valued composition are the 2-valued function of the operands' final / initial components.  Both are preserved by
    composition (structural induction over the netlist -- on paper), which gives the circuit-level consequences."""
    def build():
        for name in NAMES:
            # L-Xsound
            v4 = [(SBool(z3.Bool(f'f{j}')), SBool(z3.Bool(f'i{j}'))) for j in range(4)]
            y = [SBool(z3.Bool(f'y{j}')) for j in range(4)]
            compl = And(*[And(Or(Not(A.is_zero8(A.to8(v))), Not(yy)), Or(Not(A.is_one8(A.to8(v))), yy)) for v, yy in zip(v4, y)])
            r4 = gates.apply(name, 4, v4)
            r2 = gates.apply(name, 2, [(yy,) for yy in y])[0]
            r8 = A.to8(r4)
            from pyvc.logic import implies, iff
            yield f'L-Xsound {name}', [compl], And(implies(A.is_zero8(r8), Not(r2)), implies(A.is_one8(r8), r2))
            # L-8v2v
            v8 = [(SBool(z3.Bool(f'F{j}')), SBool(z3.Bool(f'I{j}')), SBool(z3.Bool(f'A{j}'))) for j in range(4)]
            known = And(*[Not(A.is_unknown8(v)) for v in v8])
            r = gates.apply(name, 8, v8)
            fin = gates.apply(name, 2, [(v[0],) for v in v8])[0]
            ini = gates.apply(name, 2, [(v[1],) for v in v8])[0]
            yield f'L-8v2v {name}', [known], And(iff(r[0], fin), iff(r[1], ini), Not(A.is_unknown8(r)))
        yield 'mustfail: X AND X is a constant', [], Not(A.is_unknown8(A.and8(A.X8, A.X8))), 'refuted'
    return Lemmas('X-soundness and 8v/2v consistency of every primitive (spec level, C02)', build)


def lut_lemmas():
    """ground obligations: every LUT constant of kyupy.sim equals the truth table of the gate its name denotes, and
    kind_prefixes selects the family member of the right arity"""
    def build():
        from pyvc import source
        sim = source.module_namespace('sim')
        for n in NAMES:
            yield f'sim.{n} == truth table of {n}', [], int(sim[n]) == gates.truth_table16(n)
        yield 'exactly 33 primitive constants', [], len(sim['names']) == 33
        for prefix, prims_ in sim['kind_prefixes'].items():
            fam = gates.FAMILIES.get(prefix)
            if fam is None:
                yield f'kind prefix {prefix!r} has a family in the spec', [], False
                continue
            for pos, arity in ((0, 4), (1, 3), (2, 2)):
                name = fam if fam in gates.PRIMS else f'{fam}{arity}'
                yield f'kind_prefixes[{prefix!r}][{pos}] is {name}', [], int(prims_[pos]) == gates.truth_table16(name)
        # first-match semantics of the prefix scan: a kind must not be captured by a shorter, earlier prefix of another family
        keys = list(sim['kind_prefixes'])
        for i, a in enumerate(keys):
            for b in keys[:i]:
                if a.startswith(b):
                    yield f'prefix order: {a!r} is not shadowed by earlier {b!r}', [], \
                        gates.FAMILIES.get(a) == gates.FAMILIES.get(b)
        yield 'mustfail: AND2 table is the OR2 table', [], int(sim['AND2']) == gates.truth_table16('OR2'), 'refuted'
    return Lemmas('kyupy.sim LUT constants and kind_prefixes (ground)', build)


def lifting_lemmas():
    """the lane-wise lifting of the value-level spec used for the memory planes is faithful: lane j of the lifted
    operator equals the value-level operator on lane j"""
    def build():
        from pyvc.logic import bit
        for m in (4, 8):
            npl = 3 if m == 8 else 2
            for opname, k in (('not', 1), ('and', 2), ('or', 3), ('xor', 2), ('and', 4), ('or', 4), ('xor', 4)):
                vals = [tuple(SBV(z3.BitVec(f'v{j}_{p}', 8)) for p in range(npl)) for j in range(k)]
                lifted = A.OPS[m][opname](*vals)
                for j in (0, 3, 7):
                    lanes = [tuple(bit(p, j) for p in v) for v in vals]
                    want = A.OPS[m][opname](*lanes)
                    got = tuple(bit(bv8(p), j) for p in lifted)
                    yield f'lifted {opname}{m}/{k}: lane {j}', [], A.eqv(got, want)
    return Lemmas('lane-wise lifting of spec.algebra is faithful', build)
