"""Contract of the per-chain body of kyupy.stil.StilFile._maps (C18: "scan data mapped onto flip-flops by chain order and inversion").

A scan chain is [scan-in port, item_1 .. item_{n-2}, scan-out port]; an item is an inverter marker '!' or the name of a scan cell.
Ghost: NB(k) = number of cells among items [1, k), PARF(k) = parity of markers among items [1, k) (between scan-in and item k),
PARB(k) = parity of markers among items (k, n-2] (between item k and scan-out), m = NB(n-1) cells.
ensures  for every cell item j, with t = m-1-NB(j) (its distance from the scan-out end):
           scan_map[t] = interface position of the cell,  scan-in inversion[t] = PARF(j),  scan-out inversion[t] = PARB(j);
         all three sequences have length m; both ports of the chain map to the same scan_map; the inversion tables go through logic.mvarray.
"""
import ast

import z3

from pyvc.engine import State, Model, NotInSubset, SymIter, ContractError
from pyvc.values import SInt, SBool, to_int, to_bool, _conc_int
from pyvc.models_obj import SObj
from pyvc.verify import Config, Target

I, B = z3.IntSort(), z3.BoolSort()
BANG = z3.Function('BANG', I, B)
POS = z3.Function('IPOS', I, I)
NB = z3.Function('NB', I, I)
PARF = z3.Function('PARF', I, B)
PARB = z3.Function('PARB', I, B)


class Method(Model):
    def __init__(self, fn):
        self.fn = fn

    def m_call(self, ex, st, args, kwargs, node):
        return self.fn(ex, st, args, kwargs, node)


class Item(Model):
    def __init__(self, k):
        self.k = k

    def m_compare(self, ex, st, op, a, b, node):
        other = b if a is self else a
        if other != '!' or op not in (ast.Eq, ast.NotEq):
            raise NotInSubset('comparison of a chain item with something other than the inverter marker')
        r = BANG(self.k)
        return SBool(r if op is ast.Eq else z3.Not(r))


class Chain(Model):
    def __init__(self, n, lo=None, hi=None, rev=False):
        self.n, self.lo, self.hi, self.rev = n, lo, hi, rev

    def m_getitem(self, ex, st, idx, node):
        if isinstance(idx, slice):
            if _conc_int(idx.start) == 1 and _conc_int(idx.stop) == -1 and idx.step is None and self.lo is None:
                return Chain(self.n, z3.IntVal(1), self.n - 1)
            raise NotInSubset('chain slice other than [1:-1]')
        c = _conc_int(idx)
        if self.lo is None and c in (0, -1):
            return Item(z3.IntVal(0) if c == 0 else self.n - 1)
        raise NotInSubset('chain index other than 0 / -1')

    def m_iter(self, ex, st, node):
        if self.lo is None:
            raise NotInSubset('iteration over the whole chain')
        n = z3.If(self.hi - self.lo > 0, self.hi - self.lo, 0)
        if self.rev:
            return SymIter(SInt(n), lambda ex_, st_, k: Item(self.hi - 1 - to_int(k)))
        return SymIter(SInt(n), lambda ex_, st_, k: Item(self.lo + to_int(k)))


class SymList(Model):
    """a Python list of ints / bools built by append: heap[(name,'arr')] (Int; bools as 0/1), heap[(name,'len')]"""
    count = 0

    def __init__(self, name, boolean=False):
        self.name, self.boolean = name, boolean

    @staticmethod
    def new(st, base):
        SymList.count += 1
        nm = f'{base}#{SymList.count}'
        st.heap[(nm, 'arr')] = z3.K(I, z3.IntVal(0))
        st.heap[(nm, 'len')] = SInt(z3.IntVal(0))
        return SymList(nm)

    def arr(self, st): return st.heap[(self.name, 'arr')]
    def ln(self, st): return to_int(st.heap[(self.name, 'len')])

    def m_len(self, ex, st, node):
        return st.heap[(self.name, 'len')]

    def m_getattr(self, ex, st, name, node):
        if name == 'append':
            def append(ex_, st_, args, kwargs, node_):
                v = args[0]
                if isinstance(v, (bool, SBool)):
                    e = z3.If(to_bool(v), 1, 0) if isinstance(v, SBool) else z3.IntVal(int(v))
                else:
                    e = to_int(v)
                n = self.ln(st_)
                st_.heap[(self.name, 'arr')] = z3.Store(self.arr(st_), n, e)
                st_.heap[(self.name, 'len')] = SInt(n + 1)
            return Method(append)
        raise NotInSubset(f'list.{name}')


class Rev(Model):
    def __init__(self, lst):
        self.lst = lst


class MvWrap(Model):
    """logic.mvarray(list): remembered as the list it was built from"""
    def __init__(self, lst):
        self.lst = lst


class PosDict(Model):
    def m_getitem(self, ex, st, idx, node):
        if not isinstance(idx, Item):
            raise NotInSubset('intf_pos key')
        return SInt(POS(idx.k))


class OutDict(Model):
    def __init__(self, name):
        self.name = name

    def m_setitem(self, ex, st, key, val, node):
        if not isinstance(key, Item):
            raise NotInSubset('result table key')
        g = ex.g
        which = 'first' if z3.eq(z3.simplify(key.k), z3.IntVal(0)) else ('last' if z3.eq(z3.simplify(key.k - (g['n'] - 1)), z3.IntVal(0)) else None)
        if which is None:
            ex.prove(st, 'the result tables are keyed by the two port names of the chain', False, node)
            return
        st.heap[('out', self.name, which)] = val


def chain_body(stmts):
    for s in stmts:
        if isinstance(s, ast.For) and 'scan_chains' in ast.unparse(s.iter):
            return list(s.body)
    raise ContractError('per-chain loop not found in StilFile._maps')


def assign_hook(ex, st, name, v, node):
    if name in ('scan_map', 'scan_in_inversion', 'scan_out_inversion') and isinstance(v, list) and not v:
        return SymList.new(st, name)
    return v


def prims(globs):
    def rev(ex, st, args, kwargs, node):
        a = args[0]
        if isinstance(a, Chain) and a.lo is not None:
            return Chain(a.n, a.lo, a.hi, rev=not a.rev)
        if isinstance(a, SymList):
            return Rev(a)
        raise NotInSubset('reversed() of this value')

    def mklist(ex, st, args, kwargs, node):
        a = args[0] if args else None
        if isinstance(a, Rev):
            src = a.lst
            new = SymList.new(st, 'reversed')
            n, arr = src.ln(st), src.arr(st)
            j = z3.Int('j!rev')
            fresh = z3.Array(f'rev!{next(ex.fresh)}', I, I)
            st.assume(SBool(z3.ForAll([j], fresh[j] == arr[n - 1 - j])))
            st.heap[(new.name, 'arr')] = fresh
            st.heap[(new.name, 'len')] = SInt(n)
            return new
        if isinstance(a, SymList):
            new = SymList.new(st, 'copy')
            st.heap[(new.name, 'arr')] = a.arr(st)
            st.heap[(new.name, 'len')] = st.heap[(a.name, 'len')]
            return new
        raise NotInSubset('list() of this value')

    def mvarray(ex, st, args, kwargs, node):
        if len(args) != 1 or not isinstance(args[0], SymList):
            raise NotInSubset('mvarray of this value')
        ex.assumed.add('logic.mvarray(list of booleans) is the array of those values (C15)')
        return MvWrap(args[0])
    return {reversed: rev, list: mklist, globs['logic'].mvarray: mvarray}


def maps_config():
    def setup(ex):
        st = State()
        n = ex.fv('chain_len', 'int').e
        k = z3.Int('k')
        st.assume(SBool(z3.And(n >= 2, NB(1) == 0, z3.Not(PARF(1)), z3.Not(PARB(n - 2)))))
        st.assume(SBool(z3.ForAll([k], z3.Implies(k >= 1, z3.And(NB(k + 1) == NB(k) + z3.If(BANG(k), 0, 1), PARF(k + 1) == z3.Xor(PARF(k), BANG(k)), NB(k) >= 0)))))
        st.assume(SBool(z3.ForAll([k], PARB(k - 1) == z3.Xor(PARB(k), BANG(k)))))
        k2 = z3.Int('k2')
        st.assume(SBool(z3.ForAll([k, k2], z3.Implies(z3.And(1 <= k, k <= k2), NB(k) <= NB(k2)))))       # monotone (induction over the recurrence)
        st.env.update(chain=Chain(n), intf_pos=PosDict(), scan_maps=OutDict('scan_maps'), scan_inversions=OutDict('scan_inversions'), logic=ex.globs['logic'])
        ex.g = dict(n=n, m=NB(n - 1))
        return st

    def lists(st):
        e = st.env
        return [e.get(nm) for nm in ('scan_in_inversion', 'scan_map', 'scan_out_inversion')]

    def fwd_inv(ex, st):
        g = ex.g
        k = 1 + to_int(st.env['__k0'])
        lin = st.env.get('scan_in_inversion')
        if not isinstance(lin, SymList):
            yield 'scan_in_inversion is a list', False
            return
        contract['loops'][0]['modifies'] = [(lin.name, 'arr'), (lin.name, 'len')]        # the forward loop writes this list only
        A, ln = lin.arr(st), lin.ln(st)
        j = z3.Int('j')
        yield 'inversion = parity of the markers passed so far', SBool(to_bool(st.env['inversion']) == PARF(k))
        yield 'one entry per cell passed so far', SBool(ln == NB(k))
        yield 'the entry of every cell passed so far is the parity of the markers before it', \
            SBool(z3.ForAll([j], z3.Implies(z3.And(1 <= j, j < k, z3.Not(BANG(j))), A[NB(j)] == z3.If(PARF(j), 1, 0))))

    def bwd_inv(ex, st):
        g = ex.g
        n, m = g['n'], g['m']
        i = to_int(st.env['__k1'])
        k = n - 2 - i                      # next item to visit (items k+1 .. n-2 have been passed)
        lm, lo = st.env.get('scan_map'), st.env.get('scan_out_inversion')
        if not isinstance(lm, SymList) or not isinstance(lo, SymList):
            yield 'scan_map / scan_out_inversion are lists', False
            return
        contract['loops'][1]['modifies'] = [(lm.name, 'arr'), (lm.name, 'len'), (lo.name, 'arr'), (lo.name, 'len')]
        M, O = lm.arr(st), lo.arr(st)
        j = z3.Int('j')
        yield 'inversion = parity of the markers between the next item and the scan-out end', SBool(to_bool(st.env['inversion']) == PARB(k))
        yield 'one entry per cell passed so far (counted from the scan-out end)', SBool(z3.And(lm.ln(st) == m - NB(k + 1), lo.ln(st) == m - NB(k + 1)))
        yield 'every cell passed so far: position and parity of the markers behind it', \
            SBool(z3.ForAll([j], z3.Implies(z3.And(k < j, j <= n - 2, z3.Not(BANG(j))), z3.And(M[m - 1 - NB(j)] == POS(j), O[m - 1 - NB(j)] == z3.If(PARB(j), 1, 0)))))

    def post(ex, st):
        g = ex.g
        n, m = g['n'], g['m']
        try:
            sm_f, sm_l = st.heap[('out', 'scan_maps', 'first')], st.heap[('out', 'scan_maps', 'last')]
            si_f, si_l = st.heap[('out', 'scan_inversions', 'first')], st.heap[('out', 'scan_inversions', 'last')]
        except KeyError:
            yield 'scan_maps and scan_inversions are assigned for both ports of the chain', False
            return
        ok = isinstance(sm_f, SymList) and sm_f is sm_l and isinstance(si_f, MvWrap) and isinstance(si_l, MvWrap)
        yield 'both ports map to the same scan_map; the inversion tables are mvarrays', ok
        if not ok:
            return
        M, RI, O = sm_f.arr(st), si_f.lst.arr(st), si_l.lst.arr(st)
        j = z3.Int('j')
        yield 'all three sequences have one entry per cell', SBool(z3.And(sm_f.ln(st) == m, si_f.lst.ln(st) == m, si_l.lst.ln(st) == m))
        t = m - 1 - NB(j)
        yield 'cell at distance t from the scan-out end: its interface position, the parity of the markers before it (scan-in) and behind it (scan-out)', \
            SBool(z3.ForAll([j], z3.Implies(z3.And(1 <= j, j <= n - 2, z3.Not(BANG(j))), z3.And(M[t] == POS(j), RI[t] == z3.If(PARF(j), 1, 0), O[t] == z3.If(PARB(j), 1, 0)))))
        ex.prove(st, 'mustfail:no chain has a cell', SBool(m == 0), ex.fn, expect='refuted')

    def replay(model, obl, ex):
        ev = lambda e: model.eval(e, model_completion=True)
        n = ev(ex.g['n']).as_long()
        if not 2 <= n <= 30:
            return None
        return 'contracts.stil_c:run_maps', {'markers': [bool(z3.is_true(ev(BANG(z3.IntVal(k))))) for k in range(1, n - 1)]}

    def finite(ex):
        return -1, 6, [ex.g['n'] <= 6]
    contract = {'post': post, 'assign_hook': assign_hook, 'merge_ifs': True,
                'loops': {0: {'inv': fwd_inv, 'kinds': {'inversion': 'bool', 'n': 'keep'}}, 1: {'inv': bwd_inv, 'kinds': {'inversion': 'bool', 'n': 'keep'}}}}
    cfg = Config('any chain (cells and inverter markers in any order)', contract, setup, replay, finite=finite)
    cfg.small = lambda ex: [ex.g['n'] <= 7]
    return cfg


def run_maps(args):
    """the real StilFile._maps on a one-chain design with the given marker pattern against the statement of the contract"""
    from kyupy.circuit import Circuit, Node
    from kyupy.stil import StilFile
    import numpy as np
    c = Circuit('chain')
    si, so = Node(c, 'si', 'input'), Node(c, 'so', 'output')
    c.io_nodes.append(si)
    c.io_nodes.append(so)
    items, cells = [], []
    for k, bang in enumerate(args['markers']):
        if bang:
            items.append('!')
        else:
            nm = f'ff{k}'
            Node(c, nm, 'DFF')
            items.append(nm)
            cells.append(nm)
    sf = object.__new__(StilFile)
    sf.signal_groups = {'_pi': ['si'], '_po': ['so']}
    sf.scan_chains = {'chain1': ['si'] + items + ['so']}
    try:
        interface, pi_map, po_map, scan_maps, scan_inv = sf._maps(c)
    except Exception as e:  # noqa
        return {'reproduced': True, 'observed': repr(e)}
    pos = {n.name: i for i, n in enumerate(interface)}
    want_map, want_in, want_out = [], [], []
    for j in range(len(items) - 1, -1, -1):            # from the scan-out end
        if items[j] == '!':
            continue
        want_map.append(pos[items[j]])
        want_in.append(sum(1 for x in items[:j] if x == '!') % 2)
        want_out.append(sum(1 for x in items[j + 1:] if x == '!') % 2)
    got = (list(scan_maps['si']), list(scan_maps['so']), [int(bool(v)) for v in np.asarray(scan_inv['si']).ravel()], [int(bool(v)) for v in np.asarray(scan_inv['so']).ravel()])
    want = (want_map, want_map, want_in, want_out)
    return {'reproduced': got != want, 'observed': [list(map(int, g)) for g in got], 'expected': [list(map(int, w)) for w in want], 'chain': sf.scan_chains['chain1']}


def targets():
    return [Target('stil', 'StilFile._maps', [maps_config()], prims=prims, body_slice=chain_body, instantiate='fallback', label='one scan chain',
                   note='body of `for chain in self.scan_chains.values():`')]
