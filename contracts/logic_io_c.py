"""Contracts of the port <-> signal-memory transfers of kyupy.logic_sim.LogicSim (C01 / C02): s_to_c, c_to_s, s_ppo_to_ppi.

numpy gathers and scatters are modelled element-wise (assumed numpy contract: ``a[idx] = v`` with pairwise distinct idx writes v[j] to a[idx[j]] and nothing
else; a gather reads a[idx[j]]).  c : [location, plane, byte], s : [2, port, 3, byte]; mdim = number of planes in use (1, 2, 3).
  s_to_c        c[pippi_c_locs[j], p, b] = s[0, pippi_s_locs[j], p, b]  for p < mdim;  nothing else in c changes; s unchanged
  c_to_s        s[1, poppo_s_locs[j], p, b] = c[poppo_c_locs[j], p, b]  for p < mdim (for mdim = 1 plane 1 gets a copy of plane 0);  s[0] and c unchanged
  s_ppo_to_ppi  mdim < 3: s[0, x] = s[1, x] for the state elements x;  mdim = 3: initial plane <- previous final, final plane <- captured final
"""
import z3

from pyvc.engine import State, Model, NotInSubset
from pyvc.values import SInt, SBool, to_int, _conc_int
from pyvc.models_obj import SObj, IntArr
from pyvc.verify import Config, Target

I = z3.IntSort()
BV = z3.BitVecSort(8)
A3 = z3.ArraySort(I, z3.ArraySort(I, z3.ArraySort(I, BV)))          # [x, plane, byte]
A4 = z3.ArraySort(I, A3)                                            # [row, port, plane, byte]
INV = {nm: z3.Function(f'INV_{nm}', I, I) for nm in ('pippi_c_locs', 'poppo_s_locs', 'ppio_s_locs')}


class Rows(Model):
    """value of a gather: element function (j, plane, byte) -> BV8, number of rows n, planes [p0, p1)"""

    def __init__(self, n, elem, planes):
        self.n, self.elem, self.planes = n, elem, planes

    def m_binop(self, ex, st, op, a, b, node):
        import ast
        if op is not ast.BitXor or not (isinstance(a, Rows) and isinstance(b, Rows)) or a.planes[1] - a.planes[0] != 1 or b.planes[1] - b.planes[0] != 1:
            raise NotInSubset('arithmetic on gathered rows other than plane ^ plane')
        pa, pb = a.planes[0], b.planes[0]
        return Rows(a.n, lambda j, p, bb: a.elem(j, z3.IntVal(pa), bb) ^ b.elem(j, z3.IntVal(pb), bb), (0, 1))


def inimg(name, arr, n, x):
    inv = INV[name]
    return z3.And(0 <= inv(x), inv(x) < n, arr[inv(x)] == x)


class CArr(Model):
    def m_getitem(self, ex, st, idx, node):
        if not isinstance(idx, IntArr):
            raise NotInSubset('index into c')
        arr, C = st.heap[idx.name], st.heap['c']
        return Rows(to_int(idx.length), lambda j, p, b: C[arr[j]][p][b], (0, ex.g['mdim']))

    def m_setitem(self, ex, st, idx, val, node):
        g = ex.g
        if not isinstance(idx, IntArr) or idx.name not in INV or not isinstance(val, Rows):
            raise NotInSubset('assignment into c')
        if val.planes[1] - val.planes[0] != g['mdim']:
            ex.prove(st, 'no-exception:shapes of the scatter into c match (number of planes)', False, node)
        arr, n = st.heap[idx.name], to_int(idx.length)
        C0 = st.heap['c']
        C1 = z3.Const(f'c!{next(ex.fresh)}', A3)
        x, p, b = z3.Ints('x p b')
        src = INV[idx.name](x)
        st.assume(SBool(z3.ForAll([x, p, b], C1[x][p][b] == z3.If(z3.And(inimg(idx.name, arr, n, x), 0 <= p, p < g['mdim']), val.elem(src, p + val.planes[0], b), C0[x][p][b]))))
        st.heap['c'] = C1


class SRowView(Model):
    """self.s[row]: a view; indexing it is indexing s with the row prepended (writes go through)"""

    def __init__(self, base, row):
        self.base, self.row = base, row

    def _idx(self, idx):
        return (self.row,) + (idx if isinstance(idx, tuple) else (idx,))

    def m_getitem(self, ex, st, idx, node):
        return self.base.m_getitem(ex, st, self._idx(idx), node)

    def m_setitem(self, ex, st, idx, val, node):
        return self.base.m_setitem(ex, st, self._idx(idx), val, node)


class SArr(Model):
    def m_getitem(self, ex, st, idx, node):
        g = ex.g
        if _conc_int(idx) in (0, 1) and not isinstance(idx, tuple):
            return SRowView(self, _conc_int(idx))
        if not (isinstance(idx, tuple) and len(idx) in (2, 3) and _conc_int(idx[0]) in (0, 1) and isinstance(idx[1], IntArr)):
            raise NotInSubset('index into s')
        row, arr, S = _conc_int(idx[0]), st.heap[idx[1].name], st.heap['s']
        n = to_int(idx[1].length)
        if len(idx) == 2:
            return Rows(n, lambda j, p, b: S[row][arr[j]][p][b], (0, 3))
        pl = idx[2]
        if isinstance(pl, slice):
            lo = 0 if pl.start is None else _conc_int(pl.start)
            hi = 3 if pl.stop is None else _conc_int(pl.stop)
            if lo is None or hi is None or pl.step is not None:
                raise NotInSubset('plane slice of s')
            return Rows(n, lambda j, p, b: S[row][arr[j]][p][b], (lo, min(hi, 3)))
        k = _conc_int(pl)
        if k is None:
            raise NotInSubset('plane index of s')
        return Rows(n, lambda j, p, b: S[row][arr[j]][p][b], (k, k + 1))

    def m_setitem(self, ex, st, idx, val, node):
        g = ex.g
        if not (isinstance(idx, tuple) and len(idx) in (2, 3) and _conc_int(idx[0]) in (0, 1) and isinstance(idx[1], IntArr) and idx[1].name in INV and isinstance(val, Rows)):
            raise NotInSubset('assignment into s')
        row, name = _conc_int(idx[0]), idx[1].name
        arr, n = st.heap[name], to_int(idx[1].length)
        if len(idx) == 2:
            lo, hi = 0, 3
        elif isinstance(idx[2], slice):
            lo = 0 if idx[2].start is None else _conc_int(idx[2].start)
            hi = 3 if idx[2].stop is None else min(_conc_int(idx[2].stop), 3)
        else:
            lo = _conc_int(idx[2]); hi = lo + 1
        vl, vh = val.planes
        if not (vh - vl == hi - lo or vh - vl == 1):
            ex.prove(st, 'no-exception:shapes of the scatter into s match (number of planes)', False, node)
        bc = (vh - vl == 1 and hi - lo != 1)          # a single plane is broadcast
        S0 = st.heap['s']
        S1 = z3.Const(f's!{next(ex.fresh)}', A4)
        r, x, p, b = z3.Ints('r x p b')
        src = INV[name](x)
        st.assume(SBool(z3.ForAll([r, x, p, b], S1[r][x][p][b] == z3.If(z3.And(r == row, inimg(name, arr, n, x), lo <= p, p < hi),
                                                                          val.elem(src, (z3.IntVal(vl) if bc else p - lo + vl), b), S0[r][x][p][b]))))
        st.heap['s'] = S1


def base_state(ex, mdim, names):
    st = State()
    g = dict(mdim=mdim)
    fields = {}
    for nm in names:
        n = ex.fv('n_' + nm, 'int')
        st.assume(SBool(n.e >= 0))
        IntArr.new(ex, st, nm, length=n)
        fields[nm] = IntArr(nm, n, False)
        g[nm], g['n_' + nm] = st.heap[nm], n.e
        if nm in INV:
            j = z3.Int('j')
            st.assume(SBool(z3.ForAll([j], z3.Implies(z3.And(0 <= j, j < n.e), INV[nm](st.heap[nm][j]) == j))))      # pairwise distinct (ghost inverse)
    st.heap['c'] = z3.Const('c0', A3)
    st.heap['s'] = z3.Const('s0', A4)
    g['c0'], g['s0'] = st.heap['c'], st.heap['s']
    selfo = SObj.new(st, 'self', c=CArr(), s=SArr(), mdim=mdim, **fields)
    ex.readonly.update({('self', f) for f in ['c', 's', 'mdim'] + list(names)})
    st.env['self'] = selfo
    ex.g = g
    return st


def s_to_c_config(mdim):
    def setup(ex):
        return base_state(ex, mdim, ('pippi_c_locs', 'pippi_s_locs'))

    def post(ex, st):
        g = ex.g
        C, S = st.heap['c'], st.heap['s']
        j, p, b, x = z3.Ints('j p b x')
        yield 'every (pseudo) primary input location holds the assigned value s[0] of its port, in the planes in use', \
            SBool(z3.ForAll([j, p, b], z3.Implies(z3.And(0 <= j, j < g['n_pippi_c_locs'], 0 <= p, p < mdim), C[g['pippi_c_locs'][j]][p][b] == g['s0'][0][g['pippi_s_locs'][j]][p][b])))
        yield 'frame: no other location of c changes; s is unchanged', \
            SBool(z3.And(S == g['s0'], z3.ForAll([x, p, b], z3.Implies(z3.Not(inimg('pippi_c_locs', g['pippi_c_locs'], g['n_pippi_c_locs'], x)), C[x][p][b] == g['c0'][x][p][b]))))
        ex.prove(st, 'mustfail:c is unchanged', SBool(C == g['c0']), ex.fn, expect='refuted')

    def setup2(ex):
        st = setup(ex)
        st.assume(SBool(ex.g['n_pippi_c_locs'] == ex.g['n_pippi_s_locs']))
        return st
    return Config(f'mdim={mdim}', {'post': post}, setup2, None)


def c_to_s_config(mdim):
    def setup(ex):
        st = base_state(ex, mdim, ('poppo_c_locs', 'poppo_s_locs'))
        st.assume(SBool(ex.g['n_poppo_c_locs'] == ex.g['n_poppo_s_locs']))
        return st

    def post(ex, st):
        g = ex.g
        C, S = st.heap['c'], st.heap['s']
        j, p, b, x, r = z3.Ints('j p b x r')
        rng = z3.And(0 <= j, j < g['n_poppo_s_locs'])
        yield 'every output / state-element row of s[1] holds the value at its captured location, in the planes in use', \
            SBool(z3.ForAll([j, p, b], z3.Implies(z3.And(rng, 0 <= p, p < mdim), S[1][g['poppo_s_locs'][j]][p][b] == g['c0'][g['poppo_c_locs'][j]][p][b])))
        if mdim == 1:
            yield '2-valued: plane 1 of the captured row repeats plane 0', \
                SBool(z3.ForAll([j, b], z3.Implies(rng, S[1][g['poppo_s_locs'][j]][1][b] == g['c0'][g['poppo_c_locs'][j]][0][b])))
        yield 'frame: c and the assignments s[0] are unchanged, other rows of s[1] too', \
            SBool(z3.And(C == g['c0'], S[0] == g['s0'][0],
                         z3.ForAll([x, p, b], z3.Implies(z3.Not(inimg('poppo_s_locs', g['poppo_s_locs'], g['n_poppo_s_locs'], x)), S[1][x][p][b] == g['s0'][1][x][p][b]))))
        ex.prove(st, 'mustfail:s is unchanged', SBool(S == g['s0']), ex.fn, expect='refuted')
    return Config(f'mdim={mdim}', {'post': post}, setup, None)


def ppo_to_ppi_config(mdim):
    def setup(ex):
        return base_state(ex, mdim, ('ppio_s_locs',))

    def post(ex, st):
        g = ex.g
        C, S, S0 = st.heap['c'], st.heap['s'], g['s0']
        j, p, b, x = z3.Ints('j p b x')
        rng = z3.And(0 <= j, j < g['n_ppio_s_locs'])
        X = g['ppio_s_locs'][j]
        if mdim < 3:
            yield 'every state element gets its captured value as the next assignment (all planes)', \
                SBool(z3.ForAll([j, p, b], z3.Implies(z3.And(rng, 0 <= p, p < 3), S[0][X][p][b] == S0[1][X][p][b])))
        else:
            yield '8-valued: initial plane <- previously assigned final plane, final plane <- captured final plane, activity plane <- final xor initial', \
                SBool(z3.ForAll([j, b], z3.Implies(rng, z3.And(S[0][X][1][b] == S0[0][X][0][b], S[0][X][0][b] == S0[1][X][0][b], S[0][X][2][b] == S0[1][X][0][b] ^ S0[0][X][0][b]))))
        yield 'frame: c, the captured row s[1] and the assignments of the other ports are unchanged', \
            SBool(z3.And(C == g['c0'], S[1] == S0[1],
                         z3.ForAll([x, p, b], z3.Implies(z3.Not(inimg('ppio_s_locs', g['ppio_s_locs'], g['n_ppio_s_locs'], x)), S[0][x][p][b] == S0[0][x][p][b]))))
        ex.prove(st, 'mustfail:s is unchanged', SBool(S == S0), ex.fn, expect='refuted')
    return Config(f'mdim={mdim}', {'post': post}, setup, None)


def targets(mdims=(1, 2, 3)):
    return [Target('logic_sim', 'LogicSim.s_to_c', [s_to_c_config(m) for m in mdims], instantiate='fallback'),
            Target('logic_sim', 'LogicSim.c_to_s', [c_to_s_config(m) for m in mdims], instantiate='fallback'),
            Target('logic_sim', 'LogicSim.s_ppo_to_ppi', [ppo_to_ppi_config(m) for m in mdims], instantiate='fallback')]


# ------------------------------------------------------------------------------------------------------------------ LogicSim.cycle
class SeqSelf(Model):
    """self of LogicSim.cycle: the four phase methods append to a ghost call log  heap['log'] : position -> code, heap['log_len']"""
    CODES = {'s_to_c': 1, 'c_prop': 2, 'c_to_s': 3, 's_ppo_to_ppi': 4}

    def m_getattr(self, ex, st, name, node):
        if name not in self.CODES:
            raise NotInSubset(f'self.{name} in cycle')
        code = self.CODES[name]

        class M(Model):
            def m_call(self_, ex_, st_, args, kwargs, node_):
                if name == 'c_prop':
                    ok = (len(args) == 1 and args[0] is st_.env['inject_cb'] and not kwargs) or (not args and kwargs.get('inject_cb') is st_.env['inject_cb'] and len(kwargs) == 1)
                    ex_.prove(st_, 'call:c_prop gets the inject_cb argument of cycle', ok, node_)
                else:
                    ex_.prove(st_, f'call:{name} takes no argument', not args and not kwargs, node_)
                n = to_int(st_.heap['log_len'])
                st_.heap['log'] = z3.Store(st_.heap['log'], n, code)
                st_.heap['log_len'] = SInt(n + 1)
                return None
        return M()


class Cb(Model):
    pass


def cycle_config():
    def setup(ex):
        st = State()
        k = ex.fv('cycles', 'int')
        st.assume(SBool(k.e >= 0))
        st.heap['log'] = z3.K(I, z3.IntVal(0))
        st.heap['log_len'] = SInt(z3.IntVal(0))
        st.env.update(self=SeqSelf(), cycles=k, inject_cb=Cb())
        ex.g = dict(k=k.e)
        return st

    def inv(ex, st):
        i = to_int(st.env['__k0'])
        j = z3.Int('j')
        yield 'four calls per finished cycle', SBool(to_int(st.heap['log_len']) == 4 * i)
        yield 'the calls of every finished cycle are s_to_c, c_prop, c_to_s, s_ppo_to_ppi in this order', \
            SBool(z3.ForAll([j], z3.Implies(z3.And(0 <= j, j < 4 * i), st.heap['log'][j] == j % 4 + 1)))

    def post(ex, st):
        g = ex.g
        j = z3.Int('j')
        yield 'cycle(k) = k times (s_to_c; c_prop(inject_cb); c_to_s; s_ppo_to_ppi), nothing else', \
            SBool(z3.And(to_int(st.heap['log_len']) == 4 * g['k'], z3.ForAll([j], z3.Implies(z3.And(0 <= j, j < 4 * g['k']), st.heap['log'][j] == j % 4 + 1))))
        ex.prove(st, 'mustfail:nothing is ever called', SBool(to_int(st.heap['log_len']) == 0), ex.fn, expect='refuted')
    return Config('any number of cycles', {'post': post, 'loops': {0: {'inv': inv, 'modifies': ['log', 'log_len'], 'kinds': {}}}}, setup, None)


def targets_cycle():
    return [Target('logic_sim', 'LogicSim.cycle', [cycle_config()], instantiate='fallback', note='call sequence of the four phases (ghost log)')]
