"""Contracts for kyupy.logic: array operators (_mv_*, mv_*), bit-parallel operators (bp4v_*, bp8v_*), mv_transition,
mv_latch.  Postconditions come from spec.algebra (value-level, from the property text)."""
import z3

from pyvc.engine import State, NotInSubset
from pyvc.values import SBV, SBool, SInt, to_bool, to_int
from pyvc.logic import And, Or, Not, implies, iff, ite, bit
from pyvc.models_np import ElemArr, PlaneMem, RowView, np_prims, bv8
from pyvc.verify import Config, Target
from spec import algebra as A

MV_OPS = {'not': A.not8, 'and': A.and8, 'or': A.or8, 'xor': A.xor8}


def dec8(v):
    """decode one multi-valued array element (SBV8 or int) into (f, i, a)"""
    return (bit(v, 0), bit(v, 1), bit(v, 2))


def upper_zero(v):
    if isinstance(v, SBV):
        return SBool(z3.Extract(7, 3, v.e) == 0)
    return (int(v) >> 3) == 0


# ------------------------------------------------------------------------------------------------ _mv_* (array form)
def mv_core_config(opname, k, mustfail=True):
    spec = MV_OPS[opname]

    def setup(ex):
        st = State()
        out = ElemArr.new(ex, st, 'out')
        ins = [ElemArr.new(ex, st, f'in{j}', writable=False) for j in range(k)]
        for a in ins:
            st.assume(upper_zero(a.elem(st)))          # requires: operands hold 3-bit codes
        if opname == 'not':
            st.env.update(out=out, inp=ins[0])
        else:
            st.env.update(out=out, ins=tuple(ins))
        ex.ins = ins
        ex.out = out
        return st

    def post(ex, st):
        want = spec(*[dec8(a.elem(ex.st0)) for a in ex.ins])
        got = st.heap['out']
        yield 'result = spec(%s)' % opname, And(A.eqv(dec8(got), want), upper_zero(got))
        for a in ex.ins:
            yield f'frame:{a.name} unchanged', st.heap[a.name] == ex.st0.heap[a.name]
        if mustfail:
            # vacuity guard: a wrong clause that must be refuted
            ex.prove(st, 'mustfail:result is constant ZERO', got == 0, ex.fn, expect='refuted')

    def replay(model, obl, ex):
        vals = [model.eval(ex.st0.heap[a.name].e, model_completion=True).as_long() for a in ex.ins]
        return 'contracts.logic_c:run_mv_core', {'op': opname, 'operands': vals, 'broadcast': 'in-place operator' in obl.name}
    return Config(f'{opname}/{k}', {'post': post, 'inplace_shapes': True}, setup, replay)


def run_mv_core(args, shape=(3,)):
    """replay on the real code: _mv_<op>(out, *operands) with every element = the counter-model's codes"""
    import numpy as np
    from kyupy import logic
    opname, vals = args['op'], args['operands']
    fn = getattr(logic, f'_mv_{opname}')
    if args.get('broadcast'):
        # operands of different (broadcast-compatible) shapes: (3,1), (1,4), (3,1), ... ; out has the broadcast shape
        ins = [np.full((3, 1) if j % 2 == 0 else (1, 4), v, dtype=np.uint8) for j, v in enumerate(vals)]
        shape = np.broadcast(*ins).shape
    else:
        ins = [np.full(shape, v, dtype=np.uint8) for v in vals]
    out = np.full(shape, 0xAA, dtype=np.uint8)
    try:
        fn(out, *ins)
    except Exception as e:  # noqa
        return {'reproduced': True, 'observed': repr(e)}
    want = A.code_of(MV_OPS[opname](*[A.val_of(v) for v in vals]))
    got = [int(x) for x in out.ravel()]
    return {'reproduced': any(g != want for g in got), 'expected': want, 'observed': got}


def mv_core_targets():
    ts = []
    prims = lambda globs: np_prims(globs['np'])
    ts.append(Target('logic', '_mv_not', [mv_core_config('not', 1)], prims=prims))
    for op in ('or', 'and', 'xor'):
        ts.append(Target('logic', f'_mv_{op}', [mv_core_config(op, k) for k in (1, 2, 3, 4)], prims=prims))
    return ts


# ------------------------------------------------------------------------------------------------ mv_* wrappers
def mv_callee_model(opname):
    """modular call of _mv_<op>: check requires, havoc frame (out), assume ensures"""
    spec = MV_OPS[opname]

    def model(ex, st, args, kwargs, node):
        out, ins = args[0], args[1:]
        if not isinstance(out, ElemArr) or not all(isinstance(a, ElemArr) for a in ins):
            raise NotInSubset('callee operands are not arrays under contract')
        for a in ins:
            ex.prove(st, f'call:_mv_{opname}:requires out is not an operand', a is not out, node)
            ex.prove(st, f'call:_mv_{opname}:requires 3-bit codes', upper_zero(a.elem(st)), node)
        new = ex.fv('callret', 'bv8')
        st.assume(And(A.eqv(dec8(new), spec(*[dec8(a.elem(st)) for a in ins])), upper_zero(new)))
        out.store(ex, st, new, node)
        return None
    return model


def mv_wrapper_config(opname, k, with_out):
    spec = MV_OPS[opname]

    def setup(ex):
        st = State()
        bsize = ex.fv('bsize', 'int')
        st.assume(bsize >= 0)
        st.env['__bsize__'] = bsize
        ins = [ElemArr.new(ex, st, f'x{j+1}', size=bsize, writable=False) for j in range(k)]
        for a in ins:
            st.assume(upper_zero(a.elem(st)))
        for j, a in enumerate(ins):
            st.env[f'x{j+1}'] = a
        out = None
        if with_out:
            # requires: out is a uint8 array of the broadcast shape (any size >= 0, any contents)
            out = ElemArr.new(ex, st, 'out', size=bsize)
        st.env['out'] = out
        ex.ins, ex.out = ins, out
        return st

    def post(ex, st):
        r = st.ret
        if with_out:
            yield 'caller-supplied out receives the result (result is out)', r is ex.out
        yield 'result is an array', isinstance(r, ElemArr)
        if isinstance(r, ElemArr):
            got = r.elem(st)
            want = spec(*[dec8(a.elem(ex.st0)) for a in ex.ins])
            yield 'result = spec(%s)' % opname, And(A.eqv(dec8(got), want), upper_zero(got))
            if with_out and r is not ex.out:
                pass
        if with_out:
            got = st.heap['out']
            want = spec(*[dec8(a.elem(ex.st0)) for a in ex.ins])
            yield 'out holds spec(%s)' % opname, And(A.eqv(dec8(got), want), upper_zero(got))

    def replay(model, obl, ex):
        vals = [model.eval(ex.st0.heap[a.name].e, model_completion=True).as_long() for a in ex.ins]
        size = min(model.eval(to_int(ex.st0.env['__bsize__']), model_completion=True).as_long(), 64)
        args = {'op': opname, 'operands': vals, 'size': size, 'with_out': with_out}
        if with_out:
            args['out_fill'] = model.eval(ex.st0.heap['out'].e, model_completion=True).as_long()
        return 'contracts.logic_c:run_mv_wrapper', args
    return Config(f'{opname}/out={"array" if with_out else "None"}', {'post': post, 'expr_fork': True}, setup, replay)


def run_mv_wrapper(args):
    """replay on the real code: mv_<op>(*operands[, out=array of `size` elements filled with out_fill])"""
    import numpy as np
    from kyupy import logic
    opname, vals, size, with_out = args['op'], args['operands'], args['size'], args['with_out']
    fn = getattr(logic, f'mv_{opname}')
    ins = [np.full((size,), v, dtype=np.uint8) for v in vals]
    kw = {}
    if with_out:
        kw['out'] = np.full((size,), args.get('out_fill', 0), dtype=np.uint8)
    try:
        r = fn(*ins, **kw)
    except Exception as e:  # noqa
        return {'reproduced': True, 'observed': repr(e)}
    want = A.code_of(MV_OPS[opname](*[A.val_of(v) for v in vals]))
    bad = (with_out and r is not kw['out']) or any(int(x) != want for x in np.asarray(r).ravel()) or \
          (with_out and any(int(x) != want for x in kw['out']))
    return {'reproduced': bool(bad), 'expected': want, 'observed': np.asarray(r).tolist(),
            'out_after': kw['out'].tolist() if with_out else None, 'result_is_out': (r is kw['out']) if with_out else None}


def mv_wrapper_targets():
    ts = []

    def prims(globs):
        p = np_prims(globs['np'])
        for op in MV_OPS:
            p[globs[f'_mv_{op}']] = mv_callee_model(op)
        return p
    for op, k in (('not', 1), ('or', 2), ('and', 2), ('xor', 2)):
        ts.append(Target('logic', f'mv_{op}', [mv_wrapper_config(op, k, False), mv_wrapper_config(op, k, True)],
                         prims=prims))
    return ts


# ------------------------------------------------------------------------------------------------ bp4v_* / bp8v_*
def lane(planes, j):
    return tuple(bit(p, j) for p in planes)


def bp_config(m, opname, k, aliased=False):
    """aliased=True: no requirement on out vs operands; only the frame and 'result is out' are claimed"""
    nplanes = 3 if m == 8 else 2
    spec = A.OPS[m][opname]

    def setup(ex):
        st = State()
        clen = ex.fv('c_len', 'int')
        mem = PlaneMem.new(ex, st, 'c', nplanes, length=clen,
                           writes=lambda ex_, st_, loc: to_int(loc) == to_int(ex.o))
        o = ex.fv('o', 'int')
        locs = [ex.fv(f'i{j}', 'int') for j in range(k)]
        st.assume(And(o >= 0, o < clen))
        for l in locs:
            st.assume(And(l >= 0, l < clen))
        if opname in ('and', 'or', 'xor') and not aliased:
            for l in locs:
                st.assume(Not(l == o))          # requires: out is not one of the operands (see DESIGN C02)
        ex.o, ex.locs, ex.mem = o, locs, mem
        out = RowView(mem, o)
        ins = [RowView(mem, l) for l in locs]
        if opname in ('not', 'buf'):
            st.env.update(out=out, inp=ins[0])
        else:
            st.env.update(out=out, ins=tuple(ins))
        ex.outv = out
        return st

    def post(ex, st):
        yield 'result is out', st.ret is ex.outv
        old = [[SBV(z3.Select(ex.st0.heap[('c', p)], to_int(l))) for p in range(nplanes)] for l in ex.locs]
        new = [SBV(z3.Select(st.heap[('c', p)], to_int(ex.o))) for p in range(nplanes)]
        if not aliased:
            for j in range(8):
                yield f'lane {j} = spec', A.eqv(lane(new, j), spec(*[lane(pl, j) for pl in old]))
        x = z3.Int('x')
        for p in range(nplanes):
            yield f'frame:plane {p} other rows unchanged', SBool(z3.ForAll([x], z3.Implies(
                x != to_int(ex.o), z3.Select(st.heap[('c', p)], x) == z3.Select(ex.st0.heap[('c', p)], x))))
        ex.prove(st, 'mustfail:lane 0 final bit is 0', Not(bit(new[0], 0)), ex.fn, expect='refuted')

    def replay(model, obl, ex):
        ev = lambda e: model.eval(e, model_completion=True).as_long()
        o = ev(to_int(ex.o))
        locs = [ev(to_int(l)) for l in ex.locs]
        if max([o] + locs) > 4096:
            return None
        rows = {r: [ev(z3.Select(ex.st0.heap[('c', p)], z3.IntVal(r))) for p in range(nplanes)] for r in set([o] + locs)}
        return 'contracts.logic_c:run_bp', {'m': m, 'op': opname, 'o': o, 'locs': locs,
                                            'rows': {str(r): v for r, v in rows.items()}}
    return Config(f'{opname}/{k}' + ('/any-aliasing' if aliased else ''), {'post': post}, setup, replay)


def run_bp(args):
    """replay on the real code: bp<m>v_<op>(c[o], *[c[l] for l in locs]) on a memory holding the model's rows"""
    import numpy as np
    from kyupy import logic
    m, opname, o, locs = args['m'], args['op'], args['o'], args['locs']
    nplanes = 3 if m == 8 else 2
    spec = A.OPS[m][opname]
    n = max([o] + locs) + 1
    c = np.zeros((n, nplanes, 1), dtype=np.uint8)
    for r, v in args['rows'].items():
        c[int(r), :, 0] = v
    c0 = c.copy()
    fn = getattr(logic, f'bp{m}v_{opname}')
    try:
        fn(c[o], *[c[l] for l in locs])
    except Exception as e:  # noqa
        return {'reproduced': True, 'observed': repr(e)}
    bad = []
    for j in range(8):
        want = spec(*[tuple(bool((c0[l, p, 0] >> j) & 1) for p in range(nplanes)) for l in locs])
        got = tuple(bool((c[o, p, 0] >> j) & 1) for p in range(nplanes))
        if tuple(bool(w) for w in want) != got:
            bad.append({'lane': j, 'want': [int(bool(w)) for w in want], 'got': [int(g) for g in got]})
    other = [r for r in range(n) if r != o and not (c[r] == c0[r]).all()]
    return {'reproduced': bool(bad or other), 'c_after': c[:, :, 0].tolist(), 'lanes': bad, 'rows_clobbered': other}


def bp_targets():
    ts = []
    for m in (4, 8):
        for op in ('buf', 'not'):
            ts.append(Target('logic', f'bp{m}v_{op}', [bp_config(m, op, 1)]))
        for op in ('or', 'and', 'xor'):
            ts.append(Target('logic', f'bp{m}v_{op}', [bp_config(m, op, k) for k in (1, 2, 3, 4)] +
                             [bp_config(m, op, k, aliased=True) for k in (2, 4)]))
    return ts


def targets():
    return mv_core_targets() + mv_wrapper_targets() + bp_targets()


# ------------------------------------------------------------------------------------------------ mv_transition (C18)
def spec_transition(vi, vf):
    """value-level: from the initial value of ``init`` to the final value of ``final``; X if any side is X/-, '-' if both are '-'"""
    i, f = vi[1], vf[0]
    both_unassigned = And(Not(vi[2]), vi[1], Not(vi[0]), Not(vf[2]), vf[1], Not(vf[0]))
    any_unknown = Or(A.is_unknown8(vi), A.is_unknown8(vf))
    comp = (f, i, A.xor2(f, i))
    unassigned = (False, True, False)
    return A._sel(both_unassigned, unassigned, A._sel(any_unknown, A.X8, comp))


def transition_config(with_out):
    def setup(ex):
        st = State()
        bsize = ex.fv('bsize', 'int')
        st.assume(bsize >= 0)
        st.env['__bsize__'] = bsize
        init = ElemArr.new(ex, st, 'init', size=bsize, writable=False)
        final = ElemArr.new(ex, st, 'final', size=bsize, writable=False)
        for a in (init, final):
            st.assume(upper_zero(a.elem(st)))
        out = ElemArr.new(ex, st, 'out', size=bsize) if with_out else None
        st.env.update(init=init, final=final, out=out)
        ex.ins, ex.out = [init, final], out
        return st

    def post(ex, st):
        r = st.ret
        if with_out:
            yield 'caller-supplied out receives the result (result is out)', r is ex.out
        yield 'result is an array', isinstance(r, ElemArr)
        if isinstance(r, ElemArr):
            got = r.elem(st)
            want = spec_transition(dec8(ex.ins[0].elem(ex.st0)), dec8(ex.ins[1].elem(ex.st0)))
            yield 'result = transition(initial value of init, final value of final)', And(A.eqv(dec8(got), want), upper_zero(got))
        for a in ex.ins:
            yield f'frame:{a.name} unchanged', st.heap[a.name] == ex.st0.heap[a.name]
        ex.prove(st, 'mustfail:result is always a constant', Not(bit(st.heap[r.name] if isinstance(r, ElemArr) else 0, 2)), ex.fn, expect='refuted')

    def replay(model, obl, ex):
        vals = [model.eval(ex.st0.heap[a.name].e, model_completion=True).as_long() for a in ex.ins]
        return 'contracts.logic_c:run_transition', {'operands': vals, 'with_out': with_out}
    return Config(f'out={"array" if with_out else "None"}', {'post': post, 'expr_fork': True, 'inplace_shapes': True}, setup, replay)


def run_transition(args):
    import numpy as np
    from kyupy import logic
    vi, vf = args['operands']
    a, b_ = np.full((3,), vi, dtype=np.uint8), np.full((3,), vf, dtype=np.uint8)
    kw = {'out': np.full((3,), 7, dtype=np.uint8)} if args.get('with_out') else {}
    try:
        r = logic.mv_transition(a, b_, **kw)
    except Exception as e:  # noqa
        return {'reproduced': True, 'observed': repr(e)}
    want = A.code_of(tuple(bool(x) for x in spec_transition(A.val_of(vi), A.val_of(vf))))
    return {'reproduced': any(int(x) != want for x in r) or (bool(kw) and r is not kw['out']), 'expected': want, 'observed': [int(x) for x in r]}


def transition_targets():
    prims = lambda globs: np_prims(globs['np'])
    return [Target('logic', 'mv_transition', [transition_config(False), transition_config(True)], prims=prims)]
