"""Contract of kyupy.def_file.DefWire.wire_points (C20: "wildcards expanded"): the routing points of a wire with '*' resolved.

points[k] is either a via entry (first component a string) or a location (x | None, y | None [, ext]); points[0] is an explicit location.
Ghost: RX(k), RY(k) = the coordinates in force after points[0..k] ('*' = None keeps the previous value, vias do not move);
CNTL(k) = number of locations among points[0..k).   ensures: the result lists exactly the locations in order, entry CNTL(k) of the result is
(RX(k), RY(k) [, ext(k)]) for every location k; fewer than two locations give [].
"""
import z3

from pyvc.engine import State, Model, NotInSubset, SymIter
from pyvc.values import SInt, SBool, to_int, _conc_int
from pyvc.models_obj import SObj
from pyvc.verify import Config, Target

I = z3.IntSort()
PX, PY, PE = z3.Function('PX', I, I), z3.Function('PY', I, I), z3.Function('PEXT', I, I)
XNONE, YNONE, ISVIA = z3.Function('XNONE', I, z3.BoolSort()), z3.Function('YNONE', I, z3.BoolSort()), z3.Function('ISVIA', I, z3.BoolSort())
RX, RY, CNTL = z3.Function('RX', I, I), z3.Function('RY', I, I), z3.Function('CNTL', I, I)


class Coord(SInt):
    """first / second component of a point: an integer, None ('*') or -- first component only -- a string (via entry)"""
    __slots__ = ('is_none', 'is_str')

    def __init__(self, e, none, isstr):
        super().__init__(e)
        self.is_none, self.is_str = SBool(none), SBool(isstr)


class Method(Model):
    def __init__(self, fn):
        self.fn = fn

    def m_call(self, ex, st, args, kwargs, node):
        return self.fn(ex, st, args, kwargs, node)


class Point(Model):
    def __init__(self, k, ext):
        self.k, self.ext = k, ext

    def m_getitem(self, ex, st, idx, node):
        k = self.k
        if isinstance(idx, slice):
            if _conc_int(idx.start) == 2 and idx.stop is None and idx.step is None:
                return (SInt(PE(k)),) if self.ext else ()
            raise NotInSubset('point slice')
        c = _conc_int(idx)
        if c == 0:
            return Coord(PX(k), XNONE(k), ISVIA(k))
        if c == 1:
            return Coord(PY(k), YNONE(k), z3.BoolVal(False))
        raise NotInSubset('point component')


class Points(Model):
    def __init__(self, n, ext, start=0):
        self.n, self.ext, self.start = n, ext, start

    def m_getitem(self, ex, st, idx, node):
        if isinstance(idx, slice):
            a = _conc_int(idx.start) if idx.start is not None else 0
            if idx.stop is not None or idx.step is not None or a is None or a < 0:
                raise NotInSubset('points slice')
            return Points(self.n, self.ext, self.start + a)
        k = to_int(idx) + self.start
        ex.prove(st, 'no-exception:IndexError points[k]', z3.And(k >= self.start, k < self.n), node)
        return Point(k, self.ext)

    def m_len(self, ex, st, node):
        return SInt(z3.If(self.n - self.start > 0, self.n - self.start, 0))

    def m_iter(self, ex, st, node):
        n = z3.If(self.n - self.start > 0, self.n - self.start, 0)
        return SymIter(SInt(n), lambda ex_, st_, k: Point(to_int(k) + self.start, self.ext))


class Pts(Model):
    """the result list: heap['pts_len'], heap['pts_x'], heap['pts_y'], heap['pts_e']"""

    def m_len(self, ex, st, node):
        return st.heap['pts_len']

    def m_getitem(self, ex, st, idx, node):
        n = to_int(st.heap['pts_len'])
        c = _conc_int(idx)
        i = n + c if c is not None and c < 0 else to_int(idx)
        ex.prove(st, 'no-exception:IndexError pts[i]', z3.And(i >= 0, i < n), node)
        t = (SInt(st.heap['pts_x'][i]), SInt(st.heap['pts_y'][i]))
        return t + ((SInt(st.heap['pts_e'][i]),) if ex.g['ext'] else ())

    def m_getattr(self, ex, st, name, node):
        if name == 'append':
            def append(ex_, st_, args, kwargs, node_):
                t = args[0]
                want = 3 if ex_.g['ext'] else 2
                if not isinstance(t, tuple) or len(t) != want:
                    ex_.prove(st_, 'appended point has the shape of the input points', False, node_)
                    return
                n = to_int(st_.heap['pts_len'])
                st_.heap['pts_x'] = z3.Store(st_.heap['pts_x'], n, to_int(t[0]))
                st_.heap['pts_y'] = z3.Store(st_.heap['pts_y'], n, to_int(t[1]))
                if want == 3:
                    st_.heap['pts_e'] = z3.Store(st_.heap['pts_e'], n, to_int(t[2]))
                st_.heap['pts_len'] = SInt(n + 1)
            return Method(append)
        raise NotInSubset(f'list.{name}')


def assign_hook(ex, st, name, v, node):
    if name == 'pts' and isinstance(v, list) and len(v) == 1 and isinstance(v[0], Point):
        # pts = [self.points[0]]: the first point as it is (an explicit location by the grammar)
        k = v[0].k
        st.heap['pts_len'] = SInt(z3.IntVal(1))
        st.heap['pts_x'] = z3.Store(z3.K(I, z3.IntVal(0)), 0, PX(k))
        st.heap['pts_y'] = z3.Store(z3.K(I, z3.IntVal(0)), 0, PY(k))
        st.heap['pts_e'] = z3.Store(z3.K(I, z3.IntVal(0)), 0, PE(k))
        return Pts()
    return v


def wire_points_config(ext):
    def setup(ex):
        st = State()
        n = ex.fv('n_points', 'int').e
        k = z3.Int('k')
        st.assume(SBool(z3.And(n >= 1, z3.Not(ISVIA(0)), z3.Not(XNONE(0)), z3.Not(YNONE(0)), RX(0) == PX(0), RY(0) == PY(0), CNTL(0) == 0, CNTL(1) == 1)))
        st.assume(SBool(z3.ForAll([k], z3.Implies(k >= 1, z3.And(
            RX(k) == z3.If(z3.Or(ISVIA(k), XNONE(k)), RX(k - 1), PX(k)), RY(k) == z3.If(z3.Or(ISVIA(k), YNONE(k)), RY(k - 1), PY(k)),
            CNTL(k + 1) == CNTL(k) + z3.If(ISVIA(k), 0, 1))))))
        k2 = z3.Int('k2')
        st.assume(SBool(z3.ForAll([k, k2], z3.Implies(z3.And(0 <= k, k <= k2), CNTL(k) <= CNTL(k2)))))          # monotone (induction over the recurrence)
        st.env['self'] = SObj.new(st, 'self', points=Points(n, ext))
        ex.readonly.add(('self', 'points'))
        ex.g = dict(n=n, ext=ext)
        return st

    def inv(ex, st):
        g = ex.g
        kk = to_int(st.env['__k0']) + 1            # points[0 .. kk) have been passed
        if not isinstance(st.env.get('pts'), Pts):
            yield 'pts is the result list', False
            return
        ln, X, Y, E = to_int(st.heap['pts_len']), st.heap['pts_x'], st.heap['pts_y'], st.heap['pts_e']
        j = z3.Int('j')
        yield 'length = number of locations passed so far', SBool(ln == CNTL(kk))
        yield 'the last entry carries the coordinates in force', SBool(z3.And(ln >= 1, X[ln - 1] == RX(kk - 1), Y[ln - 1] == RY(kk - 1)))
        yield 'every location passed so far sits at its position with resolved coordinates', \
            SBool(z3.ForAll([j], z3.Implies(z3.And(0 <= j, j < kk, z3.Not(ISVIA(j))), z3.And(X[CNTL(j)] == RX(j), Y[CNTL(j)] == RY(j), *([E[CNTL(j)] == PE(j)] if ext else [])))))

    def post(ex, st):
        g = ex.g
        r = st.ret
        n = g['n']
        if isinstance(r, list):
            yield 'an empty result only for a wire with fewer than two locations', SBool(z3.And(len(r) == 0, CNTL(n) <= 1))
            return
        if not isinstance(r, Pts):
            yield 'the result is the list of points', False
            return
        ln, X, Y, E = to_int(st.heap['pts_len']), st.heap['pts_x'], st.heap['pts_y'], st.heap['pts_e']
        j = z3.Int('j')
        yield 'the result has one entry per location (at least two)', SBool(z3.And(ln == CNTL(n), ln > 1))
        yield "entry CNTL(k) is location k with '*' replaced by the coordinate in force (vias skipped, order kept)", \
            SBool(z3.ForAll([j], z3.Implies(z3.And(0 <= j, j < n, z3.Not(ISVIA(j))), z3.And(X[CNTL(j)] == RX(j), Y[CNTL(j)] == RY(j), *([E[CNTL(j)] == PE(j)] if ext else [])))))
        ex.prove(st, 'mustfail:the result is always empty', SBool(ln == 0), ex.fn, expect='refuted')
    def replay(model, obl, ex):
        ev = lambda e: model.eval(e, model_completion=True)
        n = ev(ex.g['n']).as_long()
        if not 1 <= n <= 40:
            return None
        pts = []
        for k in range(n):
            kk = z3.IntVal(k)
            if z3.is_true(ev(ISVIA(kk))):
                pts.append(['via', None])
                continue
            x = None if z3.is_true(ev(XNONE(kk))) else ev(PX(kk)).as_long()
            y = None if z3.is_true(ev(YNONE(kk))) else ev(PY(kk)).as_long()
            pts.append([x, y] + ([ev(PE(kk)).as_long()] if ext else []))
        return 'contracts.def_c:run_wire_points', {'points': pts}

    def small(ex):
        return [ex.g['n'] <= 6]
    contract = {'post': post, 'assign_hook': assign_hook, 'expr_fork': True, 'loops': {0: {'inv': inv, 'modifies': ['pts_len', 'pts_x', 'pts_y', 'pts_e'], 'kinds': {'p': 'keep', 'prev': 'keep'}}}}
    def finite(ex):
        # finite expansion of the quantifiers for undecided obligations: indices / coordinates in [-1, 5], at most 4 points
        return -1, 5, [ex.g['n'] <= 4]
    cfg = Config('any point list' + (' with extension values' if ext else ''), contract, setup, replay, finite=finite)
    cfg.small = small
    return cfg


def run_wire_points(args):
    """the real DefWire.wire_points on a concrete point list against the statement of the contract (independent straight-line oracle)"""
    from kyupy.def_file import DefWire
    w = DefWire()
    w.points = [tuple(('VIA12', None) if p[0] == 'via' else p) for p in args['points']]
    try:
        got = list(w.wire_points)
    except Exception as e:  # noqa
        return {'reproduced': True, 'observed': repr(e)}
    want, cur = [], None
    for p in w.points:
        if isinstance(p[0], str):
            continue
        cur = (p[0] if p[0] is not None else cur[0], p[1] if p[1] is not None else cur[1]) + tuple(p[2:])
        want.append(cur)
    if len(want) < 2:
        want = []
    return {'reproduced': [tuple(x) for x in got] != want, 'observed': [list(x) for x in got], 'expected': [list(x) for x in want]}


def targets():
    return [Target('def_file', 'DefWire.wire_points', [wire_points_config(False), wire_points_config(True)], instantiate='fallback')]
