"""Contract of kyupy.def_file.DefWire.wire_points (C20: "wildcards expanded"): the routing points of a wire with '*' resolved.

points[k] is either a via entry (first component a string) or a location (x | None, y | None [, ext]); points[0] is an explicit location.
Ghost: RX(k), RY(k) = the coordinates in force after points[0..k] ('*' = None keeps the previous value, vias do not move);
CNTL(k) = number of locations among points[0..k).   ensures: the result lists exactly the locations in order, entry CNTL(k) of the result is
(RX(k), RY(k) [, ext(k)]) for every location k; fewer than two locations give [].
"""
import z3

from pyvc.engine import State, Model, NotInSubset, SymIter
from pyvc.values import SInt, SBool, to_int, _conc_int
from pyvc.models_obj import SObj
from pyvc.verify import Config, Target

I = z3.IntSort()
PX, PY, PE = z3.Function('PX', I, I), z3.Function('PY', I, I), z3.Function('PEXT', I, I)
XNONE, YNONE, ISVIA = z3.Function('XNONE', I, z3.BoolSort()), z3.Function('YNONE', I, z3.BoolSort()), z3.Function('ISVIA', I, z3.BoolSort())
RX, RY, CNTL = z3.Function('RX', I, I), z3.Function('RY', I, I), z3.Function('CNTL', I, I)


class Coord(SInt):
    """first / second component of a point: an integer, None ('*') or -- first component only -- a string (via entry)"""
    __slots__ = ('is_none', 'is_str')

    def __init__(self, e, none, isstr):
        super().__init__(e)
        self.is_none, self.is_str = SBool(none), SBool(isstr)


class Method(Model):
    def __init__(self, fn):
        self.fn = fn

    def m_call(self, ex, st, args, kwargs, node):
        return self.fn(ex, st, args, kwargs, node)


class Point(Model):
    def __init__(self, k, ext):
        self.k, self.ext = k, ext

    def m_getitem(self, ex, st, idx, node):
        k = self.k
        if isinstance(idx, slice):
            if _conc_int(idx.start) == 2 and idx.stop is None and idx.step is None:
                return (SInt(PE(k)),) if self.ext else ()
            raise NotInSubset('point slice')
        c = _conc_int(idx)
        if c == 0:
            return Coord(PX(k), XNONE(k), ISVIA(k))
        if c == 1:
            return Coord(PY(k), YNONE(k), z3.BoolVal(False))
        raise NotInSubset('point component')


class Points(Model):
    def __init__(self, n, ext, start=0):
        self.n, self.ext, self.start = n, ext, start

    def m_getitem(self, ex, st, idx, node):
        if isinstance(idx, slice):
            a = _conc_int(idx.start) if idx.start is not None else 0
            if idx.stop is not None or idx.step is not None or a is None or a < 0:
                raise NotInSubset('points slice')
            return Points(self.n, self.ext, self.start + a)
        k = to_int(idx) + self.start
        ex.prove(st, 'no-exception:IndexError points[k]', z3.And(k >= self.start, k < self.n), node)
        return Point(k, self.ext)

    def m_len(self, ex, st, node):
        return SInt(z3.If(self.n - self.start > 0, self.n - self.start, 0))

    def m_iter(self, ex, st, node):
        n = z3.If(self.n - self.start > 0, self.n - self.start, 0)
        return SymIter(SInt(n), lambda ex_, st_, k: Point(to_int(k) + self.start, self.ext))


class Pts(Model):
    """the result list: heap['pts_len'], heap['pts_x'], heap['pts_y'], heap['pts_e']"""

    def m_len(self, ex, st, node):
        return st.heap['pts_len']

    def m_getitem(self, ex, st, idx, node):
        n = to_int(st.heap['pts_len'])
        c = _conc_int(idx)
        i = n + c if c is not None and c < 0 else to_int(idx)
        ex.prove(st, 'no-exception:IndexError pts[i]', z3.And(i >= 0, i < n), node)
        t = (SInt(st.heap['pts_x'][i]), SInt(st.heap['pts_y'][i]))
        return t + ((SInt(st.heap['pts_e'][i]),) if ex.g['ext'] else ())

    def m_getattr(self, ex, st, name, node):
        if name == 'append':
            def append(ex_, st_, args, kwargs, node_):
                t = args[0]
                want = 3 if ex_.g['ext'] else 2
                if not isinstance(t, tuple) or len(t) != want:
                    ex_.prove(st_, 'appended point has the shape of the input points', False, node_)
                    return
                n = to_int(st_.heap['pts_len'])
                st_.heap['pts_x'] = z3.Store(st_.heap['pts_x'], n, to_int(t[0]))
                st_.heap['pts_y'] = z3.Store(st_.heap['pts_y'], n, to_int(t[1]))
                if want == 3:
                    st_.heap['pts_e'] = z3.Store(st_.heap['pts_e'], n, to_int(t[2]))
                st_.heap['pts_len'] = SInt(n + 1)
            return Method(append)
        raise NotInSubset(f'list.{name}')


def assign_hook(ex, st, name, v, node):
    if name == 'pts' and isinstance(v, list) and len(v) == 1 and isinstance(v[0], Point):
        # pts = [self.points[0]]: the first point as it is (an explicit location by the grammar)
        k = v[0].k
        st.heap['pts_len'] = SInt(z3.IntVal(1))
        st.heap['pts_x'] = z3.Store(z3.K(I, z3.IntVal(0)), 0, PX(k))
        st.heap['pts_y'] = z3.Store(z3.K(I, z3.IntVal(0)), 0, PY(k))
        st.heap['pts_e'] = z3.Store(z3.K(I, z3.IntVal(0)), 0, PE(k))
        return Pts()
    return v


def wire_points_config(ext):
    def setup(ex):
        st = State()
        n = ex.fv('n_points', 'int').e
        k = z3.Int('k')
        st.assume(SBool(z3.And(n >= 1, z3.Not(ISVIA(0)), z3.Not(XNONE(0)), z3.Not(YNONE(0)), RX(0) == PX(0), RY(0) == PY(0), CNTL(0) == 0, CNTL(1) == 1)))
        st.assume(SBool(z3.ForAll([k], z3.Implies(k >= 1, z3.And(
            RX(k) == z3.If(z3.Or(ISVIA(k), XNONE(k)), RX(k - 1), PX(k)), RY(k) == z3.If(z3.Or(ISVIA(k), YNONE(k)), RY(k - 1), PY(k)),
            CNTL(k + 1) == CNTL(k) + z3.If(ISVIA(k), 0, 1))))))
        k2 = z3.Int('k2')
        st.assume(SBool(z3.ForAll([k, k2], z3.Implies(z3.And(0 <= k, k <= k2), CNTL(k) <= CNTL(k2)))))          # monotone (induction over the recurrence)
        st.env['self'] = SObj.new(st, 'self', points=Points(n, ext))
        ex.readonly.add(('self', 'points'))
        ex.g = dict(n=n, ext=ext)
        return st

    def inv(ex, st):
        g = ex.g
        kk = to_int(st.env['__k0']) + 1            # points[0 .. kk) have been passed
        if not isinstance(st.env.get('pts'), Pts):
            yield 'pts is the result list', False
            return
        ln, X, Y, E = to_int(st.heap['pts_len']), st.heap['pts_x'], st.heap['pts_y'], st.heap['pts_e']
        j = z3.Int('j')
        yield 'length = number of locations passed so far', SBool(ln == CNTL(kk))
        yield 'the last entry carries the coordinates in force', SBool(z3.And(ln >= 1, X[ln - 1] == RX(kk - 1), Y[ln - 1] == RY(kk - 1)))
        yield 'every location passed so far sits at its position with resolved coordinates', \
            SBool(z3.ForAll([j], z3.Implies(z3.And(0 <= j, j < kk, z3.Not(ISVIA(j))), z3.And(X[CNTL(j)] == RX(j), Y[CNTL(j)] == RY(j), *([E[CNTL(j)] == PE(j)] if ext else [])))))

    def post(ex, st):
        g = ex.g
        r = st.ret
        n = g['n']
        if isinstance(r, list):
            yield 'an empty result only for a wire with fewer than two locations', SBool(z3.And(len(r) == 0, CNTL(n) <= 1))
            return
        if not isinstance(r, Pts):
            yield 'the result is the list of points', False
            return
        ln, X, Y, E = to_int(st.heap['pts_len']), st.heap['pts_x'], st.heap['pts_y'], st.heap['pts_e']
        j = z3.Int('j')
        yield 'the result has one entry per location (at least two)', SBool(z3.And(ln == CNTL(n), ln > 1))
        yield "entry CNTL(k) is location k with '*' replaced by the coordinate in force (vias skipped, order kept)", \
            SBool(z3.ForAll([j], z3.Implies(z3.And(0 <= j, j < n, z3.Not(ISVIA(j))), z3.And(X[CNTL(j)] == RX(j), Y[CNTL(j)] == RY(j), *([E[CNTL(j)] == PE(j)] if ext else [])))))
        ex.prove(st, 'mustfail:the result is always empty', SBool(ln == 0), ex.fn, expect='refuted')
    def replay(model, obl, ex):
        ev = lambda e: model.eval(e, model_completion=True)
        n = ev(ex.g['n']).as_long()
        if not 1 <= n <= 40:
            return None
        pts = []
        for k in range(n):
            kk = z3.IntVal(k)
            if z3.is_true(ev(ISVIA(kk))):
                pts.append(['via', None])
                continue
            x = None if z3.is_true(ev(XNONE(kk))) else ev(PX(kk)).as_long()
            y = None if z3.is_true(ev(YNONE(kk))) else ev(PY(kk)).as_long()
            pts.append([x, y] + ([ev(PE(kk)).as_long()] if ext else []))
        return 'contracts.def_c:run_wire_points', {'points': pts}

    def small(ex):
        return [ex.g['n'] <= 6]
    contract = {'post': post, 'assign_hook': assign_hook, 'expr_fork': True, 'loops': {0: {'inv': inv, 'modifies': ['pts_len', 'pts_x', 'pts_y', 'pts_e'], 'kinds': {'p': 'keep', 'prev': 'keep'}}}}
    def finite(ex):
        # finite expansion of the quantifiers for undecided obligations: indices / coordinates in [-1, 5], at most 4 points
        return -1, 5, [ex.g['n'] <= 4]
    cfg = Config('any point list' + (' with extension values' if ext else ''), contract, setup, replay, finite=finite)
    cfg.small = small
    return cfg


def run_wire_points(args):
    """the real DefWire.wire_points on a concrete point list against the statement of the contract (independent straight-line oracle)"""
    from kyupy.def_file import DefWire
    w = DefWire()
    w.points = [tuple(('VIA12', None) if p[0] == 'via' else p) for p in args['points']]
    try:
        got = list(w.wire_points)
    except Exception as e:  # noqa
        return {'reproduced': True, 'observed': repr(e)}
    want, cur = [], None
    for p in w.points:
        if isinstance(p[0], str):
            continue
        cur = (p[0] if p[0] is not None else cur[0], p[1] if p[1] is not None else cur[1]) + tuple(p[2:])
        want.append(cur)
    if len(want) < 2:
        want = []
    return {'reproduced': [tuple(x) for x in got] != want, 'observed': [list(x) for x in got], 'expected': [list(x) for x in want]}


# --------------------------------------------------------------------------------------------- DefWire.vias (location tracking, plain vias)
# A via entry (type, orientation | None) sits at the location in force.  Ghost: VT(k) its type, PTRUE(k)/PAR(k) truthiness / value of its
# orientation, CNTV(t, k) = number of via entries of type t among points[0..k).   ensures: vias[t] has CNTV(t, n) entries and the entry of
# via k is (RX(k), RY(k), orientation or 'N') at position CNTV(VT(k), k) of vias[VT(k)] -- every via once, per type in file order, with '*'
# resolved exactly as for the wire itself.  Via *arrays* (DO x BY y STEP ..: a list comprehension over two symbolic ranges) are outside the
# subset: this configuration has none (isinstance(param, tuple) is False), their expansion is bounded evidence only.
VT, PAR, PTRUE = z3.Function('VT', I, I), z3.Function('VPAR', I, I), z3.Function('VPTRUE', I, z3.BoolSort())
CNTV = z3.Function('CNTV', I, I, I)
NCONST = z3.Int('orient_N')
AA = z3.ArraySort(I, I)


class Param(Model):
    def __init__(self, k):
        self.k = k

    def m_truth(self, ex, st, node):
        return SBool(PTRUE(self.k))

    def m_isinstance(self, ex, st, cls, node):
        if cls is tuple:
            ex.assumed.add('DefWire.vias: point lists without via arrays (DO .. BY .. STEP): the 2-D expansion is outside the subset (bounded part)')
            return False
        raise NotInSubset('isinstance of a via parameter against another class')


class ViaPoint(Point):
    def m_iter(self, ex, st, node):
        ex.prove(st, 'requires:an entry is unpacked as (type, parameter) only after it was found to be a via entry', SBool(ISVIA(self.k)), node)
        return [SInt(VT(self.k)), Param(self.k)]


class ViaPoints(Points):
    def m_getitem(self, ex, st, idx, node):
        r = super().m_getitem(ex, st, idx, node)
        if isinstance(r, Points):
            return ViaPoints(r.n, r.ext, r.start)
        return ViaPoint(r.k, r.ext)

    def m_iter(self, ex, st, node):
        n = z3.If(self.n - self.start > 0, self.n - self.start, 0)
        return SymIter(SInt(n), lambda ex_, st_, k: ViaPoint(to_int(k) + self.start, self.ext))


class ViaList(Model):
    def __init__(self, t):
        self.t = t

    def m_getattr(self, ex, st, name, node):
        if name != 'append':
            raise NotInSubset(f'list.{name}')

        def append(ex_, st_, args, kwargs, node_):
            v = args[0]
            if not isinstance(v, tuple) or len(v) != 3:
                ex_.prove(st_, 'a listed via is (x, y, orientation)', False, node_)
                return
            o = v[2]
            if isinstance(o, Param):
                oe = PAR(o.k)
            elif o == 'N':
                oe = NCONST
            else:
                raise NotInSubset('orientation value')
            t = self.t
            n = st_.heap['VL'][t]
            for key, e in (('VX', to_int(v[0])), ('VY', to_int(v[1])), ('VO', oe)):
                st_.heap[key] = z3.Store(st_.heap[key], t, z3.Store(st_.heap[key][t], n, e))
            st_.heap['VL'] = z3.Store(st_.heap['VL'], t, n + 1)
        return Method(append)


class VV(Model):
    def m_getitem(self, ex, st, idx, node):
        if not isinstance(idx, SInt):
            raise NotInSubset('via table key')
        return ViaList(to_int(idx))


def via_prims(globs):
    def mk(ex, st, args, kwargs, node):
        if len(args) != 1 or args[0] is not list:
            raise NotInSubset('defaultdict with a factory other than list')
        st.heap['VL'] = z3.K(I, z3.IntVal(0))
        for key in ('VX', 'VY', 'VO'):
            st.heap[key] = z3.K(I, z3.K(I, z3.IntVal(0)))
        return VV()
    return {globs['defaultdict']: mk}


def vias_config():
    def setup(ex):
        st = State()
        n = ex.fv('n_points', 'int').e
        k, k2, t = z3.Ints('k k2 t')
        st.assume(SBool(z3.And(n >= 1, z3.Not(ISVIA(0)), z3.Not(XNONE(0)), z3.Not(YNONE(0)), RX(0) == PX(0), RY(0) == PY(0))))
        st.assume(SBool(z3.ForAll([k], z3.Implies(k >= 1, z3.And(
            RX(k) == z3.If(z3.Or(ISVIA(k), XNONE(k)), RX(k - 1), PX(k)), RY(k) == z3.If(z3.Or(ISVIA(k), YNONE(k)), RY(k - 1), PY(k)))))))
        st.assume(SBool(z3.ForAll([t], CNTV(t, 0) == 0)))
        st.assume(SBool(z3.ForAll([t, k], z3.Implies(k >= 0, CNTV(t, k + 1) == CNTV(t, k) + z3.If(z3.And(ISVIA(k), VT(k) == t), 1, 0)))))
        st.assume(SBool(z3.ForAll([t, k, k2], z3.Implies(z3.And(0 <= k, k <= k2), CNTV(t, k) <= CNTV(t, k2)))))          # monotone (induction over the recurrence)
        for key, srt in (('VL', AA), ('VX', z3.ArraySort(I, AA)), ('VY', z3.ArraySort(I, AA)), ('VO', z3.ArraySort(I, AA))):
            st.heap[key] = z3.Const(f'{key}_garbage', srt)
        st.env['self'] = SObj.new(st, 'self', points=ViaPoints(n, False))
        ex.readonly.add(('self', 'points'))
        ex.g = dict(n=n, ext=False)
        return st

    def locxy(ex, st):
        loc = st.env.get('loc')
        if isinstance(loc, Point):
            return PX(loc.k), PY(loc.k)
        if isinstance(loc, tuple) and len(loc) == 2:
            return to_int(loc[0]), to_int(loc[1])
        return None

    def clauses(st, kk):
        VL, VX, VY, VO = (st.heap[x] for x in ('VL', 'VX', 'VY', 'VO'))
        j, t = z3.Ints('j t')
        pos = CNTV(VT(j), j)
        return [('V1:vias[t] has one entry per via of type t passed so far', z3.ForAll([t], VL[t] == CNTV(t, kk))),
                ("V2:every via passed so far sits, in file order within its type, at the location in force with '*' resolved, with its orientation or 'N'",
                 z3.ForAll([j], z3.Implies(z3.And(1 <= j, j < kk, ISVIA(j)), z3.And(VX[VT(j)][pos] == RX(j), VY[VT(j)][pos] == RY(j), VO[VT(j)][pos] == z3.If(PTRUE(j), PAR(j), NCONST)))))]

    def havoc(ex, h):
        h.env['loc'] = (ex.fv('loc_x', 'int'), ex.fv('loc_y', 'int'))

    def inv(ex, st):
        kk = to_int(st.env['__k0']) + 1
        if not isinstance(st.env.get('vv'), VV):
            yield 'vv is the result table', False
            return
        xy = locxy(ex, st)
        if xy is None:
            yield 'loc is a location (x, y)', False
            return
        yield 'L:loc is the location in force after the points passed so far', SBool(z3.And(xy[0] == RX(kk - 1), xy[1] == RY(kk - 1)))
        for name, c in clauses(st, kk):
            yield name, SBool(c)

    def post(ex, st):
        if not isinstance(st.ret, VV):
            yield 'the result is the table built by the loop', False
            return
        n = ex.g['n']
        for name, c in clauses(st, n):
            yield name.split(':', 1)[1].replace('passed so far', 'of the wire'), SBool(c)
        t = z3.Int('t')
        ex.prove(st, 'mustfail:no via is ever listed', SBool(z3.ForAll([t], st.heap['VL'][t] == 0)), ex.fn, expect='refuted')

    def replay(model, obl, ex):
        ev = lambda e: model.eval(e, model_completion=True)
        n = ev(ex.g['n']).as_long()
        if not 1 <= n <= 40:
            return None
        pts = []
        for k in range(n):
            kk = z3.IntVal(k)
            if z3.is_true(ev(ISVIA(kk))):
                pts.append(['via', ev(VT(kk)).as_long(), bool(z3.is_true(ev(PTRUE(kk))))])
                continue
            pts.append([None if z3.is_true(ev(XNONE(kk))) else ev(PX(kk)).as_long(), None if z3.is_true(ev(YNONE(kk))) else ev(PY(kk)).as_long()])
        return 'contracts.def_c:run_vias', {'points': pts}

    def finite(ex):
        return -1, 5, [ex.g['n'] <= 4]
    contract = {'post': post, 'expr_fork': True, 'merge_ifs': True,
                'loops': {0: {'inv': inv, 'havoc': havoc, 'modifies': ['VL', 'VX', 'VY', 'VO'], 'kinds': {'p': 'keep', 'vtype': 'keep', 'param': 'keep'}}}}
    cfg = Config('any point list without via arrays', contract, setup, replay, finite=finite)
    cfg.small = lambda ex: [ex.g['n'] <= 6]
    return cfg


def run_vias(args):
    """the real DefWire.vias on a concrete point list against the statement of the contract (independent straight-line oracle)"""
    from kyupy.def_file import DefWire
    w = DefWire()
    w.points = [((f'VIA{p[1]}', 'FS' if p[2] else None) if p[0] == 'via' else tuple(p)) for p in args['points']]
    try:
        got = {k: [tuple(x) for x in v] for k, v in w.vias.items() if v}
    except Exception as e:  # noqa
        return {'reproduced': True, 'observed': repr(e)}
    want, cur = {}, None
    for p in w.points:
        if isinstance(p[0], str):
            want.setdefault(p[0], []).append((cur[0], cur[1], p[1] or 'N'))
        else:
            cur = (p[0] if p[0] is not None else cur[0], p[1] if p[1] is not None else cur[1])
    return {'reproduced': got != want, 'observed': {k: [list(x) for x in v] for k, v in got.items()}, 'expected': {k: [list(x) for x in v] for k, v in want.items()}}


def targets_vias():
    return [Target('def_file', 'DefWire.vias', [vias_config()], prims=via_prims, instantiate='fallback',
                   note='point lists without via arrays; the DO .. BY .. STEP expansion (list comprehension over two ranges) is bounded only')]


def targets():
    return [Target('def_file', 'DefWire.wire_points', [wire_points_config(False), wire_points_config(True)], instantiate='fallback')]
