"""Contracts of the storage-format conversions of kyupy.logic (C15): unpackbits, packbits, mv_to_bp, bp_to_mv and the round trip,
for arrays of *any* extent (functional array model pyvc.models_farr; numpy's bit packing primitives by assumed contracts).

Index variables i, t, p, j, b are fresh constants constrained to the result's index range, so each quantifier-free obligation holds
for every element.
  unpackbits(a)[i,t,b]          = bit b of a[i,t]                                                      shape (n, s, 8)
  packbits(a)[i,t]   bit p      = (p < min(m,8) and a[i,t,p] != 0)                                     shape (n, t)
  mv_to_bp(x)[i,p,j] bit b      = (8j+b < s and bit p of x[i,8j+b])     p < 3                          shape (n, 3, ceil(s/8))
  bp_to_mv(y)[i,t]   bit p      = (p < m and bit t%8 of y[i,p,t//8])                                   shape (n, 8b)
  bp_to_mv(mv_to_bp(x))[i,t]    = x[i,t] & 7   for t < s, 0 for the padding lanes                      shape (n, 8*ceil(s/8))
"""
import z3

from pyvc.engine import State
from pyvc.values import SInt, SBool, to_int
from pyvc.models_farr import FArr, FlatArr, bit, zi, np_prims
from pyvc.verify import Config, Target

I = z3.IntSort()
BV8 = z3.BitVecSort(8)


def prims(globs):
    return np_prims(globs['np'])


def shape_is(res, dims):
    if not isinstance(res, FArr):
        return [('result is an array', False)]
    if res.nd != len(dims):
        return [(f'result has {len(dims)} axes', False)]
    return [(f'extent of axis {k}', SBool(zi(a) == zi(b))) for k, (a, b) in enumerate(zip(res.shape_, dims))]


def idx_vars(ex, st, names, dims):
    out = []
    for nm, d in zip(names, dims):
        v = ex.fv(nm, 'int').e
        st.assume(SBool(z3.And(v >= 0, v < zi(d))))
        out.append(v)
    return out


def unpackbits_config():
    A = z3.Function('A_in', I, I, BV8)

    def setup(ex):
        st = State()
        n, s = ex.fv('n', 'int'), ex.fv('s', 'int')
        st.assume(SBool(z3.And(n.e >= 0, s.e >= 0)))
        st.env['a'] = FArr([n, s], lambda ix: A(ix[0], ix[1]))
        ex.g = dict(n=n, s=s)
        return st

    def post(ex, st):
        g = ex.g
        r = st.ret
        dims = [g['n'], g['s'], 8]
        yield from shape_is(r, dims)
        if isinstance(r, FArr) and r.nd == 3:
            i, t, b = idx_vars(ex, st, 'itb', dims)
            yield 'element [i,t,b] is bit b of a[i,t]', SBool(r.elem([i, t, b]) == bit(A(i, t), b))
            ex.prove(st, 'mustfail:every unpacked bit is 0', SBool(r.elem([i, t, b]) == 0), ex.fn, expect='refuted')
    return with_small(Config('uint8 array (n, s)', {'post': post}, setup, make_replay('unpackbits', A, 2)))


def packbits_config(m):
    A = z3.Function('A_in3', I, I, I, BV8)

    def setup(ex):
        import numpy as np
        st = State()
        n, s = ex.fv('n', 'int'), ex.fv('s', 'int')
        st.assume(SBool(z3.And(n.e >= 0, s.e >= 0)))
        st.env['a'] = FArr([n, s, m], lambda ix: A(ix[0], ix[1], ix[2]))
        st.env['dtype'] = np.uint8
        ex.g = dict(n=n, s=s)
        return st

    def post(ex, st):
        g = ex.g
        r = st.ret
        dims = [g['n'], g['s']]
        yield from shape_is(r, dims)
        if isinstance(r, FArr) and r.nd == 2:
            i, t = idx_vars(ex, st, 'it', dims)
            for p in range(8):
                want = (A(i, t, z3.IntVal(p)) != 0) if p < m else z3.BoolVal(False)
                yield f'bit {p} of element [i,t] is (a[i,t,{p}] != 0)' if p < m else f'bit {p} of element [i,t] is 0 (padding)', \
                    SBool((z3.Extract(p, p, r.elem([i, t])) == 1) == want)
            ex.prove(st, 'mustfail:every packed value is 0', SBool(r.elem([i, t]) == 0), ex.fn, expect='refuted')
    return with_small(Config(f'array (n, s, {m}), dtype uint8', {'post': post}, setup, make_replay('packbits', A, 3, m)))


def spec_mv_to_bp(X, s):
    """element function of the specified result of mv_to_bp for the input element function X(i,t) with s lanes"""
    from pyvc.models_farr import pack8
    return lambda ix: pack8([z3.And(8 * ix[2] + b < zi(s), z3.Extract(0, 0, bit(X(ix[0], 8 * ix[2] + b), ix[1])) == 1) for b in range(8)])


def mv_to_bp_config(ndim):
    X2 = z3.Function('X_in', I, I, BV8)

    def setup(ex):
        st = State()
        n, s = ex.fv('n', 'int'), ex.fv('s', 'int')
        st.assume(SBool(z3.And(n.e >= 0, s.e >= 0)))
        if ndim == 1:
            st.env['mva'] = FArr([n], lambda ix: X2(ix[0], z3.IntVal(0)))
            st.assume(SBool(s.e == 1))
        else:
            st.env['mva'] = FArr([n, s], lambda ix: X2(ix[0], ix[1]))
        ex.g = dict(n=n, s=s)
        return st

    def post(ex, st):
        g = ex.g
        r = st.ret
        nb = SInt((g['s'].e + 7) / 8)
        dims = [g['n'], 3, nb]
        yield from shape_is(r, dims)
        if isinstance(r, FArr) and r.nd == 3:
            i, p, j = idx_vars(ex, st, 'ipj', dims)
            want = spec_mv_to_bp(X2, g['s'])([i, p, j])
            yield 'bit b of element [i,p,j] is bit p of mva[i, 8j+b]; lanes beyond the last are 0', SBool(r.elem([i, p, j]) == want)
            ex.prove(st, 'mustfail:every bit-parallel byte is 0', SBool(r.elem([i, p, j]) == 0), ex.fn, expect='refuted')
    return with_small(Config(f'multi-valued array with {ndim} axes, any extents', {'post': post}, setup, make_replay('mv_to_bp', X2, ndim)))


def bp_to_mv_config(m, compose=False):
    Y = z3.Function('Y_in', I, I, I, BV8)
    X2 = z3.Function('X_in', I, I, BV8)

    def setup(ex):
        st = State()
        n, nb, s = ex.fv('n', 'int'), ex.fv('nbytes', 'int'), ex.fv('s', 'int')
        st.assume(SBool(z3.And(n.e >= 0, nb.e >= 0, s.e >= 0)))
        if compose:
            # the argument is the *specified* result of mv_to_bp (callee contract, not its body)
            st.assume(SBool(nb.e == (s.e + 7) / 8))
            st.env['bpa'] = FArr([n, 3, nb], spec_mv_to_bp(X2, s))
        else:
            st.env['bpa'] = FArr([n, m, nb], lambda ix: Y(ix[0], ix[1], ix[2]))
        ex.g = dict(n=n, nb=nb, s=s)
        return st

    def post(ex, st):
        g = ex.g
        r = st.ret
        dims = [g['n'], SInt(8 * g['nb'].e)]
        yield from shape_is(r, dims)
        if isinstance(r, FArr) and r.nd == 2:
            i, t = idx_vars(ex, st, 'it', dims)
            if compose:
                yield 'round trip: bp_to_mv(mv_to_bp(x))[i,t] = x[i,t] & 7 for the original lanes, 0 (ZERO) for the padding lanes', \
                    SBool(r.elem([i, t]) == z3.If(t < g['s'].e, X2(i, t) & 7, z3.BitVecVal(0, 8)))
            else:
                for p in range(8):
                    want = (z3.Extract(0, 0, bit(Y(i, z3.IntVal(p), t / 8), t % 8)) == 1) if p < m else z3.BoolVal(False)
                    yield (f'bit {p} of element [i,t] is bit t%8 of bpa[i,{p},t//8]' if p < m else f'bit {p} of element [i,t] is 0'), \
                        SBool((z3.Extract(p, p, r.elem([i, t])) == 1) == want)
            ex.prove(st, 'mustfail:every converted value is 0', SBool(r.elem([i, t]) == 0), ex.fn, expect='refuted')
    name = 'bp_to_mv applied to the specified result of mv_to_bp (round trip)' if compose else f'bit-parallel array (n, {m}, nbytes)'
    return with_small(Config(name, {'post': post}, setup, None if compose else make_replay('bp_to_mv', Y, 3, m)))


def small(ex):
    g = ex.g
    return [g[k].e <= b for k, b in (('n', 2), ('s', 9), ('nb', 2)) if k in g]


def with_small(cfg):
    cfg.small = small
    return cfg


def make_replay(fname, fn_sym, ndim, m=None):
    """concretise the counter-model: extents and every input element, then run the real function against a bit-by-bit oracle"""
    def replay(model, obl, ex):
        ev = lambda e: model.eval(e, model_completion=True)
        g = ex.g
        dims = [ev(g['n'].e).as_long()]
        if fname == 'bp_to_mv':
            dims += [m, ev(g['nb'].e).as_long()]
        elif fname == 'packbits':
            dims += [ev(g['s'].e).as_long(), m]
        elif ndim >= 2:
            dims += [ev(g['s'].e).as_long()]
        import itertools
        total = 1
        for d in dims:
            total *= max(d, 0)
        if total > 4096 or any(d < 0 for d in dims):
            return None
        data = []
        for ix in itertools.product(*[range(d) for d in dims]):
            args = [z3.IntVal(k) for k in ix]
            if fname == 'mv_to_bp' and ndim == 1:
                args = args + [z3.IntVal(0)]
            data.append(ev(fn_sym(*args)).as_long())
        return 'contracts.conv_c:run_conv', {'function': fname, 'shape': dims, 'data': data}
    return replay


def run_conv(args):
    """run the real conversion on the concrete array and compare with the contract's statement, element by element"""
    import numpy as np
    from kyupy import logic
    a = np.array(args['data'], dtype=np.uint8).reshape(args['shape'])
    f = args['function']
    try:
        got = getattr(logic, f)(a)
    except Exception as e:  # noqa
        return {'reproduced': True, 'observed': repr(e)}
    got = np.asarray(got)
    if f == 'unpackbits':
        want = np.zeros(a.shape + (8,), dtype=np.uint8)
        for ix in np.ndindex(*a.shape):
            for b in range(8):
                want[ix + (b,)] = (int(a[ix]) >> b) & 1
    elif f == 'packbits':
        want = np.zeros(a.shape[:-1], dtype=np.uint8)
        for ix in np.ndindex(*a.shape[:-1]):
            want[ix] = sum((1 << p) for p in range(min(8, a.shape[-1])) if a[ix + (p,)] != 0)
    elif f == 'mv_to_bp':
        x = a if a.ndim > 1 else a[:, None]
        n, s_ = x.shape
        want = np.zeros((n, 3, (s_ + 7) // 8), dtype=np.uint8)
        for i in range(n):
            for t in range(s_):
                for p in range(3):
                    if (int(x[i, t]) >> p) & 1:
                        want[i, p, t // 8] |= 1 << (t % 8)
    else:
        n, m, nb = a.shape
        want = np.zeros((n, 8 * nb), dtype=np.uint8)
        for i in range(n):
            for t in range(8 * nb):
                want[i, t] = sum((1 << p) for p in range(min(m, 8)) if (int(a[i, p, t // 8]) >> (t % 8)) & 1)
    ok = got.shape == want.shape and np.array_equal(got, want)
    return {'reproduced': not ok, 'observed': {'shape': list(got.shape), 'values': got.ravel().tolist()[:64]},
            'expected': {'shape': list(want.shape), 'values': want.ravel().tolist()[:64]}}


def targets():
    return [Target('logic', 'unpackbits', [unpackbits_config()], prims=prims),
            Target('logic', 'packbits', [packbits_config(m) for m in (1, 3, 8, 9)], prims=prims),
            Target('logic', 'mv_to_bp', [mv_to_bp_config(2), mv_to_bp_config(1)], prims=prims),
            Target('logic', 'bp_to_mv', [bp_to_mv_config(3), bp_to_mv_config(1), bp_to_mv_config(2), bp_to_mv_config(8), bp_to_mv_config(3, compose=True)], prims=prims)]


# ---------------------------------------------------------------------------------------------- leading batch axis (axis convention: the last two axes)
def batch_config(fname, m=3):
    """the same statements for arrays with one more leading axis: only the last two (mv) / three (bp) axes take part"""
    X3 = z3.Function('X_in3', I, I, I, BV8)
    Y4 = z3.Function('Y_in4', I, I, I, I, BV8)

    def setup(ex):
        st = State()
        k, n, s, nb = (ex.fv(v, 'int') for v in ('k', 'n', 's', 'nbytes'))
        st.assume(SBool(z3.And(k.e >= 0, n.e >= 0, s.e >= 0, nb.e >= 0)))
        if fname == 'mv_to_bp':
            st.env['mva'] = FArr([k, n, s], lambda ix: X3(ix[0], ix[1], ix[2]))
        else:
            st.env['bpa'] = FArr([k, n, m, nb], lambda ix: Y4(ix[0], ix[1], ix[2], ix[3]))
        ex.g = dict(k=k, n=n, s=s, nb=nb)
        return st

    def post(ex, st):
        from pyvc.models_farr import pack8
        g = ex.g
        r = st.ret
        if fname == 'mv_to_bp':
            dims = [g['k'], g['n'], 3, SInt((g['s'].e + 7) / 8)]
            yield from shape_is(r, dims)
            if isinstance(r, FArr) and r.nd == 4:
                a, i, p, j = idx_vars(ex, st, 'aipj', dims)
                want = pack8([z3.And(8 * j + b < g['s'].e, z3.Extract(0, 0, bit(X3(a, i, 8 * j + b), p)) == 1) for b in range(8)])
                yield 'batch axis kept: bit b of element [a,i,p,j] is bit p of mva[a, i, 8j+b]', SBool(r.elem([a, i, p, j]) == want)
                ex.prove(st, 'mustfail:every bit-parallel byte is 0', SBool(r.elem([a, i, p, j]) == 0), ex.fn, expect='refuted')
        else:
            dims = [g['k'], g['n'], SInt(8 * g['nb'].e)]
            yield from shape_is(r, dims)
            if isinstance(r, FArr) and r.nd == 3:
                a, i, t = idx_vars(ex, st, 'ait', dims)
                for p in range(8):
                    want = (z3.Extract(0, 0, bit(Y4(a, i, z3.IntVal(p), t / 8), t % 8)) == 1) if p < m else z3.BoolVal(False)
                    yield f'batch axis kept: bit {p} of element [a,i,t]', SBool((z3.Extract(p, p, r.elem([a, i, t])) == 1) == want)
                ex.prove(st, 'mustfail:every converted value is 0', SBool(r.elem([a, i, t]) == 0), ex.fn, expect='refuted')
    return Config(f'{fname} with a leading batch axis', {'post': post}, setup, None)


def targets_batch():
    return [Target('logic', 'mv_to_bp', [batch_config('mv_to_bp')], prims=prims, label='batch axis'),
            Target('logic', 'bp_to_mv', [batch_config('bp_to_mv')], prims=prims, label='batch axis')]
