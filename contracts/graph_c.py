"""Contracts of the graph surgery primitives of kyupy.circuit (C09): Node.remove, Line.remove, Line.__init__ on an object-heap model.

Objects are integer ids; a field is an array id -> value; pin lists are arrays node -> (pin -> line id | NONE) with a length per node;
the circuit's node / line lists are (arr, len) pairs; the name tables are finite maps name -> node id.  The container primitives enter
by their contracts proved in circuit_c (IndexList.__delitem__: swap-with-last and re-index; GrowingList.__setitem__: grow on demand).

Well-formedness WF (the statement of C09 for the part of the state these functions touch)
  W1  lines[i].index = i, lines[i].circuit = c                       W5  the same for nodes
  W2  a line in the circuit has a driver and a reader in the circuit, inside their pin lists, and those pins reference the line back
  W3  a non-None pin of a node in the circuit references a line in the circuit whose driver / reader and pin are that node and pin
  W4  forks have no gaps in their outputs
  W6  forks[name] / cells[name] = the node of that kind and name, and every node in the circuit is registered under its name
"""
import ast

import z3

from pyvc.engine import State, Model, NotInSubset, SymIter
from pyvc.values import SInt, SBool, to_int, is_sym, _conc_int
from pyvc.verify import Config, Target

I, B = z3.IntSort(), z3.BoolSort()
AII = z3.ArraySort(I, I)
NONE = -1
LF = ('circuit', 'index', 'driver', 'driver_pin', 'reader', 'reader_pin')


class Method(Model):
    def __init__(self, fn):
        self.fn = fn

    def m_call(self, ex, st, args, kwargs, node):
        return self.fn(ex, st, args, kwargs, node)


class Ref(Model):
    """reference to an object (or None when id == NONE)"""
    kind = None

    def __init__(self, oid):
        self.oid = to_int(oid)
        self.is_none = SBool(self.oid == NONE)

    def m_merge(self, ex, cond, other):
        return type(self)(z3.If(cond.e, self.oid, other.oid))


def val_id(v):
    if v is None:
        return z3.IntVal(NONE)
    if isinstance(v, Ref):
        return v.oid
    return to_int(v)


class KindVal(Model):
    def __init__(self, nid):
        self.nid = nid

    def m_compare(self, ex, st, op, a, b, node):
        other = b if a is self else a
        if other != '__fork__' or op not in (ast.Eq, ast.NotEq):
            raise NotInSubset('comparison of a node kind with something other than the fork kind')
        r = SBool(st.heap[('N', 'isfork')][self.nid])
        return r if op is ast.Eq else SBool(z3.Not(r.e))


    def m_getattr(self, ex, st, name, node):
        if name == 'lower':
            return Method(lambda ex_, st_, args, kwargs, node_: KindLower(self.nid))
        raise NotInSubset(f'kind.{name}')


HASDFF, HASLATCH = z3.Function('KIND_HAS_dff', I, B), z3.Function('KIND_HAS_latch', I, B)


class KindLower(Model):
    """node.kind.lower(): only the two substring tests that define a state element are modelled (one free predicate per node each)"""
    def __init__(self, nid):
        self.nid = nid

    def m_contains(self, ex, st, a, node):
        if a == 'dff':
            return SBool(HASDFF(self.nid))
        if a == 'latch':
            return SBool(HASLATCH(self.nid))
        raise NotInSubset('substring test on a node kind other than dff / latch')


class NameVal(Model):
    def __init__(self, e):
        self.e = e


class KindConst(Model):
    """the ``kind`` argument of Node(...): only whether it is the fork kind matters to the graph structure"""
    def __init__(self, isfork):
        self.isfork = isfork

    def m_compare(self, ex, st, op, a, b, node):
        other = b if a is self else a
        if other != '__fork__' or op not in (ast.Eq, ast.NotEq):
            raise NotInSubset('comparison of a node kind with something other than the fork kind')
        r = SBool(self.isfork)
        return r if op is ast.Eq else SBool(z3.Not(self.isfork))


class EmptyPins(Model):
    """GrowingList(): a new empty pin list"""


def bound_method(ex, qual, selfobj):
    from pyvc import source
    from pyvc.engine import UserFn, BoundUserFn
    fd, _ = source.find('circuit', qual)
    return BoundUserFn(UserFn(fd, ex.globs, nested=False, label=qual), selfobj)


class LineRef(Ref):
    def m_getattr(self, ex, st, name, node):
        ex.prove(st, f'no-exception:AttributeError .{name} of None', self.oid != NONE, node)
        if name == 'remove':
            return bound_method(ex, 'Line.remove', self)          # inlined from its current source
        if name in ('driver', 'reader'):
            return NodeRef(st.heap[('L', name)][self.oid])
        if name == 'circuit':
            return CircRef(st.heap[('L', 'circuit')][self.oid])
        if name in ('index', 'driver_pin', 'reader_pin'):
            return SInt(st.heap[('L', name)][self.oid])
        raise NotInSubset(f'line.{name}')

    def m_setattr(self, ex, st, name, val, node):
        ex.prove(st, f'no-exception:AttributeError .{name} of None', self.oid != NONE, node)
        if name not in LF:
            raise NotInSubset(f'line.{name} = ..')
        st.heap[('L', name)] = z3.Store(st.heap[('L', name)], self.oid, val_id(val))


class NodeRef(Ref):
    def m_getattr(self, ex, st, name, node):
        ex.prove(st, f'no-exception:AttributeError .{name} of None', self.oid != NONE, node)
        if name == 'remove':
            return bound_method(ex, 'Node.remove', self)          # inlined from its current source
        if name in ('outs', 'ins'):
            return PinList(self.oid, name)
        if name == 'kind':
            return KindVal(self.oid)
        if name == 'name':
            return NameVal(st.heap[('N', 'name')][self.oid])
        if name == 'index':
            return SInt(st.heap[('N', 'index')][self.oid])
        if name == 'circuit':
            return CircRef(st.heap[('N', 'circuit')][self.oid])
        raise NotInSubset(f'node.{name}')

    def m_isinstance(self, ex, st, cls, node):
        return cls is not tuple and cls != (tuple,) and False

    def m_setattr(self, ex, st, name, val, node):
        if name == 'name' and isinstance(val, NameVal):
            st.heap[('N', 'name')] = z3.Store(st.heap[('N', 'name')], self.oid, val.e)
            return
        if name == 'kind' and isinstance(val, KindConst):
            st.heap[('N', 'isfork')] = z3.Store(st.heap[('N', 'isfork')], self.oid, val.isfork)
            return
        if name == 'kind' and isinstance(val, str):
            st.heap[('N', 'isfork')] = z3.Store(st.heap[('N', 'isfork')], self.oid, z3.BoolVal(val == '__fork__'))
            return
        if name in ('ins', 'outs') and isinstance(val, EmptyPins):
            st.heap[('N', name + '_len')] = z3.Store(st.heap[('N', name + '_len')], self.oid, 0)
            return
        if name not in ('circuit', 'index'):
            raise NotInSubset(f'node.{name} = ..')
        st.heap[('N', name)] = z3.Store(st.heap[('N', name)], self.oid, val_id(val))


class CircRef(Ref):
    """the circuit (id 0) or None"""

    def m_getattr(self, ex, st, name, node):
        ex.prove(st, f'no-exception:AttributeError .{name} of None', self.oid != NONE, node)
        if name in ('lines', 'nodes'):
            return ObjList(name)
        if name in ('forks', 'cells'):
            return NameTable(name)
        if name == 'get_or_add_fork':
            return bound_method(ex, 'Circuit.get_or_add_fork', self)          # inlined from its current source
        raise NotInSubset(f'circuit.{name}')


class PinList(Model):
    """node.outs / node.ins (GrowingList): heap[('N', which)][node][pin], heap[('N', which+'_len')][node]"""

    def __init__(self, nid, which):
        self.nid, self.which = nid, which

    def arr(self, st): return st.heap[('N', self.which)]
    def lens(self, st): return st.heap[('N', self.which + '_len')]

    def m_len(self, ex, st, node):
        return SInt(self.lens(st)[self.nid])

    def m_setitem(self, ex, st, idx, val, node):
        # GrowingList.__setitem__ by its contract (circuit_c): grows on demand, new entries in between are None
        i = to_int(idx)
        ex.prove(st, 'requires GrowingList.__setitem__: index >= 0', i >= 0, node)
        n = self.lens(st)[self.nid]
        row = self.arr(st)[self.nid]
        j = z3.Int('j!gl')
        new_row = z3.Array(f'row!{next(ex.fresh)}', I, I)
        st.assume(SBool(z3.ForAll([j], new_row[j] == z3.If(j == i, val_id(val), z3.If(j < n, row[j], z3.IntVal(NONE))))))
        st.heap[('N', self.which)] = z3.Store(self.arr(st), self.nid, new_row)
        st.heap[('N', self.which + '_len')] = z3.Store(self.lens(st), self.nid, z3.If(i >= n, i + 1, n))

    def m_delitem(self, ex, st, idx, node):
        i = to_int(idx)
        n = self.lens(st)[self.nid]
        ex.prove(st, 'no-exception:IndexError del pins[i]', z3.And(i >= 0, i < n), node)
        row = self.arr(st)[self.nid]
        j = z3.Int('j!gd')
        new_row = z3.Array(f'row!{next(ex.fresh)}', I, I)
        st.assume(SBool(z3.ForAll([j], new_row[j] == z3.If(j < i, row[j], row[j + 1]))))
        st.heap[('N', self.which)] = z3.Store(self.arr(st), self.nid, new_row)
        st.heap[('N', self.which + '_len')] = z3.Store(self.lens(st), self.nid, n - 1)

    def m_getitem(self, ex, st, idx, node):
        if isinstance(idx, (slice, tuple)):
            raise NotInSubset('slice of a pin list')
        i = to_int(idx)
        ex.prove(st, 'no-exception:IndexError pins[i]', z3.And(i >= 0, i < self.lens(st)[self.nid]), node)
        return LineRef(self.arr(st)[self.nid][i])

    def m_iter(self, ex, st, node):
        nid, which = self.nid, self.which
        return SymIter(SInt(self.lens(st)[self.nid]), lambda ex_, st_, k: LineRef(st_.heap[('N', which)][nid][to_int(k)]))

    def m_getattr(self, ex, st, name, node):
        if name == 'free_index':
            def free_index(ex_, st_, args, kwargs, node_):
                # contract of GrowingList.free_index, proved on its own in circuit_c.targets_free_index (C09 verifies both):
                # the smallest position holding None, or len(self)
                ex_.assumed.add('callee contract: GrowingList.free_index returns the first position holding None, else len(self) (proved separately: circuit_c.targets_free_index)')
                r = ex_.fv('free', 'int').e
                n, row = self.lens(st_)[self.nid], self.arr(st_)[self.nid]
                j = z3.Int('j!fi')
                st_.assume(SBool(z3.And(0 <= r, r <= n, z3.Implies(r < n, row[r] == NONE), z3.ForAll([j], z3.Implies(z3.And(0 <= j, j < r), row[j] != NONE)))))
                return SInt(r)
            return Method(free_index)
        raise NotInSubset(f'pin list .{name}')


class ObjList(Model):
    """circuit.lines / circuit.nodes (IndexList): heap[('C', name)], heap[('C', name+'_len')]"""

    def __init__(self, name):
        self.name = name

    def m_len(self, ex, st, node):
        return st.heap[('C', self.name + '_len')]

    def m_delitem(self, ex, st, idx, node):
        # IndexList.__delitem__ by its contract (circuit_c): the last element moves into the hole and gets the hole's index
        i = to_int(idx)
        n = to_int(st.heap[('C', self.name + '_len')])
        ex.prove(st, 'requires IndexList.__delitem__: 0 <= index < len', z3.And(i >= 0, i < n), node)
        arr = st.heap[('C', self.name)]
        last = arr[n - 1]
        fld = ('L' if self.name == 'lines' else 'N', 'index')
        # (for index == len-1 both stores write the value that is already there: no array-valued if-then-else needed)
        st.heap[('C', self.name)] = z3.Store(arr, i, last)
        st.heap[fld] = z3.Store(st.heap[fld], last, z3.If(i == n - 1, st.heap[fld][last], i))
        st.heap[('C', self.name + '_len')] = SInt(n - 1)

    def m_getattr(self, ex, st, name, node):
        if name == 'append':
            def append(ex_, st_, args, kwargs, node_):
                n = to_int(st_.heap[('C', self.name + '_len')])
                st_.heap[('C', self.name)] = z3.Store(st_.heap[('C', self.name)], n, val_id(args[0]))
                st_.heap[('C', self.name + '_len')] = SInt(n + 1)
            return Method(append)
        raise NotInSubset(f'list.{name}')


class NameTable(Model):
    """circuit.forks / circuit.cells: finite map name -> node id"""

    def __init__(self, name):
        self.name = name

    def m_contains(self, ex, st, key, node):
        if not isinstance(key, NameVal):
            raise NotInSubset('name table key')
        return SBool(st.heap[('C', self.name + '_dom')][key.e])

    def m_getitem(self, ex, st, key, node):
        if not isinstance(key, NameVal):
            raise NotInSubset('name table key')
        ex.prove(st, f'no-exception:KeyError {self.name}[name]', st.heap[('C', self.name + '_dom')][key.e], node)
        return NodeRef(st.heap[('C', self.name + '_val')][key.e])

    def m_setitem(self, ex, st, key, val, node):
        if not isinstance(key, NameVal) or not isinstance(val, NodeRef):
            raise NotInSubset('name table entry')
        st.heap[('C', self.name + '_dom')] = z3.Store(st.heap[('C', self.name + '_dom')], key.e, True)
        st.heap[('C', self.name + '_val')] = z3.Store(st.heap[('C', self.name + '_val')], key.e, val.oid)

    def m_delitem(self, ex, st, key, node):
        if not isinstance(key, NameVal):
            raise NotInSubset('name table key')
        dom = st.heap[('C', self.name + '_dom')]
        ex.prove(st, f'no-exception:KeyError del {self.name}[name]', dom[key.e], node)
        st.heap[('C', self.name + '_dom')] = z3.Store(dom, key.e, False)


# ---------------------------------------------------------------------------------------------------------------- state and WF
def fresh_state(ex):
    st = State()
    for f in LF:
        st.heap[('L', f)] = z3.Array(f'L_{f}', I, I)
    for f in ('index', 'circuit', 'name'):
        st.heap[('N', f)] = z3.Array(f'N_{f}', I, I)
    st.heap[('N', 'isfork')] = z3.Array('N_isfork', I, B)
    for w in ('outs', 'ins'):
        st.heap[('N', w)] = z3.Array(f'N_{w}', I, AII)
        st.heap[('N', w + '_len')] = z3.Array(f'N_{w}_len', I, I)
    for nm in ('lines', 'nodes'):
        st.heap[('C', nm)] = z3.Array(f'C_{nm}', I, I)
        n = ex.fv(f'n_{nm}', 'int')
        st.assume(SBool(n.e >= 0))
        st.heap[('C', nm + '_len')] = n
    for nm in ('forks', 'cells'):
        st.heap[('C', nm + '_dom')] = z3.Array(f'C_{nm}_dom', I, B)
        st.heap[('C', nm + '_val')] = z3.Array(f'C_{nm}_val', I, I)
    return st


class V:
    """snapshot of the heap as z3 terms"""

    def __init__(self, st):
        h = st.heap
        self.Lc, self.Li, self.Ld, self.Ldp, self.Lr, self.Lrp = (h[('L', f)] for f in LF)
        self.Ni, self.Nc, self.Nn, self.Nf = h[('N', 'index')], h[('N', 'circuit')], h[('N', 'name')], h[('N', 'isfork')]
        self.O, self.OL, self.IN, self.IL = h[('N', 'outs')], h[('N', 'outs_len')], h[('N', 'ins')], h[('N', 'ins_len')]
        self.LS, self.NL = h[('C', 'lines')], to_int(h[('C', 'lines_len')])
        self.NS, self.NN = h[('C', 'nodes')], to_int(h[('C', 'nodes_len')])
        self.Fd, self.Fv, self.Cd, self.Cv = h[('C', 'forks_dom')], h[('C', 'forks_val')], h[('C', 'cells_dom')], h[('C', 'cells_val')]

    def inL(self, l):
        return z3.And(l != NONE, 0 <= self.Li[l], self.Li[l] < self.NL, self.LS[self.Li[l]] == l)

    def inN(self, n):
        return z3.And(n != NONE, 0 <= self.Ni[n], self.Ni[n] < self.NN, self.NS[self.Ni[n]] == n)


def wf_lines(v):
    i, l, n, p = z3.Ints('i l n p')
    out = [('W1:lines[i].index = i and lines[i].circuit is the circuit',
            z3.ForAll([i], z3.Implies(z3.And(0 <= i, i < v.NL), z3.And(v.LS[i] != NONE, v.Li[v.LS[i]] == i, v.Lc[v.LS[i]] == 0)))),
           ('W2:a line in the circuit has a driver in the circuit whose output pin references it back',
            z3.ForAll([l], z3.Implies(v.inL(l), z3.And(v.inN(v.Ld[l]), 0 <= v.Ldp[l], v.Ldp[l] < v.OL[v.Ld[l]], v.O[v.Ld[l]][v.Ldp[l]] == l)))),
           ('W2:a line in the circuit has a reader in the circuit whose input pin references it back',
            z3.ForAll([l], z3.Implies(v.inL(l), z3.And(v.inN(v.Lr[l]), 0 <= v.Lrp[l], v.Lrp[l] < v.IL[v.Lr[l]], v.IN[v.Lr[l]][v.Lrp[l]] == l)))),
           ('W3:a connected output pin references a line in the circuit driven by that node and pin',
            z3.ForAll([n, p], z3.Implies(z3.And(v.inN(n), 0 <= p, p < v.OL[n], v.O[n][p] != NONE),
                                         z3.And(v.inL(v.O[n][p]), v.Ld[v.O[n][p]] == n, v.Ldp[v.O[n][p]] == p)))),
           ('W3:a connected input pin references a line in the circuit read by that node and pin',
            z3.ForAll([n, p], z3.Implies(z3.And(v.inN(n), 0 <= p, p < v.IL[n], v.IN[n][p] != NONE),
                                         z3.And(v.inL(v.IN[n][p]), v.Lr[v.IN[n][p]] == n, v.Lrp[v.IN[n][p]] == p)))),
           ('W4:forks have no gaps in their outputs', z3.ForAll([n, p], z3.Implies(z3.And(v.inN(n), v.Nf[n], 0 <= p, p < v.OL[n]), v.O[n][p] != NONE))),
           ('W0:pin list lengths are not negative', z3.ForAll([n], z3.And(v.OL[n] >= 0, v.IL[n] >= 0)))]
    return out


def wf_nodes(v):
    i, n = z3.Ints('i n')
    return [('W5:nodes[i].index = i and nodes[i].circuit is the circuit',
             z3.ForAll([i], z3.Implies(z3.And(0 <= i, i < v.NN), z3.And(v.NS[i] != NONE, v.Ni[v.NS[i]] == i, v.Nc[v.NS[i]] == 0)))),
            ('W6:every node of the circuit is registered under its name in the table of its kind',
             z3.ForAll([n], z3.Implies(v.inN(n), z3.If(v.Nf[n], z3.And(v.Fd[v.Nn[n]], v.Fv[v.Nn[n]] == n), z3.And(v.Cd[v.Nn[n]], v.Cv[v.Nn[n]] == n))))),
            ('W6:every registered name belongs to a node of the circuit with that name and kind',
             z3.ForAll([i], z3.And(z3.Implies(v.Fd[i], z3.And(v.inN(v.Fv[i]), v.Nf[v.Fv[i]], v.Nn[v.Fv[i]] == i)),
                                   z3.Implies(v.Cd[i], z3.And(v.inN(v.Cv[i]), z3.Not(v.Nf[v.Cv[i]]), v.Nn[v.Cv[i]] == i)))))]


# ---------------------------------------------------------------------------------------------------------------- Node.remove
def node_remove_config():
    def setup(ex):
        st = fresh_state(ex)
        v = V(st)
        me = ex.fv('self', 'int').e
        for nm, c in wf_nodes(v):
            st.assume(SBool(c))
        st.assume(SBool(z3.And(v.inN(me), v.Nc[me] == 0)))
        st.env['self'] = NodeRef(me)
        ex.g = dict(me=me, v0=v)
        return st

    def post(ex, st):
        g = ex.g
        v0, v1, me = g['v0'], V(st), g['me']
        for nm, c in wf_nodes(v1):
            yield nm, SBool(c)
        n = z3.Int('n')
        yield 'the node is no longer in the circuit and its circuit reference is cleared', SBool(z3.And(z3.Not(v1.inN(me)), v1.Nc[me] == NONE))
        yield 'one node less; every other node stays in the circuit', SBool(z3.And(v1.NN == v0.NN - 1, z3.ForAll([n], z3.Implies(n != me, v1.inN(n) == v0.inN(n)))))
        yield 'only the node that moved into the hole is re-indexed', SBool(z3.ForAll([n], z3.Implies(z3.And(n != me, n != v0.NS[v0.NN - 1]), v1.Ni[n] == v0.Ni[n])))
        yield 'the table of the other kind is untouched', SBool(z3.If(v0.Nf[me], z3.And(v1.Cd == v0.Cd, v1.Cv == v0.Cv), z3.And(v1.Fd == v0.Fd, v1.Fv == v0.Fv)))
        ex.prove(st, 'mustfail:the node list keeps its length', SBool(v1.NN == v0.NN), ex.fn, expect='refuted')
    return Config('node in a well-formed circuit', {'post': post, 'expr_fork': True}, setup, None)


# ---------------------------------------------------------------------------------------------------------------- Line.remove
def line_remove_config():
    def setup(ex):
        st = fresh_state(ex)
        v = V(st)
        me = ex.fv('self', 'int').e
        for nm, c in wf_lines(v) + wf_nodes(v)[:1]:
            st.assume(SBool(c))
        st.assume(SBool(v.inL(me)))
        st.env['self'] = LineRef(me)
        ex.g = dict(me=me, v0=v)
        return st

    def loop_inv(ex, st):
        """re-numbering of the outputs of the driving fork after the squeeze: pins < i are renumbered, pins >= i still carry the old number"""
        g = ex.g
        v0, v1, me = g['v0'], V(st), g['me']
        d, q = v0.Ld[me], v0.Ldp[me]
        i = to_int(st.env['__k0'])
        p, l = z3.Ints('p l')
        yield 'R1:outputs before i carry their new position', SBool(z3.ForAll([p], z3.Implies(z3.And(0 <= p, p < i), v1.Ldp[v1.O[d][p]] == p)))
        yield 'R2:driver pins of all other lines are unchanged', \
            SBool(z3.ForAll([l], z3.Implies(z3.Not(z3.And(v0.inL(l), v0.Ld[l] == d, v0.Ldp[l] > q, v0.Ldp[l] - 1 < i)), v1.Ldp[l] == v0.Ldp[l])))
        yield 'R3:the driver is a fork of the circuit', SBool(z3.And(v0.Nf[d], v0.inN(d)))
        p2 = z3.Int('p2')
        yield 'R5:the output row of the fork is the old row with the removed pin squeezed out', \
            SBool(z3.And(v1.OL[d] == v0.OL[d] - 1, 0 <= q, q < v0.OL[d],
                         z3.ForAll([p], z3.Implies(z3.And(0 <= p, p < v1.OL[d]), v1.O[d][p] == z3.If(p < q, v0.O[d][p], v0.O[d][p + 1])))))
        np_ = z3.If(v0.Ldp[l] > q, v0.Ldp[l] - 1, v0.Ldp[l])
        yield 'R6:every other line driven by the fork sits at its old position, moved down by one behind the removed pin', \
            SBool(z3.ForAll([l], z3.Implies(z3.And(v0.inL(l), l != me, v0.Ld[l] == d), z3.And(0 <= np_, np_ < v1.OL[d], v1.O[d][np_] == l))))
        yield 'R4:the outputs of the fork are pairwise distinct lines of the circuit driven by the fork', \
            SBool(z3.And(z3.ForAll([p, p2], z3.Implies(z3.And(0 <= p, p < p2, p2 < v1.OL[d]), v1.O[d][p] != v1.O[d][p2])),
                         z3.ForAll([p], z3.Implies(z3.And(0 <= p, p < v1.OL[d]), z3.And(v0.inL(v1.O[d][p]), v1.O[d][p] != me, v0.Ld[v1.O[d][p]] == d,
                                                                                       v0.Ldp[v1.O[d][p]] == z3.If(p < q, p, p + 1))))))

    def post(ex, st):
        g = ex.g
        v0, v1, me = g['v0'], V(st), g['me']
        for nm, c in wf_lines(v1):
            yield nm, SBool(c)
        l, n = z3.Ints('l n')
        yield 'the line is no longer in the circuit; its references are cleared', \
            SBool(z3.And(z3.Not(v1.inL(me)), v1.Lc[me] == NONE, v1.Ld[me] == NONE, v1.Lr[me] == NONE))
        yield 'one line less; every other line stays in the circuit with its driver, reader and reader pin', \
            SBool(z3.And(v1.NL == v0.NL - 1, z3.ForAll([l], z3.Implies(l != me, z3.And(v1.inL(l) == v0.inL(l), v1.Ld[l] == v0.Ld[l], v1.Lr[l] == v0.Lr[l], v1.Lrp[l] == v0.Lrp[l])))))
        d, q = v0.Ld[me], v0.Ldp[me]
        yield 'driver pins: later branches of the same fork move down by one, everything else keeps its pin', \
            SBool(z3.ForAll([l], z3.Implies(z3.And(l != me, v0.inL(l)), v1.Ldp[l] == z3.If(z3.And(v0.Nf[d], v0.Ld[l] == d, v0.Ldp[l] > q), v0.Ldp[l] - 1, v0.Ldp[l]))))
        yield 'the node list is untouched', SBool(z3.And(v1.NS == v0.NS, v1.NN == v0.NN, v1.Ni == v0.Ni))
        ex.prove(st, 'mustfail:the line list keeps its length', SBool(v1.NL == v0.NL), ex.fn, expect='refuted')
    contract = {'post': post, 'expr_fork': True, 'loops': {0: {'inv': loop_inv, 'modifies': [('L', 'driver_pin')], 'kinds': {}}}}
    return Config('line in a well-formed circuit', contract, setup, None)


# ---------------------------------------------------------------------------------------------------------------- Line.__init__
def line_init_config(explicit):
    """explicit: driver and reader are given as (node, pin) with free pins (the property's well-formed use); else the first free pins are taken"""
    def setup(ex):
        st = fresh_state(ex)
        v = V(st)
        me, d, r = ex.fv('self', 'int').e, ex.fv('driver', 'int').e, ex.fv('reader', 'int').e
        for nm, c in wf_lines(v) + wf_nodes(v)[:1]:
            st.assume(SBool(c))
        # a fresh object: not the circuit's, referenced from nowhere
        n, p, i = z3.Ints('n p i')
        st.assume(SBool(z3.And(me != NONE, z3.Not(v.inL(me)), z3.ForAll([i], z3.Implies(z3.And(0 <= i, i < v.NL), v.LS[i] != me)),
                               z3.ForAll([n, p], z3.Implies(z3.And(v.inN(n), 0 <= p), z3.And(z3.Implies(p < v.OL[n], v.O[n][p] != me), z3.Implies(p < v.IL[n], v.IN[n][p] != me)))))))
        st.assume(SBool(z3.And(v.inN(d), v.inN(r))))
        st.env['self'] = LineRef(me)
        st.env['circuit'] = CircRef(z3.IntVal(0))
        if explicit:
            dp, rp = ex.fv('driver_pin', 'int').e, ex.fv('reader_pin', 'int').e
            # well-formed use: explicit pins only on free positions; a fork's outputs are appended without gaps
            st.assume(SBool(z3.And(dp >= 0, rp >= 0, z3.Implies(dp < v.OL[d], v.O[d][dp] == NONE), z3.Implies(rp < v.IL[r], v.IN[r][rp] == NONE),
                                   z3.Implies(v.Nf[d], dp <= v.OL[d]))))
            st.env['driver'] = (NodeRef(d), SInt(dp))
            st.env['reader'] = (NodeRef(r), SInt(rp))
            ex.g = dict(me=me, d=d, r=r, dp=dp, rp=rp, v0=v)
        else:
            st.env['driver'] = NodeRef(d)
            st.env['reader'] = NodeRef(r)
            ex.g = dict(me=me, d=d, r=r, dp=None, rp=None, v0=v)
        return st

    def post(ex, st):
        g = ex.g
        v0, v1, me = g['v0'], V(st), g['me']
        for nm, c in wf_lines(v1):
            yield nm, SBool(c)
        l = z3.Int('l')
        yield 'the new line is the last line of the circuit, driven by the driver and read by the reader', \
            SBool(z3.And(v1.NL == v0.NL + 1, v1.inL(me), v1.Li[me] == v0.NL, v1.Ld[me] == g['d'], v1.Lr[me] == g['r']))
        if g['dp'] is not None:
            yield 'it sits on the requested pins', SBool(z3.And(v1.Ldp[me] == g['dp'], v1.Lrp[me] == g['rp']))
        else:
            p = z3.Int('p')
            yield 'it sits on the first free pins', \
                SBool(z3.And(z3.ForAll([p], z3.Implies(z3.And(0 <= p, p < v1.Ldp[me]), v0.O[g['d']][p] != NONE)),
                             z3.ForAll([p], z3.Implies(z3.And(0 <= p, p < v1.Lrp[me]), v0.IN[g['r']][p] != NONE))))
        yield 'every other line keeps its place, its driver, reader and pins', \
            SBool(z3.ForAll([l], z3.Implies(l != me, z3.And(v1.inL(l) == v0.inL(l), v1.Ld[l] == v0.Ld[l], v1.Lr[l] == v0.Lr[l], v1.Ldp[l] == v0.Ldp[l], v1.Lrp[l] == v0.Lrp[l],
                                                            v1.Li[l] == v0.Li[l]))))
        yield 'the node list is untouched', SBool(z3.And(v1.NS == v0.NS, v1.NN == v0.NN, v1.Ni == v0.Ni))
        ex.prove(st, 'mustfail:the line list keeps its length', SBool(v1.NL == v0.NL), ex.fn, expect='refuted')
    return Config('explicit free pins' if explicit else 'first free pins', {'post': post, 'expr_fork': True}, setup, None)


# ---------------------------------------------------------------------------------------------------------------- Node.__init__
def node_init_config():
    def setup(ex):
        st = fresh_state(ex)
        v = V(st)
        me = ex.fv('self', 'int').e
        nm = ex.fv('name', 'int').e
        isf = z3.Bool('kind_is_fork')
        for nm_, c in wf_nodes(v):
            st.assume(SBool(c))
        i = z3.Int('i')
        # a fresh object: not in the node list, not registered
        st.assume(SBool(z3.And(me != NONE, z3.Not(v.inN(me)), z3.ForAll([i], z3.Implies(z3.And(0 <= i, i < v.NN), v.NS[i] != me)),
                               z3.ForAll([i], z3.And(z3.Implies(v.Fd[i], v.Fv[i] != me), z3.Implies(v.Cd[i], v.Cv[i] != me))))))
        # the assertion of the constructor (name not yet taken in the table of the kind) is the caller's obligation
        st.assume(SBool(z3.If(isf, z3.Not(v.Fd[nm]), z3.Not(v.Cd[nm]))))
        st.env.update(self=NodeRef(me), circuit=CircRef(z3.IntVal(0)), name=NameVal(nm), kind=KindConst(isf))
        ex.g = dict(me=me, nm=nm, isf=isf, v0=v)
        return st

    def post(ex, st):
        g = ex.g
        v0, v1, me = g['v0'], V(st), g['me']
        for nm_, c in wf_nodes(v1):
            yield nm_, SBool(c)
        n = z3.Int('n')
        yield 'the new node is the last node of the circuit, with empty pin lists, registered under its name in the table of its kind', \
            SBool(z3.And(v1.NN == v0.NN + 1, v1.inN(me), v1.Ni[me] == v0.NN, v1.Nc[me] == 0, v1.OL[me] == 0, v1.IL[me] == 0, v1.Nn[me] == g['nm'], v1.Nf[me] == g['isf'],
                         z3.If(g['isf'], z3.And(v1.Fd[g['nm']], v1.Fv[g['nm']] == me, v1.Cd == v0.Cd, v1.Cv == v0.Cv), z3.And(v1.Cd[g['nm']], v1.Cv[g['nm']] == me, v1.Fd == v0.Fd, v1.Fv == v0.Fv))))
        yield 'every other node keeps its place', SBool(z3.ForAll([n], z3.Implies(n != me, z3.And(v1.inN(n) == v0.inN(n), v1.Ni[n] == v0.Ni[n]))))
        ex.prove(st, 'mustfail:the node list keeps its length', SBool(v1.NN == v0.NN), ex.fn, expect='refuted')
    return Config('fresh node, free name', {'post': post, 'expr_fork': True}, setup, None)


def node_prims(globs):
    def growing(ex, st, args, kwargs, node):
        return EmptyPins()
    return {globs['GrowingList']: growing}


# ------------------------------------------------------------------------------------------- eliminate_1to1_forks: one fork (C10)
def elim_body(stmts):
    """body of ``for n in list(self.forks.values()):`` from ``in_line = n.ins[0]`` on (the guards before it select non-port forks with exactly one output)"""
    for s in stmts:
        if isinstance(s, ast.For) and 'forks' in ast.unparse(s.iter):
            for i, x in enumerate(s.body):
                if isinstance(x, ast.Assign) and isinstance(x.targets[0], ast.Name) and x.targets[0].id == 'in_line':
                    return list(s.body[i:])
    from pyvc.engine import ContractError
    raise ContractError('fork elimination block not found in Circuit.eliminate_1to1_forks')


def elim_config():
    """a fork n of the circuit with exactly one connected input and exactly one output is spliced out: Node.remove and Line.remove are inlined from their current source"""
    def setup(ex):
        st = fresh_state(ex)
        v = V(st)
        n = ex.fv('n', 'int').e
        for nm, c in wf_lines(v) + wf_nodes(v):
            st.assume(SBool(c))
        st.assume(SBool(z3.And(v.inN(n), v.Nf[n], v.Nc[n] == 0, v.OL[n] == 1, v.IL[n] == 1, v.IN[n][0] != NONE)))
        st.assume(SBool(v.IN[n][0] != v.O[n][0]))          # the fork does not feed itself (no combinational loop through the fork alone)
        st.env['n'] = NodeRef(n)
        ex.g = dict(n=n, v0=v, il=v.IN[n][0], ol=v.O[n][0])
        return st

    def remove_hook(ex, sub, bound):
        # entry of the inlined Line.remove: snapshot of the driver-pin field (its re-numbering loop runs over the emptied output list of the fork)
        ex.g['ldp_at_remove'] = sub.heap[('L', 'driver_pin')]

    def renumber_inv(ex, st):
        yield 'no driver pin is changed (the fork has no other branch)', SBool(st.heap[('L', 'driver_pin')] == ex.g['ldp_at_remove'])

    def post(ex, st):
        g = ex.g
        v0, v1, n, il, ol = g['v0'], V(st), g['n'], g['il'], g['ol']
        for nm, c in wf_lines(v1) + wf_nodes(v1):
            yield nm, SBool(c)
        l, m = z3.Ints('l m')
        yield 'the fork and its output line are gone', SBool(z3.And(z3.Not(v1.inN(n)), z3.Not(v1.inL(ol)), v1.NN == v0.NN - 1, v1.NL == v0.NL - 1))
        yield 'the input line of the fork now ends where the output line ended (same reader, same pin); its driver is unchanged', \
            SBool(z3.And(v1.inL(il), v1.Lr[il] == v0.Lr[ol], v1.Lrp[il] == v0.Lrp[ol], v1.Ld[il] == v0.Ld[il], v1.Ldp[il] == v0.Ldp[il]))
        yield 'every other line keeps driver, reader and pins; every other node stays', \
            SBool(z3.And(z3.ForAll([l], z3.Implies(z3.And(l != il, l != ol), z3.And(v1.inL(l) == v0.inL(l), v1.Ld[l] == v0.Ld[l], v1.Lr[l] == v0.Lr[l], v1.Ldp[l] == v0.Ldp[l], v1.Lrp[l] == v0.Lrp[l]))),
                         z3.ForAll([m], z3.Implies(m != n, v1.inN(m) == v0.inN(m)))))
        ex.prove(st, 'mustfail:nothing is removed', SBool(v1.NN == v0.NN), ex.fn, expect='refuted')
    contract = {'post': post, 'expr_fork': True, 'loop_body': True,
                'inline_loops': {'Line.remove': {0: {'inv': renumber_inv, 'modifies': [('L', 'driver_pin')], 'kinds': {}, 'index': '__kr'}}},
                'inline_hooks': {'Line.remove': remove_hook}}
    return Config('non-port fork with one input and one output in a well-formed circuit', contract, setup, None)


# ------------------------------------------------------------------------------------------- stems table of SimOps.__init__ (C08 / C06)
ROOT = z3.Function('ROOT', I, I)          # ghost: the stem line of a line (walk back through driving forks that have a connected input)
DEPTH = z3.Function('DEPTH', I, I)        # ghost: number of such forks behind a line (well-founded: fork chains are acyclic)


def fork_with_input(v, n):
    return z3.And(v.Nf[n], v.IL[n] > 0, v.IN[n][0] != NONE)


class StemsArr(Model):
    """stems : heap['stems'] : Array line index -> stem index; indexed by Line objects (their index) or ints"""

    def m_setitem(self, ex, st, idx, val, node):
        if isinstance(idx, LineRef):
            ex.prove(st, 'no-exception:TypeError None used as an index', idx.oid != NONE, node)
            i = st.heap[('L', 'index')][idx.oid]
        else:
            i = to_int(idx)
        ex.prove(st, 'index-in-bounds:stems', z3.And(i >= 0, i < to_int(st.heap[('C', 'lines_len')]) + ex.g['extra']), node)
        st.heap['stems'] = z3.Store(st.heap['stems'], i, to_int(val))


def stems_body(stmts):
    """body of ``for f in circuit.forks.values():`` in the stems part of SimOps.__init__ (from ``prev_line = f.ins[0]`` on)"""
    for s in ast.walk(ast.Module(body=list(stmts), type_ignores=[])):
        if isinstance(s, ast.For) and 'forks' in ast.unparse(s.iter):
            for i, x in enumerate(s.body):
                if isinstance(x, ast.Assign) and isinstance(x.targets[0], ast.Name) and x.targets[0].id == 'prev_line':
                    return list(s.body[i:])
    from pyvc.engine import ContractError
    raise ContractError('stems block not found in SimOps.__init__')


def stems_config():
    def setup(ex):
        st = fresh_state(ex)
        v = V(st)
        f = ex.fv('f', 'int').e
        for nm, c in wf_lines(v) + wf_nodes(v)[:1]:
            st.assume(SBool(c))
        l = z3.Int('l')
        d = v.Ld[l]
        # ghost definitions: ROOT / DEPTH follow the driving forks with a connected input; DEPTH decreases (acyclic fork chains)
        st.assume(SBool(z3.ForAll([l], z3.Implies(v.inL(l), z3.And(DEPTH(l) >= 0,
                                                                   z3.If(fork_with_input(v, d), z3.And(ROOT(l) == ROOT(v.IN[d][0]), DEPTH(l) > DEPTH(v.IN[d][0])), ROOT(l) == l))))))
        st.assume(SBool(z3.And(v.inN(f), fork_with_input(v, f))))
        extra = ex.fv('extra_slots', 'int').e
        st.assume(SBool(extra >= 0))
        st.heap['stems'] = z3.Array('stems0', I, I)
        st.env.update(f=NodeRef(f), stems=StemsArr())
        ex.g = dict(f=f, v0=v, extra=extra, stems0=st.heap['stems'])
        return st

    def walk_inv(ex, st):
        g = ex.g
        v = g['v0']
        pl = st.env.get('prev_line')
        if not isinstance(pl, LineRef):
            yield 'prev_line is a line', False
            return
        yield 'W:prev_line is a line of the circuit with the same stem as the input line of the fork', \
            SBool(z3.And(v.inL(pl.oid), ROOT(pl.oid) == ROOT(v.IN[g['f']][0])))

    def walk_variant(ex, st):
        return SInt(DEPTH(st.env['prev_line'].oid))

    def outs_inv(ex, st):
        g = ex.g
        v = g['v0']
        k = to_int(st.env['__k1'])
        p, x = z3.Ints('p x')
        root = ROOT(v.IN[g['f']][0])
        S = st.heap['stems']
        yield 'O1:the connected outputs passed so far map to the index of the stem line', \
            SBool(z3.ForAll([p], z3.Implies(z3.And(0 <= p, p < k, v.O[g['f']][p] != NONE), S[v.Li[v.O[g['f']][p]]] == v.Li[root])))
        yield 'O2:every other entry is unchanged', \
            SBool(z3.ForAll([x], z3.Implies(z3.Not(z3.And(v.inL(v.LS[x]), 0 <= x, x < v.NL, v.Ld[v.LS[x]] == g['f'], v.Ldp[v.LS[x]] < k)), S[x] == g['stems0'][x])))
        yield 'O3:stem_idx is the index of the stem line', SBool(to_int(st.env['stem_idx']) == v.Li[root])

    def post(ex, st):
        g = ex.g
        v = g['v0']
        p, x = z3.Ints('p x')
        root = ROOT(v.IN[g['f']][0])
        S = st.heap['stems']
        yield 'every connected output (fan-out branch) of the fork maps to the index of its stem: the first line upstream that is not driven by a fork with a connected input', \
            SBool(z3.And(v.inL(root), z3.Not(fork_with_input(v, v.Ld[root])),
                         z3.ForAll([p], z3.Implies(z3.And(0 <= p, p < v.OL[g['f']], v.O[g['f']][p] != NONE), S[v.Li[v.O[g['f']][p]]] == v.Li[root]))))
        yield 'entries of lines that are not outputs of this fork are unchanged', \
            SBool(z3.ForAll([x], z3.Implies(z3.Not(z3.And(0 <= x, x < v.NL, v.Ld[v.LS[x]] == g['f'])), S[x] == g['stems0'][x])))
        ex.prove(st, 'mustfail:stems is unchanged', SBool(S == g['stems0']), ex.fn, expect='refuted')
    contract = {'post': post, 'expr_fork': True, 'loop_body': True,
                'loops': {0: {'inv': walk_inv, 'variant': walk_variant, 'modifies': [], 'kinds': {'prev_line': 'line'}},
                          1: {'inv': outs_inv, 'modifies': ['stems'], 'kinds': {'ol': 'keep'}}}}
    return Config('fork with a connected input in a well-formed circuit with acyclic fork chains', contract, setup, None)


def targets_stems():
    return [Target('sim', 'SimOps.__init__', [stems_config()], body_slice=stems_body, instantiate='fallback', label='stems of one fork',
                   kinds={'line': lambda n: LineRef(z3.Int(n))},
                   note='body of `for f in circuit.forks.values():` from `prev_line = f.ins[0]` on (strip_forks)')]


def targets_c10():
    return [Target('circuit', 'Circuit.eliminate_1to1_forks', [elim_config()], body_slice=elim_body, instantiate='fallback', label='one fork',
                   note='loop body from `in_line = n.ins[0]` on; Node.remove / Line.remove inlined')]


def targets():
    return [Target('circuit', 'Node.__init__', [node_init_config()], prims=node_prims, instantiate='fallback'),
            Target('circuit', 'Line.__init__', [line_init_config(True), line_init_config(False)], instantiate='fallback'),
            Target('circuit', 'Node.remove', [node_remove_config()], instantiate='fallback'),
            Target('circuit', 'Line.remove', [line_remove_config()], instantiate='fallback')]


# ------------------------------------------------------------------------------------------- topological_line_order (C17)
NODESEQ = z3.Function('NODESEQ', I, I)       # the node sequence produced by topological_order() (any sequence: its contract is bounded evidence)
CNTY = z3.Function('CNTY', I, I)             # ghost: number of lines yielded before node position k


def line_order_config():
    """topological_line_order yields, for the nodes in the order topological_order() yields them, every connected output line in pin order, and nothing else"""
    from pyvc.models_obj import SObj

    class NodeSeq(Model):
        def __init__(self, m):
            self.m = m

        def m_call(self, ex, st, args, kwargs, node):
            return self

        def m_iter(self, ex, st, node):
            return SymIter(SInt(self.m), lambda ex_, st_, k: NodeRef(NODESEQ(to_int(k))))

    def setup(ex):
        st = fresh_state(ex)
        v = V(st)
        m = ex.fv('n_yielded_nodes', 'int').e
        k = z3.Int('k')
        st.assume(SBool(z3.And(m >= 0, z3.ForAll([k], z3.Implies(z3.And(0 <= k, k < m), z3.And(NODESEQ(k) != NONE, v.OL[NODESEQ(k)] >= 0))))))
        st.heap['ylog'] = z3.Array('ylog0', I, I)
        st.heap['ylen'] = SInt(z3.IntVal(0))
        st.env['self'] = SObj.new(st, 'self', topological_order=NodeSeq(m))
        ex.readonly.add(('self', 'topological_order'))
        ex.g = dict(m=m, v0=v)
        return st

    def yield_hook(ex, st, val, node):
        if not isinstance(val, LineRef):
            ex.prove(st, 'only lines are yielded', False, node)
            return
        ex.prove(st, 'a yielded line is a connected line (never None)', SBool(val.oid != NONE), node)
        n = to_int(st.heap['ylen'])
        st.heap['ylog'] = z3.Store(st.heap['ylog'], n, val.oid)
        st.heap['ylen'] = SInt(n + 1)

    # position of the line on pin p of the k-th node in the yielded sequence: lines of earlier nodes + connected pins below p
    CP = z3.Function('CONNPINS', I, I, I)       # CONNPINS(node, p) = number of connected output pins below p

    def axioms(ex, st):
        v = ex.g['v0']
        n, p, k = z3.Ints('n p k')
        st.assume(SBool(z3.ForAll([n], CP(n, 0) == 0)))
        st.assume(SBool(z3.ForAll([n, p], z3.Implies(p >= 0, z3.And(CP(n, p + 1) == CP(n, p) + z3.If(v.O[n][p] != NONE, 1, 0), CP(n, p) >= 0)))))
        st.assume(SBool(z3.And(CNTY(0) == 0, z3.ForAll([k], z3.Implies(k >= 0, CNTY(k + 1) == CNTY(k) + CP(NODESEQ(k), v.OL[NODESEQ(k)]))))))
        p2 = z3.Int('p2')
        st.assume(SBool(z3.ForAll([n, p, p2], z3.Implies(z3.And(0 <= p, p <= p2), CP(n, p) <= CP(n, p2)))))         # monotone (lemma below)
        k2 = z3.Int('k2')
        st.assume(SBool(z3.ForAll([k, k2], z3.Implies(z3.And(0 <= k, k <= k2), CNTY(k) <= CNTY(k2)))))                # monotone (lemma below)

    def outer_inv(ex, st):
        g = ex.g
        v = g['v0']
        k = to_int(st.env['__k0'])
        Y, yl = st.heap['ylog'], to_int(st.heap['ylen'])
        j, p = z3.Ints('j p')
        yield 'Y1:lines yielded so far = connected outputs of the nodes passed so far', SBool(yl == CNTY(k))
        yield 'Y2:the connected output on pin p of the j-th node sits at its position', \
            SBool(z3.ForAll([j, p], z3.Implies(z3.And(0 <= j, j < k, 0 <= p, p < v.OL[NODESEQ(j)], v.O[NODESEQ(j)][p] != NONE), Y[CNTY(j) + CP(NODESEQ(j), p)] == v.O[NODESEQ(j)][p])))

    def inner_inv(ex, st):
        g = ex.g
        v = g['v0']
        k, q = to_int(st.env['__k0']), to_int(st.env['__k1'])
        nd = NODESEQ(k)
        Y, yl = st.heap['ylog'], to_int(st.heap['ylen'])
        j, p = z3.Ints('j p')
        yield 'Y1:lines yielded so far', SBool(yl == CNTY(k) + CP(nd, q))
        yield 'Y2:earlier nodes', SBool(z3.ForAll([j, p], z3.Implies(z3.And(0 <= j, j < k, 0 <= p, p < v.OL[NODESEQ(j)], v.O[NODESEQ(j)][p] != NONE), Y[CNTY(j) + CP(NODESEQ(j), p)] == v.O[NODESEQ(j)][p])))
        yield 'Y3:pins of the current node passed so far', SBool(z3.ForAll([p], z3.Implies(z3.And(0 <= p, p < q, v.O[nd][p] != NONE), Y[CNTY(k) + CP(nd, p)] == v.O[nd][p])))
        yield 'outer index in range', SBool(z3.And(0 <= k, k < g['m']))

    def post(ex, st):
        g = ex.g
        v = g['v0']
        Y, yl = st.heap['ylog'], to_int(st.heap['ylen'])
        j, p = z3.Ints('j p')
        yield 'the number of yielded lines is the number of connected output pins of the yielded nodes', SBool(yl == CNTY(g['m']))
        yield 'the connected output on pin p of the j-th yielded node is yielded at position (lines of earlier nodes) + (connected pins below p): node order, then pin order', \
            SBool(z3.ForAll([j, p], z3.Implies(z3.And(0 <= j, j < g['m'], 0 <= p, p < v.OL[NODESEQ(j)], v.O[NODESEQ(j)][p] != NONE), Y[CNTY(j) + CP(NODESEQ(j), p)] == v.O[NODESEQ(j)][p])))
        ex.prove(st, 'mustfail:nothing is ever yielded', SBool(yl == 0), ex.fn, expect='refuted')

    def setup2(ex):
        st = setup(ex)
        axioms(ex, st)
        return st
    contract = {'post': post, 'yield_hook': yield_hook, 'merge_ifs': True,
                'loops': {0: {'inv': outer_inv, 'modifies': ['ylog', 'ylen'], 'kinds': {'n': 'keep', 'line': 'keep'}},
                          1: {'inv': inner_inv, 'modifies': ['ylog', 'ylen'], 'kinds': {'line': 'keep'}}}}
    return Config('any node sequence, any pin lists', contract, setup2, None)


def line_order_lemmas():
    from pyvc.verify import Lemmas

    def build():
        CP = z3.Function('CONNPINS', I, I, I)
        O = z3.Array('O_l', I, z3.ArraySort(I, I))
        OL = z3.Array('OL_l', I, I)
        n, p, p2, k, k2 = z3.Ints('n p p2 k k2')
        cp_step = z3.And(CP(n, p2 + 1) == CP(n, p2) + z3.If(O[n][p2] != NONE, 1, 0))
        yield 'CONNPINS-mono base', [], CP(n, p) <= CP(n, p)
        yield 'CONNPINS-mono step', [cp_step, p2 >= 0, CP(n, p) <= CP(n, p2)], CP(n, p) <= CP(n, p2 + 1)
        cy_step = z3.And(CNTY(k2 + 1) == CNTY(k2) + CP(NODESEQ(k2), OL[NODESEQ(k2)]), CP(NODESEQ(k2), OL[NODESEQ(k2)]) >= 0)
        yield 'CNTY-mono base', [], CNTY(k) <= CNTY(k)
        yield 'CNTY-mono step', [cy_step, CNTY(k) <= CNTY(k2)], CNTY(k) <= CNTY(k2 + 1)
        yield 'mustfail:CNTY is constant', [cy_step], CNTY(k2 + 1) == CNTY(k2), 'refuted'
    return Lemmas('lemma:CONNPINS and CNTY monotone (induction on the upper index)', build,
                  note='justifies the two assumed monotonicity clauses of the topological_line_order contract; CONNPINS(n,p) >= 0 is part of its recurrence axiom')


# ------------------------------------------------------------------------------------------- topological_order_with_level (C17)
# "reported levels equal the longest combinational distance from a source".  topological_order() enters as a node sequence NODESEQ(0..m) with
# the guarantees of its own (bounded) contract as requires: nodes of the circuit, each at most once, every connected driver of a node that is
# neither a state element nor without inputs is yielded earlier (POSOF).  Spec, for the yielded nodes: LEVEL(n) = 0 if n has no connected input
# or is a state element, else 1 + MAXD(n) with MAXD(n) the maximum of LEVEL over the drivers of the connected inputs (upper bound + witness WP).
NOIN = z3.Function('NOIN', I, B)
WNE, WP, POSOF = z3.Function('WNE', I, I), z3.Function('WP', I, I), z3.Function('POSOF', I, I)
LEVEL, MAXD = z3.Function('LEVEL', I, I), z3.Function('MAXD', I, I)


def level_config():
    from pyvc.models_obj import SObj

    class NodeSeq(Model):
        def __init__(self, m):
            self.m = m

        def m_call(self, ex, st, args, kwargs, node):
            return self

        def m_iter(self, ex, st, node):
            return SymIter(SInt(self.m), lambda ex_, st_, k: NodeRef(NODESEQ(to_int(k))))

    class Nodes(Model):
        def m_len(self, ex, st, node):
            return st.heap[('C', 'nodes_len')]

    class AllNoneIns(Model):
        def __init__(self, nid):
            self.nid = nid

    class DrvIdx(Model):
        def __init__(self, nid):
            self.nid = nid

    class Gather(Model):
        def __init__(self, nid):
            self.nid = nid

        def m_getattr(self, ex, st, name, node):
            if name != 'max':
                raise NotInSubset(f'array.{name}')

            def mx(ex_, st_, args, kwargs, node_):
                if args or kwargs:
                    raise NotInSubset('max with arguments')
                v, nid = ex_.g['v0'], self.nid
                ex_.prove(st_, 'no-exception:ValueError max() of an empty selection (the node has a connected input)', SBool(z3.Not(NOIN(nid))), node_)
                ex_.assumed.add('numpy: a[list of indices].max() is the maximum of the selected elements')
                m = ex_.fv('max', 'int').e
                p0 = ex_.fv('argmax_pin', 'int').e
                p = z3.Int('p!mx')
                LV = st_.heap['LV']
                sel = lambda q: LV[v.Ni[v.Ld[v.IN[nid][q]]]]
                st_.assume(SBool(z3.ForAll([p], z3.Implies(z3.And(0 <= p, p < v.IL[nid], v.IN[nid][p] != NONE), sel(p) <= m))))
                st_.assume(SBool(z3.And(0 <= p0, p0 < v.IL[nid], v.IN[nid][p0] != NONE, sel(p0) == m)))
                return SInt(m)
            return Method(mx)

    class LevelArr(Model):
        def m_binop(self, ex, st, op, a, b, node):
            if op is ast.Sub and a is self and b == 1 and st.heap.get('LV_fresh'):
                st.heap['LV'] = z3.K(I, z3.IntVal(-1))
                st.heap['LV_fresh'] = False
                return self
            raise NotInSubset('arithmetic on the level array')

        def m_getitem(self, ex, st, idx, node):
            v = ex.g['v0']
            if isinstance(idx, DrvIdx):
                p = z3.Int('p!gi')
                nid = idx.nid
                d = v.Ld[v.IN[nid][p]]
                ex.prove(st, 'no-exception:IndexError level[driver indices]', SBool(z3.ForAll([p], z3.Implies(z3.And(0 <= p, p < v.IL[nid], v.IN[nid][p] != NONE),
                                                                                                           z3.And(0 <= v.Ni[d], v.Ni[d] < v.NN)))), node)
                return Gather(nid)
            raise NotInSubset('read of the level array')

        def m_setitem(self, ex, st, idx, val, node):
            v = ex.g['v0']
            if not isinstance(idx, NodeRef):
                raise NotInSubset('write to the level array at something other than a node')
            i = v.Ni[idx.oid]
            ex.prove(st, 'no-exception:IndexError level[n]', SBool(z3.And(0 <= i, i < v.NN)), node)
            st.heap['LV'] = z3.Store(st.heap['LV'], i, to_int(val))

    def prims(globs):
        def zeros(ex, st, args, kwargs, node):
            st.heap['LV'] = z3.K(I, z3.IntVal(0))
            st.heap['LV_fresh'] = True
            return LevelArr()

        def all_(ex, st, args, kwargs, node):
            if len(args) == 1 and isinstance(args[0], AllNoneIns):
                return SBool(NOIN(args[0].nid))
            raise NotInSubset('all() of this value')
        return {globs['np'].zeros: zeros, all: all_}

    def comp_hook(ex, st, n):
        if len(n.generators) != 1:
            return NotImplemented
        g = n.generators[0]
        if not isinstance(g.target, ast.Name):
            return NotImplemented
        it = ex.ev(st, g.iter)
        if not isinstance(it, PinList) or it.which != 'ins':
            return NotImplemented
        t = g.target.id
        elt, ifs = ast.unparse(n.elt), [ast.unparse(c) for c in g.ifs]
        if isinstance(n, ast.GeneratorExp) and elt == f'{t} is None' and not ifs:
            return AllNoneIns(it.nid)
        if isinstance(n, ast.ListComp) and elt == f'{t}.driver.index' and ifs == [f'{t} is not None']:
            return DrvIdx(it.nid)
        return NotImplemented

    def src(n):
        return z3.Or(NOIN(n), HASDFF(n), HASLATCH(n))

    def setup(ex):
        st = fresh_state(ex)
        v = V(st)
        m = ex.fv('n_yielded_nodes', 'int').e
        k, k2, n, p = z3.Ints('k k2 n p')
        nk = NODESEQ(k)
        drv = v.Ld[v.IN[nk][p]]
        st.assume(SBool(m >= 0))
        st.assume(SBool(z3.ForAll([n], v.IL[n] >= 0)))
        # definition of "no connected input"
        st.assume(SBool(z3.ForAll([n, p], z3.Implies(z3.And(NOIN(n), 0 <= p, p < v.IL[n]), v.IN[n][p] == NONE))))
        st.assume(SBool(z3.ForAll([n], z3.Implies(z3.Not(NOIN(n)), z3.And(0 <= WNE(n), WNE(n) < v.IL[n], v.IN[n][WNE(n)] != NONE)))))
        # requires (contract of topological_order, bounded evidence): nodes of the circuit, each at most once, drivers of non-source nodes earlier
        st.assume(SBool(z3.ForAll([k], z3.Implies(z3.And(0 <= k, k < m), v.inN(nk)))))
        st.assume(SBool(z3.ForAll([k, k2], z3.Implies(z3.And(0 <= k, k < k2, k2 < m), NODESEQ(k) != NODESEQ(k2)))))
        st.assume(SBool(z3.ForAll([k, p], z3.Implies(z3.And(0 <= k, k < m, z3.Not(src(nk)), 0 <= p, p < v.IL[nk], v.IN[nk][p] != NONE),
                                                     z3.And(drv != NONE, 0 <= POSOF(drv), POSOF(drv) < k, NODESEQ(POSOF(drv)) == drv)))))
        # spec: longest combinational distance from a source, for the yielded nodes
        st.assume(SBool(z3.ForAll([k], z3.Implies(z3.And(0 <= k, k < m), LEVEL(nk) == z3.If(src(nk), 0, 1 + MAXD(nk))))))
        st.assume(SBool(z3.ForAll([k, p], z3.Implies(z3.And(0 <= k, k < m, z3.Not(src(nk)), 0 <= p, p < v.IL[nk], v.IN[nk][p] != NONE), LEVEL(drv) <= MAXD(nk)))))
        wp = WP(nk)
        st.assume(SBool(z3.ForAll([k], z3.Implies(z3.And(0 <= k, k < m, z3.Not(src(nk))),
                                                  z3.And(0 <= wp, wp < v.IL[nk], v.IN[nk][wp] != NONE, LEVEL(v.Ld[v.IN[nk][wp]]) == MAXD(nk))))))
        st.heap['LV'] = z3.Array('LV_garbage', I, I)
        st.heap['LV_fresh'] = False
        st.heap['ylogN'], st.heap['ylogL'] = z3.Array('ylogN0', I, I), z3.Array('ylogL0', I, I)
        st.heap['ylen'] = SInt(z3.IntVal(0))
        st.env['self'] = SObj.new(st, 'self', topological_order=NodeSeq(m), nodes=Nodes())
        ex.readonly.add(('self', 'topological_order'))
        ex.readonly.add(('self', 'nodes'))
        ex.g = dict(m=m, v0=v)
        return st

    def yield_hook(ex, st, val, node):
        if not (isinstance(val, tuple) and len(val) == 2 and isinstance(val[0], NodeRef)):
            ex.prove(st, 'pairs (node, level) are yielded', False, node)
            return
        n = to_int(st.heap['ylen'])
        st.heap['ylogN'] = z3.Store(st.heap['ylogN'], n, val[0].oid)
        st.heap['ylogL'] = z3.Store(st.heap['ylogL'], n, to_int(val[1]))
        st.heap['ylen'] = SInt(n + 1)

    def clauses(ex, st, k):
        v = ex.g['v0']
        YN, YL, yl, LV = st.heap['ylogN'], st.heap['ylogL'], to_int(st.heap['ylen']), st.heap['LV']
        j = z3.Int('j')
        return [('E1:one pair per node passed so far', yl == k),
                ('E2:the j-th pair is the j-th node of the topological order with its longest combinational distance from a source',
                 z3.ForAll([j], z3.Implies(z3.And(0 <= j, j < k), z3.And(YN[j] == NODESEQ(j), YL[j] == LEVEL(NODESEQ(j)))))),
                ('E3:the level array holds the level of every node passed so far', z3.ForAll([j], z3.Implies(z3.And(0 <= j, j < k), LV[v.Ni[NODESEQ(j)]] == LEVEL(NODESEQ(j)))))]

    def inv(ex, st):
        if not isinstance(st.env.get('level'), LevelArr):
            yield 'level is the array created before the loop', False
            return
        for nm, c in clauses(ex, st, to_int(st.env['__k0'])):
            yield nm, SBool(c)

    def post(ex, st):
        for nm, c in clauses(ex, st, ex.g['m']):
            yield nm.split(':', 1)[1].replace('passed so far', 'of the topological order'), SBool(c)
        j = z3.Int('j')
        ex.prove(st, 'mustfail:every reported level is 0', SBool(z3.ForAll([j], z3.Implies(z3.And(0 <= j, j < ex.g['m']), st.heap['ylogL'][j] == 0))), ex.fn, expect='refuted')
        ex.prove(st, 'mustfail:nothing is ever yielded', SBool(to_int(st.heap['ylen']) == 0), ex.fn, expect='refuted')
    contract = {'post': post, 'yield_hook': yield_hook, 'comp_hook': comp_hook, 'merge_ifs': True,
                'loops': {0: {'inv': inv, 'modifies': ['LV', 'ylogN', 'ylogL', 'ylen'], 'kinds': {'n': 'keep', 'l': 'int'}}}}
    cfg = Config('any topological node sequence, any pin lists', contract, setup, None)
    cfg.prims_fn = prims
    return cfg


def targets_level():
    cfg = level_config()
    return [Target('circuit', 'Circuit.topological_order_with_level', [cfg], prims=cfg.prims_fn, instantiate='fallback',
                   note='generator: yields are a ghost sequence; topological_order() enters as a node sequence with the guarantees of its (bounded) contract as requires; '
                        'the two comprehensions over n.ins are modelled as one value each (comp_hook); numpy max() by an assumed contract')]


def targets_c17():
    return [line_order_lemmas(), Target('circuit', 'Circuit.topological_line_order', [line_order_config()], instantiate='fallback',
                   note='generator: yields are a ghost sequence; topological_order() enters as an arbitrary node sequence')]
