"""Contract of the pin-numbering phase of kyupy.techlib.TechLib.__init__ (C19: "every built-in library cell lists each pin exactly once, with
inputs and outputs numbered 0..n-1 in declaration order and in agreement with its implementation circuit").

Verified text: inside the body of ``for c_str in re.split(...)``, the statements from ``i_idx, o_idx = 0, 0`` to the end of
``for n in c.io_nodes:``.  ``c.io_nodes`` is any sequence of ports: NINS(k) = number of input pins of port k (0: the port is a cell input,
> 0: a cell output), NAME(k) its name; the names are pairwise distinct (requires: circuit invariant W6 of C09, name tables <-> nodes).
Ghost: CI(k) / CO(k) = number of cell inputs / outputs among ports [0, k), HASN(nm, k) = some port among [0, k) is named nm.
ensures  for every port j: pin_dict[NAME(j)] = (CI(j), False) if it is a cell input, (CO(j), True) otherwise; the keys are exactly the port names
         -- so each pin is listed once and inputs / outputs are numbered 0..CI(n)-1 / 0..CO(n)-1 in the order of the implementation's ports.
``pin_dict`` is a ghost map name -> (index, is_output) with a domain (three arrays in the heap).
"""
import ast

import z3

from pyvc.engine import State, Model, NotInSubset, SymIter, ContractError
from pyvc.values import SInt, SBool, to_int, to_bool
from pyvc.verify import Config, Target, Lemmas

I, B = z3.IntSort(), z3.BoolSort()
NINS, NAME = z3.Function('NINS', I, I), z3.Function('PNAME', I, I)
CI, CO = z3.Function('CI', I, I), z3.Function('CO', I, I)
HASN = z3.Function('HASN', I, I, B)


class InsList(Model):
    def __init__(self, k):
        self.k = k

    def m_len(self, ex, st, node):
        return SInt(NINS(self.k))

    def m_truth(self, ex, st, node):
        return SBool(NINS(self.k) != 0)


class Port(Model):
    def __init__(self, k):
        self.k = k

    def m_getattr(self, ex, st, name, node):
        if name == 'ins':
            return InsList(self.k)
        if name == 'name':
            return SInt(NAME(self.k))
        raise NotInSubset(f'attribute {name} of a port of the implementation circuit')


class Ports(Model):
    def __init__(self, n):
        self.n = n

    def m_iter(self, ex, st, node):
        return SymIter(SInt(self.n), lambda ex_, st_, k: Port(to_int(k)))

    def m_len(self, ex, st, node):
        return SInt(self.n)


class Impl(Model):
    def __init__(self, n):
        self.n = n

    def m_getattr(self, ex, st, name, node):
        if name == 'io_nodes':
            return Ports(self.n)
        raise NotInSubset(f'attribute {name} of the implementation circuit')


class PinDict(Model):
    def m_setitem(self, ex, st, key, val, node):
        if not isinstance(key, SInt) or not isinstance(val, (tuple, list)) or len(val) != 2:
            raise NotInSubset('pin table entry that is not name -> (index, is_output)')
        idx, out = val
        if isinstance(idx, bool) or not isinstance(out, (bool, SBool)):
            raise NotInSubset('pin table entry that is not (int, bool)')
        nm = to_int(key)
        st.heap['PIDX'] = z3.Store(st.heap['PIDX'], nm, to_int(idx))
        st.heap['POUT'] = z3.Store(st.heap['POUT'], nm, to_bool(out) if isinstance(out, SBool) else z3.BoolVal(out))
        st.heap['PDOM'] = z3.Store(st.heap['PDOM'], nm, True)


def prims():
    def mkdict(ex, st, args, kwargs, node):
        if args or kwargs:
            raise NotInSubset('dict(...) with arguments')
        st.heap['PIDX'] = z3.K(I, z3.IntVal(-1))
        st.heap['POUT'] = z3.K(I, z3.BoolVal(False))
        st.heap['PDOM'] = z3.K(I, z3.BoolVal(False))
        return PinDict()
    return {dict: mkdict}


def pin_phase(stmts):
    """inside the per-definition loop: from the statement that resets the two counters to the end of the loop over the ports"""
    for s in stmts:
        if isinstance(s, ast.For) and 'lib_src' in ast.unparse(s.iter):
            body = list(s.body)
            b = next((i for i, x in enumerate(body) if isinstance(x, ast.For) and 'io_nodes' in ast.unparse(x.iter)), None)
            if b is None:
                break
            names = lambda x: {y.id for t in getattr(x, 'targets', []) for y in ast.walk(t) if isinstance(y, ast.Name)}
            a = b
            while a > 0 and isinstance(body[a - 1], ast.Assign) and names(body[a - 1]) & {'i_idx', 'o_idx', 'pin_dict'}:
                a -= 1
            return body[a:b + 1]
    raise ContractError('pin-numbering phase (loop over c.io_nodes inside the loop over the definitions) not found in TechLib.__init__')


def dict_hook(ex, st, keys, vals, node):
    if keys:
        return NotImplemented
    return prims()[dict](ex, st, [], {}, node)


def pins_config():
    def setup(ex):
        st = State()
        n = ex.fv('n_ports', 'int').e
        k, k2, nm = z3.Ints('k k2 nm')
        st.assume(SBool(z3.And(n >= 0, z3.ForAll([k], NINS(k) >= 0))))
        st.assume(SBool(z3.ForAll([k, k2], z3.Implies(z3.And(0 <= k, k < k2, k2 < n), NAME(k) != NAME(k2)))))           # requires: port names distinct
        st.assume(SBool(z3.And(CI(0) == 0, CO(0) == 0, z3.ForAll([nm], z3.Not(HASN(nm, 0))))))
        st.assume(SBool(z3.ForAll([k], z3.Implies(k >= 0, z3.And(CI(k + 1) == CI(k) + z3.If(NINS(k) == 0, 1, 0), CO(k + 1) == CO(k) + z3.If(NINS(k) == 0, 0, 1))))))
        st.assume(SBool(z3.ForAll([nm, k], z3.Implies(k >= 0, HASN(nm, k + 1) == z3.Or(HASN(nm, k), NAME(k) == nm)))))
        st.assume(SBool(z3.ForAll([k, k2], z3.Implies(z3.And(0 <= k, k <= k2), z3.And(CI(k) <= CI(k2), CO(k) <= CO(k2))))))      # monotone (lemma below)
        st.heap['PIDX'] = z3.Array('PIDX_garbage', I, I)
        st.heap['POUT'] = z3.Array('POUT_garbage', I, B)
        st.heap['PDOM'] = z3.Array('PDOM_garbage', I, B)
        st.env['c'] = Impl(n)
        ex.g = dict(n=n)
        return st

    def clauses(st, k):
        PIDX, POUT, PDOM = st.heap['PIDX'], st.heap['POUT'], st.heap['PDOM']
        j, nm = z3.Ints('j nm')
        return [('T1:every port seen so far is listed with its direction and its position among the ports of that direction',
                 z3.ForAll([j], z3.Implies(z3.And(0 <= j, j < k), z3.And(PDOM[NAME(j)], POUT[NAME(j)] == (NINS(j) != 0), PIDX[NAME(j)] == z3.If(NINS(j) == 0, CI(j), CO(j)))))),
                ('T2:the pins listed are exactly the names of the ports seen so far', z3.ForAll([nm], PDOM[nm] == HASN(nm, k)))]

    def inv(ex, st):
        k = to_int(st.env['__k0'])
        if not isinstance(st.env.get('pin_dict'), PinDict):
            yield 'pin_dict is the table created before the loop', SBool(z3.BoolVal(False))
            return
        yield 'C1:i_idx counts the cell inputs seen so far', SBool(to_int(st.env['i_idx']) == CI(k))
        yield 'C2:o_idx counts the cell outputs seen so far', SBool(to_int(st.env['o_idx']) == CO(k))
        for name, c in clauses(st, k):
            yield name, SBool(c)

    def post(ex, st):
        if not isinstance(st.env.get('pin_dict'), PinDict):
            yield 'pin_dict is the table built by the loop', SBool(z3.BoolVal(False))
            return
        n = ex.g['n']
        for name, c in clauses(st, n):
            yield name.split(':', 1)[1].replace('seen so far', 'of the implementation'), SBool(c)
        PIDX, POUT = st.heap['PIDX'], st.heap['POUT']
        j, j2 = z3.Ints('j j2')
        # consequences the property names: numbering is 0..count-1 without repetition per direction
        yield 'two different ports of the same direction never share a pin index', \
            SBool(z3.ForAll([j, j2], z3.Implies(z3.And(0 <= j, j < j2, j2 < n, (NINS(j) == 0) == (NINS(j2) == 0)), PIDX[NAME(j)] < PIDX[NAME(j2)])))
        yield 'pin indices stay below the number of ports of that direction', \
            SBool(z3.ForAll([j], z3.Implies(z3.And(0 <= j, j < n), z3.And(PIDX[NAME(j)] >= 0, PIDX[NAME(j)] < z3.If(NINS(j) == 0, CI(n), CO(n))))))
        ex.prove(st, 'mustfail:every pin gets index 0', SBool(z3.ForAll([j], z3.Implies(z3.And(0 <= j, j < n), PIDX[NAME(j)] == 0))), ex.fn, expect='refuted')

    def replay(model, obl, ex):
        ev = lambda e: model.eval(e, model_completion=True)
        n = ev(ex.g['n']).as_long()
        if not 1 <= n <= 12:
            return None
        return 'contracts.techlib_c:run_pins', {'is_input': [ev(NINS(z3.IntVal(k))).as_long() == 0 for k in range(n)]}

    def finite(ex):
        return -1, 5, [ex.g['n'] <= 5]
    contract = {'post': post, 'dict_hook': dict_hook, 'merge_ifs': True,
                'loops': {0: {'inv': inv, 'modifies': ['PIDX', 'POUT', 'PDOM'], 'kinds': {'i_idx': 'int', 'o_idx': 'int', 'n': 'keep'}}}}
    cfg = Config('any sequence of ports (cell inputs and outputs in any order, distinct names)', contract, setup, replay, finite=finite)
    cfg.small = lambda ex: [ex.g['n'] <= 6]
    return cfg


def run_pins(args):
    """the real TechLib on a one-cell library whose ports are declared in the given order against the statement of the contract"""
    from kyupy.techlib import TechLib
    kinds = args['is_input']
    ins = [f'i{k}' for k, f in enumerate(kinds) if f]
    outs = [f'o{k}' for k, f in enumerate(kinds) if not f]
    lines = []
    for k, f in enumerate(kinds):
        lines.append(f'input(i{k})' if f else f'output(o{k})')
    for o in outs:
        lines.append(f'{o}=BUF1({ins[0]})' if ins else f'{o}=__const1__()')
    src = 'CELLX ' + ' '.join(lines) + ' ;\n'
    try:
        tl = TechLib(src)
        pd = tl.cells['CELLX'][1]
    except Exception as e:  # noqa
        return {'reproduced': True, 'observed': repr(e), 'library': src}
    want, ci, co = {}, 0, 0
    for k, f in enumerate(kinds):
        if f:
            want[f'i{k}'] = (ci, False)
            ci += 1
        else:
            want[f'o{k}'] = (co, True)
            co += 1
    got = {k: (int(v[0]), bool(v[1])) for k, v in pd.items()}
    return {'reproduced': got != want, 'observed': {k: list(v) for k, v in got.items()}, 'expected': {k: list(v) for k, v in want.items()}, 'library': src}


def lemmas():
    def build():
        k, k2 = z3.Ints('k k2')
        step = z3.And(CI(k2 + 1) == CI(k2) + z3.If(NINS(k2) == 0, 1, 0), CO(k2 + 1) == CO(k2) + z3.If(NINS(k2) == 0, 0, 1))
        yield 'CI/CO-mono base', [], z3.And(CI(k) <= CI(k), CO(k) <= CO(k))
        yield 'CI/CO-mono step', [step, CI(k) <= CI(k2), CO(k) <= CO(k2)], z3.And(CI(k) <= CI(k2 + 1), CO(k) <= CO(k2 + 1))
        yield 'CI strict over an input', [step, NINS(k2) == 0], CI(k2) < CI(k2 + 1)
        yield 'CO strict over an output', [step, NINS(k2) != 0], CO(k2) < CO(k2 + 1)
        yield 'mustfail:CI is constant', [step], CI(k2 + 1) == CI(k2), 'refuted'
    return Lemmas('lemma:CI/CO monotone (induction on the upper index), strict across a port of that direction', build,
                  note='justifies the assumed monotonicity clauses of the TechLib.__init__ pin-numbering contract')


def targets():
    return [Target('techlib', 'TechLib.__init__', [pins_config()], prims=prims(), body_slice=pin_phase, instantiate='fallback', label='pin numbering',
                   note='inside `for c_str in re.split(..)`: `i_idx, o_idx = 0, 0; pin_dict = dict(); for n in c.io_nodes: ...`; the text splitting, bench.parse, '
                        'eliminate_1to1_forks before and the brace expansion after are not part of the verified text'),
            lemmas()]
